"""C13 - help pages are complete, respect hiding, fit the terminal and never fail;
`help <path>` prints the same page as `<path> --help`.

E1 (bounded exhaustive enumeration, everything executed on the real clikit classes).  The space is a
product that is far too large to run as one block (catalogue^6 x widths x formats x trees), so it is cut
into PARTS; each part is a complete product over the dimensions that interact in the code under test:

  params   one plain command x every valid sequence of 0..2 arguments x every multiset of 0..2 options
           (full kind catalogues below) x {minimum width, 80} x {plain, ANSI}     -> CommandHelp
  params3  (thorough) full catalogues, (3 args x 0..2 opts) u (0..2 args x 3 opts), and
  params3x3  the 3 args x 3 opts corner over the reduced catalogues; each at (minimum width, plain)
           and (80, ANSI)                                                          -> CommandHelp
  widths   one plain command with a long manual x a cross of the catalogues (quick: 0..2 args | 1 arg x
           1 opt | 2 opts;  thorough: 0..2 args x 0..1 opts u 0..1 args x 2 opts) x EVERY width of the
           tier (quick 13 widths, thorough 40..200) x {plain, ANSI}                -> CommandHelp
  globals  application kind {bare ApplicationConfig, DefaultApplicationConfig} x 0..2 extra global
           options from the option catalogue (default kind, quick: 0..1) x {no, optional, required (bare
           only)} global argument x small command params x 2 widths x 2 formats
                                                                 -> ApplicationHelp, CommandHelp, run
  nest     parent/child command pair, 0..1 argument and 0..1 option on both (inherited arguments and
           options, the child's parameters listed inside the parent's COMMANDS block; quick: reduced
           catalogues, thorough: full) x 2 widths x 2 formats                      -> CommandHelp of both
  trees    every tree shape with <= 3 nodes x every assignment of the marks plain / aliased / default /
           anonymous / hidden / disabled / hidden+default to the nodes x 2 widths x 2 formats
           -> ApplicationHelp, CommandHelp of every enabled command, and `help <path>`,
              `<path> --help`, `<path> -h` through ConsoleApplication.run (alias spellings too)
  trees4   (thorough) the same for the nine shapes with 4 nodes (depth <= 4), at (minimum width, plain)
           and (80, ANSI)
A page is only rendered at widths >= its own minimum width (see min_width()).

ORACLE (known by construction: the generator built the configuration, so it knows which names must and
must not be on which page).  Text is judged after removing SGR sequences.
  * no exception escapes / `run` returns 0 and writes nothing to the error stream;
  * a command page contains, as whole tokens, the name of every enabled, non-hidden, named (= not
    anonymous) direct sub-command, `<name>` for every own and inherited argument, `--long` and `-s` for
    every own and inherited option (inherited = from ancestors and from the application, including
    the seven options of DefaultApplicationConfig);  the application page contains every enabled,
    non-hidden, named top-level command and every global option under both names;
  * names and aliases of disabled commands occur on no page; names and aliases of hidden commands occur
    on no page except the pages of the hidden command itself and of its descendants (its name is part
    of their path);
  * every line is at most W columns wide, demanded only when W >= longest label + 10 (see min_width());
  * `help <path>`, `<path> --help` and `<path> -h` print the same text, and - when the command at <path>
    has no default sub-command and the application has no global argument - that text is the page
    CommandHelp(command) renders directly at the same width / format.

DELIBERATELY NOT DEMANDED (the statement is silent):
  * a hidden *default* sub-command may appear in the parent's USAGE synopsis (clikit prints the usage of
    default sub-commands without looking at `hidden`); its name is only forbidden outside the USAGE block;
  * anonymous commands have no name to list; nothing is demanded about them on the parent's page;
  * grand-children need not be listed on a page (only direct sub-commands);
  * global *arguments* of the application need not be listed on the application page (they must be on
    command pages: they are inherited arguments); with a global argument `help foo` binds `foo` to that
    argument, so which page is printed is not asserted (only status, fit and equality of the spellings);
  * when the command at <path> has default sub-commands the resolver descends; which page is shown is
    C03's business, only status / fit / equal spellings / disabled names are checked there;
  * where on the page a name occurs (an option that only shows up in the synopsis would pass);
  * nothing at all below the minimum width;
  * a command "without description" is one whose description was never set (""), not set_description(None).
"""
import itertools
import os
import re

from mc import common, par, report
from mc.term import strip_sgr

PID = "C13"
APP = "tool"
MARGIN = 10

D_SHORT = "Short text"
D_LONG = ("First line of a rather long description that keeps going so that it has to be wrapped somewhere.\n"
          "Second line with one very long unbreakable word https://example.org/a/very/long/path/without/any/space/in/it/at/all "
          "in the middle of it.\n"
          "Third and last line, again long enough to need more than one row on a narrow terminal.")
HELP_TEXT = ("The manual of {command_name} as shown by {script_name}.\n\n"
             "A second paragraph of the manual that is long enough to be wrapped on every terminal narrower than a hundred columns.")
APP_HELP = "Application manual of {script_name}.\n\nSecond paragraph."
DESC = {"n": None, "s": D_SHORT, "l": D_LONG}

# The seven options DefaultApplicationConfig declares (long, short); all prefer the short name when there is one.
DEFAULT_GLOBALS = [("help", "h"), ("quiet", "q"), ("verbose", "v"), ("version", "V"), ("ansi", None), ("no-ansi", None),
                   ("no-interaction", "n")]
STYLE_TAGS = ["info", "comment", "question", "error", "b", "u", "c1", "c2"]

# ---------------------------------------------------------------------------------------------------
# kind catalogues.   id -> (kind, description key, default, fixed name)
#   argument kinds: req = REQUIRED, opt = OPTIONAL, mul = OPTIONAL|MULTI_VALUED, rmul = REQUIRED|MULTI_VALUED
# Simplest first (described, no default), so that the first violation of a signature is the minimal one.
ARGS = [
    ("req.s", ("req", "s", None, None)),
    ("opt.s", ("opt", "s", None, None)),
    ("mul.s", ("mul", "s", None, None)),
    ("rmul.s", ("rmul", "s", None, None)),
    ("opt.s.int", ("opt", "s", 42, None)),
    ("opt.l.str", ("opt", "l", "some text", None)),
    ("req.l", ("req", "l", None, None)),
    ("mul.l.list", ("mul", "l", ["one", "two"], None)),
    ("req.n", ("req", "n", None, None)),
    ("opt.n", ("opt", "n", None, None)),
    ("opt.n.str", ("opt", "n", "some text", None)),
    ("mul.n.list", ("mul", "n", ["one", "two"], None)),
    ("opt.s.info", ("opt", "s", None, "info")),
]
ARG_STEM = {"req": "src", "opt": "target", "mul": "items", "rmul": "paths"}
# option kinds: (value kind, short mode, description key, default, value name)
#   value kind: flag = NO_VALUE, req = REQUIRED_VALUE, optv = OPTIONAL_VALUE, mul = MULTI_VALUED (REQUIRED_VALUE implied)
#   short mode: "-" no short name, "S" short name (preferred, the default), "L" short name + PREFER_LONG_NAME
OPTS = [
    ("flag.-.s", ("flag", "-", "s", None, None)),
    ("flag.S.s", ("flag", "S", "s", None, None)),
    ("req.L.s.str", ("req", "L", "s", "some text", None)),
    ("optv.S.s.int.vn", ("optv", "S", "s", 42, "level")),
    ("mul.S.s.vn", ("mul", "S", "s", None, "item")),
    ("req.S.l.str.vn", ("req", "S", "l", "some text", "value")),
    ("flag.L.l", ("flag", "L", "l", None, None)),
    ("optv.L.l", ("optv", "L", "l", None, None)),
    ("mul.-.l.list", ("mul", "-", "l", ["one", "two"], None)),
    ("req.-.n", ("req", "-", "n", None, None)),
    ("flag.S.n", ("flag", "S", "n", None, None)),
    ("req.L.n.int", ("req", "L", "n", 42, None)),
    ("optv.-.n.str", ("optv", "-", "n", "some text", None)),
    ("mul.L.n.list", ("mul", "L", "n", ["one", "two"], None)),
]
OPT_STEM = {"flag": "flg", "req": "reqval", "optv": "optional-value", "mul": "multi-valued-opt"}
ARGD = dict(ARGS)
OPTD = dict(OPTS)
ARG_IDS = [k for k, _ in ARGS]
OPT_IDS = [k for k, _ in OPTS]
# reduced catalogues (one per flag kind + the undescribed one + the style-named one)
ARG_SMALL = ["req.s", "opt.s.int", "mul.l.list", "rmul.s", "opt.n", "opt.s.info"]
OPT_SMALL = ["flag.-.s", "req.L.s.str", "optv.S.s.int.vn", "mul.-.l.list", "flag.S.n"]

# owner tags: nodes in pre-order get a, b, c, d; application-level parameters get g.  Short option letters per (owner, slot),
# disjoint from h q v V n of DefaultApplicationConfig.
SHORTS = {"a": "abc", "b": "def", "c": "gij", "d": "klm", "g": "xyz"}
NODE_NAMES = ["kalfa", "kbravo", "kcharl", "kdelta"]
MARKS = ["plain", "aliased", "default", "anonymous", "hidden", "disabled", "hiddendefault"]


def arg_spec(aid, owner, slot):
    kind, d, default, fixed = ARGD[aid]
    return {"id": aid, "name": fixed or "%s%s%d" % (ARG_STEM[kind], owner, slot), "kind": kind, "desc": DESC[d], "default": default,
            "style": bool(fixed)}


def opt_spec(oid, owner, slot):
    vk, sm, d, default, vn = OPTD[oid]
    return {"id": oid, "long": "%s-%s%d" % (OPT_STEM[vk], owner, slot), "short": None if sm == "-" else SHORTS[owner][slot], "vk": vk,
            "pref_long": sm != "S", "explicit_long": sm == "L", "desc": DESC[d], "default": default, "vn": vn}


def args_valid(kinds):
    """clikit's own rule (ArgsFormatBuilder.add_argument): nothing after a multi-valued one, no required one after an optional one."""
    multi = optional = False
    for k in kinds:
        if multi:
            return False
        if k in ("req", "rmul") and optional:
            return False
        if k in ("mul", "rmul"):
            multi = True
        if k in ("opt", "mul"):
            optional = True
    return True


# ---------------------------------------------------------------------------------------------------
# model of a configuration (built from the JSON-able spec; the oracle reads only this)
class Node(object):
    def __init__(self, spec, tag, parent):
        self.tag = tag
        self.name = NODE_NAMES["abcd".index(tag)]
        self.mark = spec.get("m", "plain")
        self.d = spec.get("d", "")
        self.parent = parent
        self.args = [arg_spec(a, tag, i) for i, a in enumerate(spec.get("a", []))]
        self.opts = [opt_spec(o, tag, i) for i, o in enumerate(spec.get("o", []))]
        self.subs = []
        self.aliases = [self.name + "ali"] if self.mark == "aliased" else []
        self.hidden = self.mark in ("hidden", "hiddendefault")
        self.default = self.mark in ("default", "anonymous", "hiddendefault")
        self.anonymous = self.mark == "anonymous"
        self.enabled = self.mark != "disabled" and (parent is None or parent.enabled)

    def path(self):
        return (self.parent.path() if self.parent else []) + [self]

    def reachable(self):
        return all(x.enabled and not x.anonymous for x in self.path())


class Model(object):
    def __init__(self, spec):
        self.spec = spec
        self.cfg = spec.get("cfg", "default")
        self.gopts = [opt_spec(o, "g", i) for i, o in enumerate(spec.get("gopts", []))]
        self.gargs = [arg_spec(a, "g", i) for i, a in enumerate(spec.get("gargs", []))]
        self.app_help = bool(spec.get("help"))
        self.nodes = []
        self.roots = [self._node(s, None) for s in spec.get("tree", [])]

    def _node(self, spec, parent):
        n = Node(spec, "abcd"[len(self.nodes)], parent)
        self.nodes.append(n)
        n.subs = [self._node(s, n) for s in spec.get("s", [])]
        return n

    def node(self, tag):
        return [n for n in self.nodes if n.tag == tag][0]

    def global_options(self):
        """(long, short, pref_long, generated?)"""
        out = [(o["long"], o["short"], o["pref_long"], True) for o in self.gopts]
        if self.cfg == "default":
            out += [(l, s, s is None, False) for l, s in DEFAULT_GLOBALS]
        return out

    def valid(self):
        """Our own statement of clikit's argument order rule over every inheritance chain."""
        g = [a["kind"] for a in self.gargs]
        names = set()
        for n in self.nodes:
            chain = g + [a["kind"] for x in n.path() for a in x.args]
            if not args_valid(chain):
                return False
            nm = [a["name"] for a in self.gargs] + [a["name"] for x in n.path() for a in x.args]
            if len(nm) != len(set(nm)):
                return False
        return True


def build_app(model):
    """The real clikit application for a model.  Exceptions here mean 'configuration rejected', not a help failure."""
    from clikit import ConsoleApplication
    from clikit.api.args.format import Argument, Option
    from clikit.api.config import ApplicationConfig
    from clikit.config import DefaultApplicationConfig

    aflags = {"req": Argument.REQUIRED, "opt": Argument.OPTIONAL, "mul": Argument.OPTIONAL | Argument.MULTI_VALUED,
              "rmul": Argument.REQUIRED | Argument.MULTI_VALUED}
    oflags = {"flag": Option.NO_VALUE, "req": Option.REQUIRED_VALUE, "optv": Option.OPTIONAL_VALUE, "mul": Option.MULTI_VALUED}

    def params(c, args, opts):
        for a in args:
            c.add_argument(a["name"], aflags[a["kind"]], a["desc"], a["default"])
        for o in opts:
            fl = oflags[o["vk"]] | (Option.PREFER_LONG_NAME if o["explicit_long"] else 0)
            if o["vn"]:
                c.add_option(o["long"], o["short"], fl, o["desc"], o["default"], o["vn"])
            else:
                c.add_option(o["long"], o["short"], fl, o["desc"], o["default"])

    if model.cfg == "default":
        cfg = DefaultApplicationConfig(APP, "1.2.3")
    else:
        cfg = ApplicationConfig(APP)
    cfg.set_catch_exceptions(False)
    cfg.set_terminate_after_run(False)
    if model.app_help:
        cfg.set_help(APP_HELP)
    params(cfg, model.gargs, model.gopts)

    def add(parent_cfg, n, top):
        c = parent_cfg.create_command(n.name) if top else parent_cfg.create_sub_command(n.name)
        if n.d:
            c.set_description(DESC[n.d])
        if n.d == "l":
            c.set_help(HELP_TEXT)
        for al in n.aliases:
            c.add_alias(al)
        if n.mark == "default":
            c.default()
        elif n.mark == "anonymous":
            c.anonymous()
        elif n.mark == "hidden":
            c.hide()
        elif n.mark == "disabled":
            c.disable()
        elif n.mark == "hiddendefault":
            c.hide()
            c.default()
        params(c, n.args, n.opts)
        for s in n.subs:
            add(c, s, False)

    for r in model.roots:
        add(cfg, r, True)
    return ConsoleApplication(cfg)


def find_command(app, n):
    cmd = None
    for x in n.path():
        cmd = app.get_command(x.name) if cmd is None else cmd.get_sub_command(x.name)
    return cmd


# ---------------------------------------------------------------------------------------------------
# rendering
def render_direct(app, model, n, W, ansi):
    """ApplicationHelp (n is None) or CommandHelp on a BufferedIO whose width is fixed with set_terminal_dimensions."""
    from clikit.formatter import AnsiFormatter, PlainFormatter
    from clikit.io import BufferedIO
    from clikit.ui.help import ApplicationHelp, CommandHelp
    from clikit.ui.rectangle import Rectangle

    os.environ["COLUMNS"] = str(W)  # never the real terminal, whatever reads it
    # a plain ApplicationConfig has no style set (default_style_set is abstract): the formatters' own default is used then
    ss = app.config.style_set if model.cfg == "default" else None
    io = BufferedIO(formatter=AnsiFormatter(ss, forced=True) if ansi else PlainFormatter(ss))
    io.set_terminal_dimensions(Rectangle(W, 50))
    h = ApplicationHelp(app) if n is None else CommandHelp(find_command(app, n))
    h.render(io)
    return io.fetch_output()


def render_run(app, tokens, W, ansi):
    """Through ConsoleApplication.run: ConsoleIO made by DefaultApplicationConfig.create_io, width from COLUMNS."""
    from clikit.args import ArgvArgs
    from clikit.io.input_stream import StringInputStream
    from clikit.io.output_stream import BufferedOutputStream

    os.environ["COLUMNS"] = str(W)
    os.environ["LINES"] = "50"
    o, e = BufferedOutputStream(), BufferedOutputStream()
    rc = app.run(ArgvArgs([APP] + list(tokens) + (["--ansi"] if ansi else [])), StringInputStream(""), o, e)
    return rc, o.fetch(), e.fetch()


# ---------------------------------------------------------------------------------------------------
# oracle
def tok(name):
    """name as a whole token: not glued to a letter, digit, underscore or hyphen on either side."""
    return re.compile(r"(?<![\w-])" + re.escape(name) + r"(?![\w-])")


_TOK = {}


def has_token(text, name):
    r = _TOK.get(name)
    if r is None:
        r = _TOK[name] = tok(name)
    return r.search(text) is not None


_HEAD = re.compile(r"^[A-Z][A-Z ]*[A-Z]$")


def sections(plain):
    """[(heading or '', text)] - headings are the unindented all-capitals lines clikit prints (USAGE, ARGUMENTS, ...)."""
    out = [["", []]]
    for line in plain.split("\n"):
        if _HEAD.match(line):
            out.append([line, []])
        else:
            out[-1][1].append(line)
    return [(h, "\n".join(ls)) for h, ls in out]


def opt_label(long, short, pref_long):
    if short is None:
        return "--" + long
    return "--%s (-%s)" % (long, short) if pref_long else "-%s (--%s)" % (short, long)


def min_width(model, n):
    """'The longest label plus a margin', concretely.

    LabeledParagraph prints `indent + label + padding` and wraps the text into W - 1 - text_offset - indent columns, where the
    aligned text_offset is max(indent_i + len(label_i) + 2) over the whole page (LabelAlignment.align); textwrap needs that
    width to be >= 1.  Labels are: option labels `--long (-s)`, argument labels `<name>`, command names of the application page
    (indent 2, or 4 inside a COMMANDS block) and the unaligned synopsis label `[or: ]tool path [sub]` (indent 2, padding 1).
    So a page can be laid out when W >= longest label + 8; we demand the fit only from longest label + MARGIN (10) on.
    The label set below is a superset of what the page shows (e.g. it counts a hidden child's synopsis), which can only
    raise the minimum and so only weakens the demand."""
    labels = [len(opt_label(l, s, p)) for l, s, p, _ in model.global_options()]
    if n is None:
        labels += [len("<command>"), len(APP)]
        labels += [len(r.name) for r in model.roots] + ([4] if model.cfg == "default" else [])
        return max(labels) + MARGIN
    own = [x for x in n.path()] + [c for c in n.subs]
    for x in own:
        labels += [len(opt_label(o["long"], o["short"], o["pref_long"])) for o in x.opts]
        labels += [len(a["name"]) + 2 for a in x.args]
    labels += [len(a["name"]) + 2 for a in model.gargs]
    base = len(APP) + sum(1 + len(x.name) for x in n.path() if not x.anonymous)
    kids = [c for c in n.subs if c.enabled]
    extra = max([0] + [0 if c.anonymous else 1 + len(c.name) + (2 if c.default else 0) for c in kids])
    labels.append((4 if kids else 0) + base + extra)
    return max(labels) + MARGIN


def V(sig, what, expected=None, observed=None):
    return {"sig": sig, "what": what, "expected": expected, "observed": observed}


def check_fit(text, W, where, ansi):
    plain = strip_sgr(text)
    for head, body in sections(plain):
        for line in ([head] if head else []) + body.split("\n"):
            if len(line) > W:
                return [V("too-wide:%s:%s:%s" % (where, head or "TOP", "ansi" if ansi else "plain"),
                          "a line of %d columns on a terminal %d wide" % (len(line), W), "<= %d" % W, line)]
    return []


def check_forbidden(model, plain, n):
    """Disabled names nowhere; hidden names only on the page of the hidden command and of its descendants."""
    out = []
    on_path = set(x.tag for x in n.path()) if n is not None else set()
    secs = None
    for x in model.nodes:
        names = [x.name] + x.aliases
        if not x.enabled:
            for nm in names:
                if has_token(plain, nm):
                    out.append(V("listed:disabled-command", "the page shows the disabled command %r" % nm, "absent", _ctx(plain, nm)))
        elif x.hidden and x.tag not in on_path:
            if n is not None and x.parent is n and x.default:
                # unasserted corner: a hidden default sub-command in the USAGE synopsis of its parent
                if secs is None:
                    secs = sections(plain)
                if not any(h == "USAGE" for h, _ in secs):
                    continue
                hay = "\n".join(b for h, b in secs if h != "USAGE")
            else:
                hay = plain
            for nm in names:
                if has_token(hay, nm):
                    out.append(V("listed:hidden-command:%s" % ("app-page" if n is None else "command-page"),
                                 "the page shows the hidden command %r" % nm, "absent", _ctx(hay, nm)))
    return out


def _ctx(text, name):
    for line in text.split("\n"):
        if has_token(line, name):
            return line
    return None


def check_app_page(model, text, W, ansi, fit=True):
    plain = strip_sgr(text)
    out = []
    for r in model.roots:
        if r.enabled and not r.hidden and not r.anonymous and not has_token(plain, r.name):
            out.append(V("missing:command", "application page lacks the command %r (mark %s)" % (r.name, r.mark), r.name, None))
    if model.cfg == "default" and not has_token(plain, "help"):
        out.append(V("missing:command", "application page lacks the command 'help'", "help", None))
    out += check_options(plain, [(l, s, p, "global") for l, s, p, _ in model.global_options()])
    out += check_forbidden(model, plain, None)
    if fit and W >= min_width(model, None):
        out += check_fit(text, W, "app", ansi)
    return out


def check_options(plain, opts):
    out = []
    for long, short, pref_long, origin in opts:
        names = [("--" + long, "preferred" if pref_long else "alternative")]
        if short:
            names.append(("-" + short, "alternative" if pref_long else "preferred"))
        for nm, role in names:
            if not has_token(plain, nm):
                out.append(V("missing:option:%s:%s" % (origin, role), "page lacks the %s name %s of the %s option --%s" % (
                    role, nm, origin, long), nm, None))
    return out


def check_cmd_page(model, n, text, W, ansi, fit=True):
    plain = strip_sgr(text)
    out = []
    for c in n.subs:
        if c.enabled and not c.hidden and not c.anonymous and not has_token(plain, c.name):
            out.append(V("missing:sub-command", "page of %r lacks the sub-command %r (mark %s)" % (n.name, c.name, c.mark), c.name, None))
    args = [(a, "global") for a in model.gargs]
    for x in n.path():
        args += [(a, "own" if x is n else "inherited") for a in x.args]
    for a, origin in args:
        if "<%s>" % a["name"] not in plain:
            if a["style"]:
                out.append(V("missing:argument:named-like-style-tag", "page lacks <%s>: the argument name is also a style tag" % a["name"],
                             "<%s>" % a["name"], None))
            else:
                out.append(V("missing:argument:%s" % origin, "page lacks the %s argument <%s>" % (origin, a["name"]), "<%s>" % a["name"], None))
    opts = [(l, s, p, "global") for l, s, p, _ in model.global_options()]
    for x in n.path():
        opts += [(o["long"], o["short"], o["pref_long"], "own" if x is n else "inherited") for o in x.opts]
    out += check_options(plain, opts)
    out += check_forbidden(model, plain, n)
    if fit and W >= min_width(model, n):
        out += check_fit(text, W, "cmd", ansi)
    return out


def _crash(e, what):
    return V("crash:" + report.exc_site(e), "%s raised %s: %s" % (what, type(e).__name__, e), "a page", repr(e))


def check_unit(model, app, tag, W, ansi, mode):
    """One target (tag None = the application page) at one width and format.
    mode 'direct': ApplicationHelp / CommandHelp only; mode 'both': also help / --help / -h through run.
    -> (pages rendered, [violations])"""
    n = model.node(tag) if tag else None
    vs = []
    pages = 1
    direct = None
    try:
        direct = render_direct(app, model, n, W, ansi)
    except Exception as e:
        vs.append(_crash(e, "ApplicationHelp.render" if n is None else "CommandHelp.render"))
    if direct is not None:
        vs += check_app_page(model, direct, W, ansi) if n is None else check_cmd_page(model, n, direct, W, ansi)
    if mode != "both" or model.cfg != "default" or (n is not None and not n.reachable()):
        return pages, vs
    path = [x.name for x in n.path()] if n else []
    spellings = [("help", ["help"] + path), ("--help", path + ["--help"]), ("-h", path + ["-h"])]
    if n is not None and n.aliases:
        ap = path[:-1] + [n.aliases[0]]
        spellings += [("help:alias", ["help"] + ap), ("--help:alias", ap + ["--help"])]
    identity = n is None or (not model.gargs and not any(c.enabled and c.default for c in n.subs))
    if not identity:
        # The page printed is the application's (global argument) or a default sub-command's: nothing is demanded below
        # the minimum width of whichever of them it is.
        mw = max(min_width(model, x) for x in [None] + [n] + n.subs)
        if W < mw:
            return pages, vs
    texts = {}
    for how, tokens in spellings:
        pages += 1
        try:
            rc, out, err = render_run(app, tokens, W, ansi)
        except Exception as e:
            vs.append(_crash(e, "run(%s)" % " ".join(tokens)))
            continue
        if rc != 0 or err:
            vs.append(V("run-status", "run(%s) returned %r and wrote %r to the error stream" % (" ".join(tokens), rc, err[:200]),
                        [0, ""], [rc, err[:300]]))
            continue
        texts[how] = out
        if identity:
            # judged as the page of the command the path names
            vs += check_app_page(model, out, W, ansi) if n is None else check_cmd_page(model, n, out, W, ansi)
            if direct is not None and out != direct:
                vs.append(V("run-page-is-not-the-command's-page", "run(%s) does not print what %s renders" % (
                    " ".join(tokens), "ApplicationHelp" if n is None else "CommandHelp(%s)" % " ".join(path)), direct, out))
        else:
            # which page the resolver picks is not asserted here: status, fit, disabled names, equal spellings only
            vs += check_fit(out, W, "run", ansi)
            pl = strip_sgr(out)
            for x in model.nodes:
                if not x.enabled:
                    for nm in [x.name] + x.aliases:
                        if has_token(pl, nm):
                            vs.append(V("listed:disabled-command", "run(%s) shows the disabled command %r" % (" ".join(tokens), nm), "absent", _ctx(pl, nm)))
    for a, b, sig in (("help", "--help", "help-path!=path--help"), ("--help", "-h", "path--help!=path-h"),
                      ("help:alias", "--help:alias", "help-path!=path--help"), ("help", "help:alias", "alias-page!=name-page")):
        if a in texts and b in texts and texts[a] != texts[b]:
            vs.append(V(sig, "%r and %r print different pages for %s" % (a, b, " ".join(path) or "the application"), texts[a], texts[b]))
    return pages, vs


# ---------------------------------------------------------------------------------------------------
# widths
def quick_widths(mw, extra):
    return sorted(set(w for w in [mw, mw + 1, 40, 41, 50, 60, 79, 80, 81, 100, 120, 200, extra] if w >= mw))


def two_widths(mw):
    return [mw, 80 if mw < 80 else 120 if mw < 120 else 200]


def units_for(wmode, mw, tier, extra):
    """[(width, ansi)] for one target page whose minimum width is mw"""
    if wmode == "two":
        return [(w, a) for w in two_widths(mw) for a in (False, True)]
    if wmode == "diag":  # narrowest plain, comfortable ANSI
        return [(mw, False), (two_widths(mw)[1], True)]
    if tier == "thorough":
        ws = [w for w in range(40, 201) if w >= mw] or [mw]
    else:
        ws = quick_widths(mw, extra)
    return [(w, a) for w in ws for a in (False, True)]


# ---------------------------------------------------------------------------------------------------
# generators (all deterministic, simplest first)
def arg_seqs(ids, k):
    """every valid sequence of 0..k argument kinds (at most one style-named, its name is fixed)"""
    out = []
    for n in range(k + 1):
        for seq in itertools.product(ids, repeat=n):
            if not args_valid([ARGD[a][0] for a in seq]):
                continue
            if sum(1 for a in seq if ARGD[a][3]) > 1:
                continue
            out.append(list(seq))
    return out


def opt_sets(ids, k):
    """every multiset of 0..k option kinds (order of declaration only changes the order of the lines)"""
    out = []
    for n in range(k + 1):
        out += [list(c) for c in itertools.combinations_with_replacement(ids, n)]
    return out


def cmd(a=(), o=(), d="s", m="plain", s=()):
    return {"m": m, "d": d, "a": list(a), "o": list(o), "s": list(s)}


SHAPES3 = [
    [0], [0, 0], [0, 1], [0, 0, 0], [0, 1, 0], [0, 1, 1], [0, 1, 2],
]
SHAPES4 = [
    [0, 0, 0, 0], [0, 1, 0, 0], [0, 1, 1, 0], [0, 1, 2, 0], [0, 1, 0, 1], [0, 1, 1, 1], [0, 1, 2, 1], [0, 1, 2, 2], [0, 1, 2, 3],
]
# a shape is the list of depths in pre-order (0 = top level)

# fixed parameters of tree nodes by pre-order position: a: argument + option + description; b: nothing at all (the
# 'empty sub-command' branch); c: option + long description + manual; d: argument + option, no description
TREE_PROFILE = [
    dict(a=["opt.s"], o=["flag.S.s"], d="s"),
    dict(a=[], o=[], d=""),
    dict(a=[], o=["req.L.s.str"], d="l"),
    dict(a=["opt.s.int"], o=["mul.-.l.list"], d=""),
]


def tree_from(shape, marks):
    roots = []
    stack = []
    for i, (depth, m) in enumerate(zip(shape, marks)):
        node = cmd(m=m, **TREE_PROFILE[i])
        node["s"] = []
        del stack[depth:]
        (stack[-1]["s"] if stack else roots).append(node)
        stack.append(node)
    return roots


def by_size(c):
    return (sum(len(x) for x in c), len(c[0]))


def jobs_for(tier):
    """[(part, appspec, wmode, mode)] simplest first within each part"""
    T = tier == "thorough"
    jobs = []

    def one(part, combos, wmode, d="s"):
        for a, o in sorted(combos, key=by_size):
            jobs.append((part, {"cfg": "default", "tree": [cmd(a, o, d=d)]}, wmode, "direct"))

    A0, A1, A2 = arg_seqs(ARG_IDS, 0), arg_seqs(ARG_IDS, 1), arg_seqs(ARG_IDS, 2)
    O0, O1, O2 = opt_sets(OPT_IDS, 0), opt_sets(OPT_IDS, 1), opt_sets(OPT_IDS, 2)
    # params: the full product 0..2 x 0..2 over the full catalogues at two widths x two formats
    one("params", [(a, o) for a in A2 for o in O2], "two")
    if T:
        # 0..3: full catalogues for (0..3 args x 0..2 opts) u (0..2 args x 0..3 opts); the 3 x 3 corner over the reduced ones
        A3, O3 = arg_seqs(ARG_IDS, 3), opt_sets(OPT_IDS, 3)
        one("params3", [(a, o) for a in A3 if len(a) == 3 for o in O2] + [(a, o) for a in A2 for o in O3 if len(o) == 3], "diag")
        one("params3x3", [(a, o) for a in arg_seqs(ARG_SMALL, 3) if len(a) == 3 for o in opt_sets(OPT_SMALL, 3) if len(o) == 3], "diag")
    # widths: every width of the tier
    if T:
        cross = [(a, o) for a in A2 for o in O1] + [(a, o) for a in A1 for o in O2 if len(o) == 2]
    else:
        cross = [(a, o) for a in A2 for o in O0] + [(a, o) for a in A1 for o in O1 if o] + [(a, o) for a in A0 for o in O2 if len(o) == 2]
    one("widths", cross, "all", d="l")  # with a manual: DESCRIPTION paragraphs are wrapped at every width too
    # globals: application kind x extra global options (x a global argument) x small command parameters
    if T:
        small = [(a, o) for a in arg_seqs(ARG_SMALL, 1) for o in opt_sets(OPT_SMALL, 1)]
    else:
        small = [(a, o) for a in arg_seqs(ARG_SMALL[:3], 1) for o in opt_sets(OPT_SMALL[:3], 1)]
    for cfg, gk in (("bare", 2), ("default", 2 if T else 1)):
        for g in opt_sets(OPT_IDS, gk):
            # a *required* global argument makes a bare `help` unparsable by definition: direct rendering only (bare)
            for ga in (([], ["opt.s"], ["req.s"]) if cfg == "bare" else ([], ["opt.s"])) if len(g) <= 1 else ([],):
                for a, o in small:
                    spec = {"cfg": cfg, "gopts": g, "gargs": ga, "help": bool(len(g) % 2), "tree": [cmd(a, o)]}
                    jobs.append(("globals", spec, "two", "both"))
    # nest: parent x child, 0..1 argument and 0..1 option each
    if T:
        pa_, po_, ka_, ko_ = A1, O1, A1, O1
    else:
        pa_, po_ = arg_seqs(ARG_SMALL, 1), opt_sets(OPT_SMALL, 1)
        ka_, ko_ = pa_, po_
    nest = [(pa, po, ca, co) for pa in pa_ for po in po_ for ca in ka_ for co in ko_]
    nest.sort(key=by_size)
    for pa, po, ca, co in nest:
        jobs.append(("nest", {"cfg": "default", "tree": [cmd(pa, po, s=[cmd(ca, co, d="")])]}, "two", "direct"))
    # defaults: a command with two sub-commands of which one or both are defaults, each with every argument profile
    # {nothing, one optional, multi-valued}: which default a help request resolves to depends on what the defaults can
    # parse, and `help <path>` must still print what `<path> --help` and `<path> -h` print
    prof = ([], ["opt.s"], ["mul.s"])
    for pa in ([], ["opt.s"]):
        for a1 in prof:
            for a2 in prof:
                if pa and (a1 or a2) and pa[0].startswith("opt") and False:
                    continue
                for m1, m2 in (("default", "default"), ("default", "plain"), ("plain", "default"), ("hiddendefault", "default"),
                               ("default", "aliased")):
                    tree = [cmd(pa, [], s=[cmd(a1, [], d="s", m=m1), cmd(a2, ["flag.S.s"], d="s", m=m2)])]
                    jobs.append(("defaults", {"cfg": "default", "tree": tree}, "two", "both"))
    # trees: every shape x every marking
    for shape in SHAPES3:
        for marks in itertools.product(MARKS, repeat=len(shape)):
            jobs.append(("trees", {"cfg": "default", "tree": tree_from(shape, marks)}, "two", "both"))
    if T:
        for shape in SHAPES4:
            for marks in itertools.product(MARKS, repeat=len(shape)):
                jobs.append(("trees4", {"cfg": "default", "tree": tree_from(shape, marks)}, "diag", "both"))
    return jobs


# ---------------------------------------------------------------------------------------------------
def run_job(job, tier, extra_w):
    """-> dict(pages, units, nontrivial, rejected, invalid, viols=[(unit index, violation)])"""
    part, spec, wmode, mode = job
    res = dict(pages=0, units=0, nontrivial=0, rejected=0, invalid=0, viols=[])
    model = Model(spec)
    if not model.valid():
        res["invalid"] = 1
        return res
    try:
        app = build_app(model)
    except Exception as e:
        res["rejected"] = 1
        res["reject_reason"] = "%s: %s" % (type(e).__name__, e)
        return res
    targets = [None] if mode == "both" else []
    targets += [n.tag for n in model.nodes if n.enabled]
    ui = 0
    for tag in targets:
        n = model.node(tag) if tag else None
        mw = min_width(model, n)
        nontrivial = bool(model.gopts or model.roots) if n is None else bool(
            model.gopts or model.gargs or n.subs or any(x.args or x.opts for x in n.path()))
        for W, ansi in units_for(wmode, mw, tier, extra_w):
            pages, vs = check_unit(model, app, tag, W, ansi, mode)
            res["pages"] += pages
            res["units"] += 1
            res["nontrivial"] += 1 if nontrivial else 0
            for v in vs:
                case = {"part": part, "app": spec, "target": tag, "w": W, "ansi": ansi, "mode": mode}
                res["viols"].append((ui, report.viol(v["sig"], v["what"], case, v["expected"], v["observed"])))
            ui += 1
    return res


# ---------------------------------------------------------------------------------------------------
# late registration: commands added to a live application after a help page has already been rendered
def late_cases():
    out = []
    for level in ("top", "sub"):
        for alias in (False, True):
            for how in ("direct", "help", "--help"):
                for first in (True, False):  # was a page rendered before the registration?
                    out.append({"late": True, "level": level, "alias": alias, "how": how, "rendered_before": first})
    return out


def run_late(case):
    """-> violation or None.  Application with `kalfa` (sub-command `kbravo`); render the listing (or not), register
    `klate` (with / without alias) on the application or under kalfa, render again: the page must list klate."""
    from clikit.api.config.command_config import CommandConfig
    from clikit.config import DefaultApplicationConfig
    from clikit import ConsoleApplication
    cfg = DefaultApplicationConfig("tool", "1.0")
    cfg.set_catch_exceptions(False)
    cfg.set_terminate_after_run(False)
    with cfg.command("kalfa") as c:
        c.set_description("first")
        with c.sub_command("kbravo") as sc:
            sc.set_description("second")
    app = ConsoleApplication(cfg)
    parent = None if case["level"] == "top" else app.get_command("kalfa")

    def page():
        if case["how"] == "direct":
            from clikit.io import BufferedIO
            from clikit.ui.help import ApplicationHelp, CommandHelp
            from clikit.ui.rectangle import Rectangle
            io = BufferedIO()
            io.set_terminal_dimensions(Rectangle(80, 50))
            (ApplicationHelp(app) if parent is None else CommandHelp(parent)).render(io)
            return io.fetch_output()
        path = [] if parent is None else ["kalfa"]
        tokens = (["help"] + path) if case["how"] == "help" else (path + ["--help"])
        rc, out, err = render_run(app, tokens, 80, False)
        return out

    try:
        if case["rendered_before"]:
            page()
        late = CommandConfig("klate")
        late.set_description("registered late")
        if case["alias"]:
            late.add_alias("klt")
        if parent is None:
            app.add_command(late)
        else:
            parent.add_sub_command(late)
        text = strip_sgr(page())
    except Exception as e:
        return report.viol("late:crash:" + report.exc_site(e), "late registration scenario raised %r" % (e,), case)
    if not has_token(text, "klate"):
        return report.viol("late:missing:%s-command" % case["level"],
                           "a %s registered on the live application%s is missing from the help listing" % (
                               "command" if parent is None else "sub-command", " after a page had been rendered" if case["rendered_before"] else ""),
                           case, "klate listed", text[:600])
    return None


def _failing_app():
    from clikit.config import DefaultApplicationConfig
    from clikit import ConsoleApplication
    cfg = DefaultApplicationConfig("tool", "1.0")
    cfg.set_catch_exceptions(False)
    cfg.set_terminate_after_run(False)
    with cfg.command("kalfa") as c:
        c.set_description("first")
        c.add_argument("target", 0, "a target")
        with c.sub_command("kbravo") as sc:
            sc.set_description("second")
    with cfg.command("kcharl") as c:
        c.set_description("third")
        c.add_option("deep", "d", 0, "an option")
    return ConsoleApplication(cfg)


def _page(app, which, W=80, stream=None):
    from clikit.api.io import IO, Input, Output
    from clikit.formatter import PlainFormatter
    from clikit.io.input_stream import StringInputStream
    from clikit.io.output_stream import BufferedOutputStream
    from clikit.ui.help import ApplicationHelp, CommandHelp
    from clikit.ui.rectangle import Rectangle
    out = stream or BufferedOutputStream()
    io = IO(Input(StringInputStream("")), Output(out, PlainFormatter()), Output(BufferedOutputStream(), PlainFormatter()))
    io.set_terminal_dimensions(Rectangle(W, 50))
    (ApplicationHelp(app) if which is None else CommandHelp(app.get_command(which))).render(io)
    return out.fetch()


def failure_cases():
    """a help rendering that FAILS at its k-th write to the output (closed pipe), for every k, then another page"""
    out = []
    for first in (None, "kalfa"):
        for then in ("kcharl", None):
            for k in range(1, 40):
                out.append({"after_failure": True, "first": first, "then": then, "k": k})
    return out


def run_after_failure(case):
    """-> ("done", violation or None) or ("beyond", None) when the first page has fewer than k writes"""
    from clikit.io.output_stream import BufferedOutputStream

    class Failing(BufferedOutputStream):
        left = 0

        def write(self, string):
            Failing.left -= 1
            if Failing.left < 0:
                raise IOError("Broken pipe")
            return BufferedOutputStream.write(self, string)

    try:
        want = _page(_failing_app(), case["then"])
        app = _failing_app()
        Failing.left = case["k"] - 1
        try:
            _page(app, case["first"], stream=Failing())
            return "beyond", None
        except IOError:
            pass
        got = _page(app, case["then"])
        again = _page(app, case["then"])
    except Exception as e:
        return "done", report.viol("after-failure:crash:" + report.exc_site(e), "a help page rendered after a rendering that failed raised %r" % (e,), case)
    if got != want or again != want:
        return "done", report.viol("after-failure:page-differs", "the help page of %s rendered after a rendering of %s that failed at its write #%d "
                                   "differs from that page on a fresh application" % (case["then"] or "the application", case["first"] or "the application", case["k"]),
                                   case, want[:600], (got if got != want else again)[:600])
    return "done", None


def replay(case):
    if isinstance(case, dict) and case.get("after_failure"):
        return run_after_failure(case)[1]
    if isinstance(case, dict) and case.get("late"):
        return run_late(case)
    model = Model(case["app"])
    app = build_app(model)
    _, vs = check_unit(model, app, case["target"], case["w"], case["ansi"], case["mode"])
    for v in vs:
        return report.viol(v["sig"], v["what"], case, v["expected"], v["observed"])
    return None


JOBS = []


def main():
    global JOBS
    rep = report.Report(PID, "exploration")
    tier = rep.tier
    extra_w = [57, 64, 73, 96, 132, 160, 43][rep.seed % 7]  # VERIF_SEED rotates one extra width into the quick list
    JOBS = jobs_for(tier)
    nshares = common.ncpu() * 8

    def work(k):
        tot = {}
        first = {}  # sig -> (job index, unit index, violation)
        for ji in range(k, len(JOBS), nshares):
            job = JOBS[ji]
            r = run_job(job, tier, extra_w)
            t = tot.setdefault(job[0], dict(configs=0, pages=0, units=0, nontrivial=0, rejected=0, invalid=0))
            t["configs"] += 1
            for key in ("pages", "units", "nontrivial", "rejected", "invalid"):
                t[key] += r[key]
            if r.get("reject_reason") and "reject_reason" not in t:
                t["reject_reason"] = r["reject_reason"]
            for ui, v in r["viols"]:
                if v["sig"] not in first and len(first) < 40:
                    first[v["sig"]] = (ji, ui, v)
        return tot, list(first.values())

    allv = []
    parts = {}
    for tot, vs in par.pmap(work, list(range(nshares))):
        for p, t in tot.items():
            d = parts.setdefault(p, {})
            for key, val in t.items():
                if isinstance(val, int):
                    d[key] = d.get(key, 0) + val
                else:
                    d.setdefault(key, val)
        allv += vs
    allv.sort(key=lambda x: (x[0], x[1]))
    rep.merge([v for _, _, v in allv])
    lc = late_cases()
    for c in lc:
        v = run_late(c)
        if v:
            rep.violation(v)
    rep.part("late", cases=len(lc), what="command / sub-command (with, without alias) registered on a live application before or after a "
             "help page was rendered; the next listing (direct, help, --help) must contain it")
    nfail = beyond = 0
    for c in failure_cases():
        st, v = run_after_failure(c)
        if st == "beyond":
            beyond += 1
            continue
        nfail += 1
        if v:
            rep.violation(v)
    rep.part("after-failure", crash_points=nfail, beyond_last_write=beyond,
             what="a help rendering (application page / command page) fails with IOError at its k-th write, for EVERY k; the next page "
                  "(twice) must equal that page on a fresh application")
    for p, d in sorted(parts.items()):
        rep.part(p, **d)
    rep.set("evaluations", sum(d["pages"] for d in parts.values()) + nfail)
    rep.set("configurations", sum(d["configs"] - d["invalid"] - d["rejected"] for d in parts.values()))
    rep.set("units", sum(d["units"] for d in parts.values()))
    rep.set("distinct_nontrivial", sum(d["nontrivial"] for d in parts.values()))
    rep.set("rejected_by_clikit", sum(d["rejected"] for d in parts.values()))
    rep.set("skipped_invalid_argument_order", sum(d["invalid"] for d in parts.values()))
    rep.set("exhaustive", True)
    rep.set("rotated_width", extra_w)
    rep.set("widths", "every width 40..200 (from the page's minimum on)" if tier == "thorough" else
            "minimum, minimum+1, 40, 41, 50, 60, 79, 80, 81, 100, 120, 200, %d (from the page's minimum on)" % extra_w)
    rep.set("rule", "evaluations = pages rendered (ApplicationHelp / CommandHelp / one run of help, --help, -h each count one); a unit = "
                    "(configuration, target page, width, format); distinct_nontrivial = units whose target carries at least one generated "
                    "argument, option, global option or sub-command (all units are distinct by construction); parts: see module docstring")
    for ji in (0, len(JOBS) // 5, 2 * len(JOBS) // 5, 3 * len(JOBS) // 5, 4 * len(JOBS) // 5, len(JOBS) - 1):
        rep.sample({"part": JOBS[ji][0], "app": JOBS[ji][1], "widths": JOBS[ji][2], "mode": JOBS[ji][3]})
    rep.assume("fit is demanded only for W >= longest label + 10 (labels: option labels, <argument>, command names, synopsis prefix; see min_width)")
    rep.assume("names are whole tokens chosen so that no description, default or other name contains them")
    rep.assume("the application object is built once per configuration and reused for its widths/formats; replay builds it afresh")
    rep.assume("run: catch_exceptions off so that the original exception is seen; width through COLUMNS, ANSI through --ansi")
    return rep.finish()
