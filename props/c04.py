"""C04 - a run always ends in a valid exit status and never leaks a handler failure.

E1, fault enumeration through ConsoleApplication.run (DefaultApplicationConfig, catching enabled,
terminate_after_run disabled, string input stream, buffered output/error streams).  Verbosity and
ANSI/plain are chosen the way a user does: -v/-vv/-vvv and --ansi/--no-ansi on the command line.

Enumerated (completely, simplest first; K = 2 quick / 3 thorough, see blocks()):
  ret   return values x source {handler, pre-handle listener that handles with that status}
        x point {none, after stdout write, after stderr write} x listener {none, passes}
        x command line (3) x verbosity (4) x ANSI/plain
  full  ALL messages of <= K-1 fragments x exception kinds x raise point (3) x listener {none, passes,
        raises (the listener raises instead of the handler)} x verbosity x ANSI/plain  (complete product)
  msg   ALL messages of exactly K fragments x kinds x verbosity x ANSI/plain (point none, no listener:
        the dimensions the rendering of the report can depend on)
  lines message "x": the full product again on the two other command lines
  cli   ALL messages of 1..K fragments as unknown command name / unknown option x verbosity x ANSI/plain
KeyboardInterrupt is never rendered: it is enumerated with the messages of <= 1 fragment only.
Not demanded (the statement is silent): which stream the report goes to, its wording (C20), the exact non-zero status of
an exception, anything about BaseExceptions other than KeyboardInterrupt (SystemExit ...), output of successful runs.
"""
import itertools

from mc import common, par, report
from props import _trace

PID = "C04"

VERBOSITY = ["", "-v", "-vv", "-vvv"]
POINTS = ["none", "out", "err"]
LISTENERS = ["none", "pass"]

# generated into the scratch directory: every frame of a raised exception that is not clikit's own
# lies in this small file (no markup-like text, ASCII only), so the trace renderer meets the message
# alphabet only through the exception message.
SITE_SRC = '''\
def fire(es, explicit):
    if len(es) == 1:
        raise es[0]
    try:
        fire(es[:-1], explicit)
    except BaseException as c:
        if explicit:
            raise es[-1] from c
        raise es[-1]


def fire_exec(e):
    code = compile("def g(e):\\n    raise e\\n\\ng(e)\\n", "<string>", "exec")
    exec(code, {"e": e})


def act_scoped(io, point, outcome):
    # the outcome happens inside an indentation scope of the I/O (a context manager the library provides); this function
    # ends with the scope: whatever leaves the scope leaves the handler
    with (io.indent(2) if point == "indent" else io.increment_indent(2)):
        io.write_line("handler-out")
        return act(io, "none", outcome)


def act(io, point, outcome):
    if point in ("indent", "incr"):
        return act_scoped(io, point, outcome)
    if point == "out":
        io.write_line("handler-out")
    elif point == "err":
        io.error_line("handler-err")
    if outcome[0] == "ret":
        return outcome[1]
    via = outcome[1]
    if via == "exec":
        fire_exec(outcome[2][0])
    elif via == "gone":
        outcome[3].fire(outcome[2][0])
    else:
        fire(outcome[2], via == "from")


def make_handler(name, log, snap, plan):
    def handle(args, io):
        log.append((name, snap(args)))
        if plan.get("who") == "handler":
            return act(io, plan["point"], plan["outcome"])
        return None
    return handle


def make_listener(log, plan):
    def listener(event, event_name, dispatcher):
        log.append(("listener", plan["listener"]))
        if plan["listener"] == "handle":
            event.handled(True)
            event.set_status_code(plan["outcome"][1])
        elif plan["listener"] == "raise":
            act(event.io, plan["point"], plan["outcome"])
        elif plan["listener"] == "stop":
            # lets the command pass but keeps later (lower-priority) listeners out: the command is NOT handled by this
            event.stop_propagation()
    return listener
'''

GONE_SRC = '''\
def fire(e):
    raise e
'''


class Unconvertible(object):
    """truthy, int() undefined"""

    def __repr__(self):
        return "Unconvertible()"


def returns():
    return [
        ("None", None), ("False", False), ("0", 0), ("1", 1), ("7", 7), ("255", 255), ("256", 256), ("-1", -1),
        ("True", True), ("'0'", "0"), ("'5'", "5"), ("'abc'", "abc"), ("0.5", 0.5), ("3.7", 3.7),
        ("nan", float("nan")), ("inf", float("inf")), ("10**30", 10 ** 30),
        ("''", ""), ("0.0", 0.0), ("[]", []), ("[0]", [0]), ("'-3'", "-3"), ("-10**30", -10 ** 30), ("obj", Unconvertible()),
    ]


def expected_status(value):
    """-> ("eq", n) or ("range", 1, 255)"""
    if not value:
        return ("eq", 0)
    try:
        n = int(value)
    except Exception:
        return ("range", 1, 255)
    return ("eq", min(max(n, 1), 255))


_CLASSES = {}


def classes():
    if _CLASSES:
        return _CLASSES
    from clikit.api.args.exceptions import CannotParseArgsException, NoSuchOptionException
    from clikit.api.command.exceptions import NoSuchCommandException
    from clikit.api.exceptions import CliKitException
    from clikit.api.resolver.exceptions import CannotResolveCommandException

    class AppError(CliKitException):
        pass

    class CodeInt(Exception):
        code = 3

    class CodeStr(Exception):
        code = "3"

    class CodeZero(Exception):
        code = 0

    class CodeBig(Exception):
        code = 300

    class LibCodeBig(CliKitException):
        code = 300

    class LibCodeZero(CliKitException):
        code = 0

    for c in (Exception, ValueError, KeyError, OSError, RuntimeError, NoSuchCommandException, NoSuchOptionException,
              CannotParseArgsException, CannotResolveCommandException, AppError, CodeInt, CodeStr, CodeZero, CodeBig,
              LibCodeBig, LibCodeZero, KeyboardInterrupt):
        _CLASSES[c.__name__] = c
    return _CLASSES


# kind -> (via, [class names innermost..outermost])
KINDS = [
    ("Exception", "plain", ["Exception"]),
    ("ValueError", "plain", ["ValueError"]),
    ("KeyError", "plain", ["KeyError"]),
    ("OSError", "plain", ["OSError"]),
    ("AppError", "plain", ["AppError"]),
    ("NoSuchCommandException", "plain", ["NoSuchCommandException"]),
    ("CannotParseArgsException", "plain", ["CannotParseArgsException"]),
    ("CannotResolveCommandException", "plain", ["CannotResolveCommandException"]),
    ("NoSuchOptionException", "plain", ["NoSuchOptionException"]),
    ("CodeInt", "plain", ["CodeInt"]),
    ("CodeStr", "plain", ["CodeStr"]),
    ("CodeZero", "plain", ["CodeZero"]),
    ("CodeBig", "plain", ["CodeBig"]),
    ("LibCodeBig", "plain", ["LibCodeBig"]),
    ("LibCodeZero", "plain", ["LibCodeZero"]),
    ("from2", "from", ["KeyError", "ValueError"]),
    ("from3", "from", ["OSError", "KeyError", "RuntimeError"]),
    ("ctx2", "ctx", ["KeyError", "ValueError"]),
    ("ctx3", "ctx", ["OSError", "AppError", "RuntimeError"]),
    ("from3lib", "from", ["ValueError", "KeyError", "AppError"]),
    ("exec", "exec", ["ValueError"]),
    ("gone", "gone", ["ValueError"]),
    ("KeyboardInterrupt", "plain", ["KeyboardInterrupt"]),
]
KIND = {k[0]: k for k in KINDS}

# command lines: (tokens, path of the selected command)
LINES = [
    (["alpha", "beta", "val", "--opt", "3"], ("alpha", "beta")),
    (["alpha"], ("alpha",)),
    (["gamma", "-o"], ("gamma",)),
]


# ------------------------------------------------------------------------------------------------
class Env(object):
    """Scratch directory + generated modules of one process tree (created before forking)."""

    def __init__(self):
        self.scratch = _trace.Scratch("c04")
        self.site = self.scratch.load("c04_site", SITE_SRC)
        self.gone = self.scratch.load("c04_gone", GONE_SRC, delete=True)

    def close(self):
        self.scratch.close()


def snapshot(args):
    return {"arguments": dict(args.arguments()), "options": dict(args.options())}


def build_app(env, log, plan):
    from clikit import ConsoleApplication
    from clikit.api.args.format.argument import Argument
    from clikit.api.args.format.option import Option
    from clikit.api.event import PRE_HANDLE
    from clikit.config.default_application_config import DefaultApplicationConfig
    from clikit.handler.callback_handler import CallbackHandler

    config = DefaultApplicationConfig("app", "1.0")
    config.set_catch_exceptions(True)
    config.set_terminate_after_run(False)
    mk = env.site.make_handler

    def plan_for(name):
        return plan if name == plan["selected"] else {}

    with config.command("alpha") as c:
        c.add_argument("word", Argument.OPTIONAL, "a word")
        c.set_handler(CallbackHandler(mk("alpha", log, snapshot, plan_for("alpha"))))
        with c.sub_command("beta") as s:
            s.add_argument("item", Argument.OPTIONAL, "an item")
            s.add_option("opt", None, Option.REQUIRED_VALUE, "an option")
            s.set_handler(CallbackHandler(mk("alpha beta", log, snapshot, plan_for("alpha beta"))))
    with config.command("gamma") as c:
        c.add_option("on", "o", Option.NO_VALUE, "a flag")
        c.set_handler(CallbackHandler(mk("gamma", log, snapshot, plan_for("gamma"))))
    with config.command("delta") as c:
        c.set_handler(CallbackHandler(mk("delta", log, snapshot, {})))
    if plan["listener"] != "none":
        config.add_event_listener(PRE_HANDLE, env.site.make_listener(log, plan))
    return ConsoleApplication(config)


def selected_command(app, path):
    cmd = app.get_command(path[0])
    for p in path[1:]:
        cmd = cmd.get_sub_command(p)
    return cmd


_FRESH = {}


def fresh_parse(env, path, argv):
    """What a fresh application parses for the selected command (a function of argv alone, so memoised)."""
    key = (path, tuple(argv))
    if key not in _FRESH:
        fresh = build_app(env, [], {"selected": None, "listener": "none"})
        from clikit.args.argv_args import ArgvArgs
        _FRESH[key] = snapshot(selected_command(fresh, path).parse(ArgvArgs(list(argv))))
    return _FRESH[key]


def make_outcome(env, case):
    """-> (who, listener, point, outcome, expectation)"""
    part = case[0]
    if part == "ret":
        _, vname, src, point, listener, line, verb, ansi = case
        value = dict(returns())[vname]
        if src == "listener":
            return "listener", "handle", point, ("ret", value), ("status", expected_status(value), 0)
        return "handler", listener, point, ("ret", value), ("status", expected_status(value), 1)
    _, kind, point, msg, listener, line, verb, ansi = case[:8]
    _, via, names = KIND[kind]
    cl = classes()
    es = [cl[n](msg) for n in names]
    who = "listener" if listener == "raise" else "handler"
    calls = 0 if listener == "raise" else 1
    return who, listener, point, ("exc", via, es, env.gone), ("error", es[-1], calls)


def run_case(env, case):
    """Executes one case on the real code; returns a violation or None."""
    from clikit.args.argv_args import ArgvArgs
    from clikit.io.input_stream import StringInputStream
    from clikit.io.output_stream import BufferedOutputStream

    part = case[0]
    log = []
    if part == "cli":
        _, shape, msg, verb, ansi = case
        tokens = {"command": [msg], "option": ["alpha", "--" + msg]}[shape]
        plan = {"selected": None, "listener": "none"}
        expect = ("cli",)
        path = None
    else:
        line = case[5]
        tokens, path = LINES[line]
        who, listener, point, outcome, expect = make_outcome(env, case)
        plan = {"selected": " ".join(path), "who": who, "listener": listener, "point": point, "outcome": outcome}
        verb, ansi = case[6], case[7]
    argv = ["app"] + list(tokens) + ([verb] if verb else []) + ["--ansi" if ansi else "--no-ansi"]
    app = build_app(env, log, plan)
    stream_kind = case[8] if len(case) > 8 else "buffered"
    if stream_kind == "buffered":
        out, err = BufferedOutputStream(), BufferedOutputStream()
    else:
        # real StreamOutputStreams over text streams as an embedding application may hand them in: one whose
        # `encoding` names no codec Python knows (vendor terminal wrappers), one without an encoding at all
        import io as _io
        from clikit.io.output_stream.stream_output_stream import StreamOutputStream

        class Text(_io.StringIO):
            encoding = {"stream-unknown-encoding": "x-vendor-terminal", "stream-no-encoding": None, "stream-ascii": "ascii"}[stream_kind]

        class S(StreamOutputStream):
            def fetch(self):
                return self._raw.getvalue()

        def mk():
            raw = Text()
            st_ = S(raw)
            st_._raw = raw
            return st_
        out, err = mk(), mk()
    try:
        status = app.run(ArgvArgs(list(argv)), StringInputStream(""), out, err)
    except BaseException as e:  # noqa - nothing at all may escape run() here
        return report.viol("crash:" + _trace.crash_site(e), "%s escaped ConsoleApplication.run: %s" % (type(e).__name__, e), case,
                           "run returns an int status", {"exception": repr(e), "stdout": out.fetch()[-300:], "stderr": err.fetch()[-300:]})
    o, e_ = out.fetch(), err.fetch()
    handler_calls = [c for c in log if c[0] != "listener"]

    def bad(sig, what, expected, observed):
        return report.viol(sig, what, case, expected, observed)

    if not isinstance(status, int) or not (0 <= status <= 255):
        return bad("status:not-in-0..255", "run returned %r" % (status,), "int in 0..255", repr(status))
    if part == "cli":
        # what the command line means is C01/C03's business; here: whatever happened, it ended in a valid
        # status, and if a handler of ours was not reached a non-zero status comes with a report
        if status != 0 and not (o or e_):
            return bad("report:empty:cli", "status %d without any report" % status, "non-empty stdout or stderr", {"stdout": o, "stderr": e_})
        if len(handler_calls) > 1:
            return bad("handler:ran-twice:cli", "handlers ran: %r" % ([c[0] for c in handler_calls],), "<= 1 call", [c[0] for c in handler_calls])
        return None
    kind = expect[0]
    if kind == "status":
        rule = expect[1]
        ok = status == rule[1] if rule[0] == "eq" else rule[1] <= status <= rule[2]
        if not ok:
            falsy = not outcome[1]
            return bad("status:%s" % ("falsy-nonzero" if falsy else ("truthy-zero" if status == 0 else "not-clamped")),
                       "%s returned %r, run gave %r" % (who, outcome[1], status), list(rule), status)
    else:
        exc = expect[1]
        if status == 0:
            return bad("status:zero-on-exception", "%s raised %s, run returned 0" % (who, type(exc).__name__), "1..255", status)
        if not isinstance(exc, KeyboardInterrupt):
            own = {"none": 0, "out": len("handler-out\n"), "err": len("handler-err\n"),
                   "indent": len("  handler-out\n"), "incr": len("  handler-out\n")}[point]
            if len(o) + len(e_) <= own:
                return bad("report:empty", "%s raised %s(%r): nothing was reported" % (who, type(exc).__name__, str(exc)),
                           "non-empty report on stdout or stderr", {"stdout": o, "stderr": e_})
    want_calls = expect[2]
    names = [c[0] for c in handler_calls]
    if want_calls == 0:
        if names:
            return bad("handler:ran-although-listener-%s" % ("handled" if plan["listener"] == "handle" else "raised"),
                       "handlers ran: %r" % names, [], names)
    else:
        sel = " ".join(path)
        if names != [sel]:
            sig = "handler:other-ran" if any(n != sel for n in names) else ("handler:not-run" if not names else "handler:ran-%d-times" % len(names))
            return bad(sig, "selected %r, handlers that ran: %r" % (sel, names), [sel], names)
        want = fresh_parse(env, path, argv)
        if handler_calls[0][1] != want:
            return bad("handler:args-differ", "handler of %r got other args than a fresh parse" % sel, want, handler_calls[0][1])
    return None


# ------------------------------------------------------------------------------------------------
def bound(tier):
    return 3 if tier == "thorough" else 2


def by_fragments(k):
    """[(number of fragments, message)] simplest first, every distinct string once"""
    out, seen = [], set()
    for n in range(0, k + 1):
        for combo in itertools.product(_trace.FRAGMENTS, repeat=n):
            m = "".join(combo)
            if m not in seen:
                seen.add(m)
                out.append((n, m))
    return out


ALL_LISTENERS = LISTENERS + ["raise"]


def blocks(tier):
    """Units of work in simplest-first order.  K = bound(tier):
    ret   : the complete return-value table
    full  : messages of <= K-1 fragments: kinds x points x listeners x verbosity x ANSI (complete product)
    lines : the same product for the message "x" on the two other command lines
    msg   : messages of exactly K fragments: kinds x verbosity x ANSI at point 'none', no listener
            (the dimensions the report rendering can depend on)
    cli   : messages of 1..K fragments placed on the command line (unknown command / unknown option)
    streams: real StreamOutputStreams (unknown / missing / ASCII encoding name) x 4 kinds x verbosity x ANSI
    scoped : every kind of exception (and three return values) leaving an indentation scope of the I/O (`with io.indent(2)` /
             `with io.increment_indent(2)`) in the handler or in a raising listener x verbosity x ANSI"""
    k = bound(tier)
    for vname, _ in returns():
        yield ("ret", vname)
    for n, msg in by_fragments(k):
        if n <= k - 1:
            for kind in KINDS:
                if kind[0] != "KeyboardInterrupt" or n <= 1:  # never rendered: messages of <= 1 fragment only
                    yield ("full", msg, kind[0])
        else:
            yield ("msg", msg)
        if n == 1 and msg == "x":
            for kind in KINDS:
                yield ("lines", msg, kind[0])
        if n >= 1:
            yield ("cli", msg)
    for sk in ("stream-unknown-encoding", "stream-no-encoding", "stream-ascii"):
        yield ("streams", sk)
    yield ("scoped", "x")


def block_cases(block):
    part, x = block[0], block[1]
    if part == "ret":
        for point, listener, line, verb, ansi in itertools.product(POINTS, LISTENERS, range(len(LINES)), VERBOSITY, (False, True)):
            yield ["ret", x, "handler", point, listener, line, verb, ansi]
        for line, verb, ansi in itertools.product(range(len(LINES)), VERBOSITY, (False, True)):
            yield ["ret", x, "listener", "none", "handle", line, verb, ansi]
    elif part in ("full", "lines"):
        lines = [0] if part == "full" else [1, 2]
        kind = block[2]
        for point, listener, line, verb, ansi in itertools.product(POINTS, ALL_LISTENERS, lines, VERBOSITY, (False, True)):
            yield ["exc", kind, point, x, listener, line, verb, ansi]
    elif part == "msg":
        for (kind, _, _), verb, ansi in itertools.product(KINDS, VERBOSITY, (False, True)):
            if kind != "KeyboardInterrupt":
                yield ["exc", kind, "none", x, "none", 0, verb, ansi]
    elif part == "cli":
        for shape, verb, ansi in itertools.product(["command", "option"], VERBOSITY, (False, True)):
            yield ["cli", shape, x, verb, ansi]
    elif part == "scoped":
        # the handler (or the raising listener) returns / raises from inside `with io.indent(n)` / `with io.increment_indent(n)`
        for point in ("indent", "incr"):
            for vname in ("0", "7", "256"):
                for verb, ansi in itertools.product(VERBOSITY, (False, True)):
                    yield ["ret", vname, "handler", point, "none", 0, verb, ansi]
            for (kind, _, _), listener, verb, ansi in itertools.product(KINDS, ("none", "raise"), VERBOSITY, (False, True)):
                yield ["exc", kind, point, x, listener, 0, verb, ansi]
        # a pre-handle listener that passes AND stops the propagation of the event: the handler still runs, once
        for vname in ("0", "7", "256"):
            for line, verb in itertools.product(range(len(LINES)), VERBOSITY):
                yield ["ret", vname, "handler", "none", "stop", line, verb, False]
        for (kind, _, _), verb in itertools.product(KINDS, VERBOSITY):
            yield ["exc", kind, "none", x, "stop", 0, verb, False]
    elif part == "streams":
        # output streams other than buffers
        for kind in ("Exception", "AppError", "from2", "exec"):
            for verb in VERBOSITY:
                for ansi in (False, True):
                    yield ["exc", kind, "none", "x", "none", 0, verb, ansi, x]


def nontrivial(case):
    """exercises the mechanism: a status other than plain 0 has to be produced (truthy result or an exception)"""
    if case[0] == "ret":
        return bool(dict(returns())[case[1]])
    return True


def replay(case):
    env = Env()
    try:
        return run_case(env, case)
    finally:
        env.close()


def main():
    rep = report.Report(PID, "fault_enumeration")
    env = Env()
    tier = rep.tier
    bl = list(blocks(tier))

    def work(ib):
        i, block = ib
        found = {}
        count = nontriv = 0
        for j, case in enumerate(block_cases(block)):
            count += 1
            if nontrivial(case):
                nontriv += 1
            v = run_case(env, case)
            if v and v["sig"] not in found and len(found) < 20:
                found[v["sig"]] = ((i, j), v)
        return block[0], count, nontriv, list(found.values())

    try:
        res = par.pmap(work, list(enumerate(bl)))
    finally:
        env.close()
    allv = sorted((iv for r in res for iv in r[3]), key=lambda iv: iv[0])
    rep.merge([v for _, v in allv])
    parts = {}
    for r in res:
        parts[r[0]] = parts.get(r[0], 0) + r[1]
    k = bound(tier)
    rep.set("evaluations", sum(r[1] for r in res))
    rep.set("distinct_nontrivial", sum(r[2] for r in res))
    rep.set("by_part", parts)
    rep.set("messages", len(by_fragments(k)))
    rep.set("max_fragments", k)
    rep.set("kinds", [x[0] for x in KINDS])
    rep.set("return_values", [r[0] for r in returns()])
    rep.set("exhaustive", True)
    rep.set("rule", "every case is a distinct tuple of the products described in blocks() (generated, never sampled): the complete "
                    "product of all dimensions for messages of <= K-1 fragments, and for messages of exactly K fragments the product of the "
                    "dimensions the report depends on (kind x verbosity x ANSI); non-trivial = the run has to produce something "
                    "other than a plain 0: a truthy result or a raised exception (counted while executing)")
    allc = [c for b in bl[:: max(1, len(bl) // 8)] for c in itertools.islice(block_cases(b), 5, 6)]
    for c in allc:
        rep.sample(c)
    rep.assume("frames of raised exceptions outside clikit lie in a generated 50-line ASCII module under /tmp (deleted at the end), "
               "so the renderer meets the message alphabet only through the exception message (sources are C20's subject)")
    rep.assume("'report' = bytes on stdout+stderr beyond what the handler itself wrote before raising")
    rep.assume("the selected command is known by construction of the command line (resolution itself is C03)")
    return rep.finish()
