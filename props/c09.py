"""C09 - global switches act the same wherever they appear and whatever command runs.

E1, bounded-exhaustive: applications on DefaultApplicationConfig with three command trees
(`solo`; `pkg` with sub-command `add`; `tail` with a multi-valued argument), a handler that makes
every switch observable, and every line obtained from a base line by inserting an ordered
selection of <= K distinct switch spellings (13 spellings of the seven global switches) at every
combination of token boundaries, including the boundaries behind '--'.  Every line is executed on
the real ConsoleApplication.run with buffered streams handed to run() (pipe-like: supports_ansi()
False; for lines carrying an ANSI switch also terminal-like: supports_ansi() True) and judged by a
reference computed from the SET of switches standing before '--'.

What is demanded / deliberately not demanded (statement in properties.jsonl is authoritative):
  * quiet (anywhere before '--', whatever gets resolved)  => both streams stay empty, also when the
    handler raises (full trace and one-line report), also together with help/version ("all output").
  * -v/-vv/-vvv => io.verbosity seen by the handler and the marker lines on BOTH streams correspond to
    the highest level given.  Together with quiet the level seen by the handler is NOT asserted
    (statement silent on whether quiet resets verbosity); the streams are empty anyway.
  * --no-ansi without --ansi => no ESC byte on either stream (also inside the error report); this is only
    a real demand on the terminal-like streams, which decorate by default (measured on the switch-free line).
    --ansi without --no-ansi => every marker (and the question prompt) is wrapped in SGR sequences on both
    streams, pipe-like ones included.
    --ansi together with --no-ansi: contradictory demands, which one wins is NOT asserted (the text with
    SGR stripped still is).  Neither: the output must look like the switch-free baseline of that kind of
    stream (plain on pipe-like streams) - this is what the '--' clause refers to.
  * -n/--no-interaction => handler sees is_interactive() False, Question.ask returned its default, the
    input stream position did not move.  Without it (and without quiet) the typed answer is returned.
    With quiet but without -n nothing about the dialogue is asserted (silent).
  * help switch behind the command path => status 0, handler not invoked, both streams == the help page of
    that command: `help <path>` run on pipe-like streams when the output has to be plain, the help command run
    on a hand-built forced-ANSI IO when it has to be decorated (compared like with like: whether decoration
    alters the text of a page is C11's question).  version switch behind the path => status 0, handler not
    invoked, display name and version on stdout (decorated / plain as demanded).  Both: either page.  (Version *before* the path also
    works in the implementation; not asserted, see next point.)
  * a switch inserted before or inside the command path changes what the resolver sees (documented in
    DefaultResolver: command names must come before any option), so only the stream-level effects
    (quiet, --no-ansi) are asserted there.
  * '-v' directly followed by a token not starting with '-' is skipped: '--verbose' takes an optional
    value and swallows the token (stated limitation, DESIGN.md section 4).
  * tokens behind '--' have no effect: the same reference with those tokens left out of the set, and
    they must arrive as values of the multi-valued argument in order.
  * status of a raising handler and the wording / stream of its error report are not asserted (C04/C20).
  * '--verbose' (long form) is not one of the statement's switches ('-v', '-vv', '-vvv' are) and is not used.
Every run uses a freshly built application: state carried from run to run belongs to C05/C17.
"""
import io
import itertools
import os
import re

from mc import common, par, report

PID = "C09"

QUIET = ("--quiet", "-q")
VERB = {"-v": 1, "-vv": 2, "-vvv": 4}
ANSI = ("--ansi",)
NOANSI = ("--no-ansi",)
NOINT = ("-n", "--no-interaction")
HELP = ("-h", "--help")
VERSION = ("-V", "--version")
# simplest first: the order fixes which violation of a signature is reported
SWITCHES = ["-q", "--quiet", "-v", "-vv", "-vvv", "--ansi", "--no-ansi", "-n", "--no-interaction",
            "-h", "--help", "-V", "--version"]
assert len(SWITCHES) == 13 and len(set(SWITCHES)) == 13

NAME, DISPLAY, VER = "app", "The App", "1.2.3"
TYPED, DEFAULT = "typed", "dflt"
LEVELS = [("N", 0), ("V", 1), ("VV", 2), ("D", 4)]  # marker suffix, lowest verbosity that shows it

# base lines: (tokens, length of the command path).  '--' only on the tree with the multi-valued argument.
LINES = [
    (["solo"], 1),
    (["pkg"], 1),
    (["tail"], 1),
    (["pkg", "add"], 2),
    (["tail", "a"], 1),
    (["tail", "--", "a"], 1),
    (["tail", "a", "--", "b"], 1),
    # a command whose sub-commands are named like the switches without their dashes: a switch must never
    # be taken for (or lead into) one of them, before or behind '--'
    (["sw"], 1),
    (["sw", "--", "a"], 1),
]
# VERIF_SEED rotates exactly one of these in, on top of the fixed core above (only `tail` lines may carry a
# '--': tokens behind it need the multi-valued argument to land in)
EXTRA_LINES = [
    (["tail", "a", "b"], 1),
    (["tail", "a", "--"], 1),
    (["tail", "--", "a", "b"], 1),
    (["tail", "a", "b", "--"], 1),
]
VARIANTS = ["ok", "raise", "raise-cli"]
# one spelling per switch and per verbosity level
SHORT = ["-q", "-v", "-vv", "-vvv", "--ansi", "--no-ansi", "-n", "-h", "-V"]

SGR = re.compile(r"\x1b\[[0-9;]*m")
S1 = r"\x1b\[[0-9;]*m"
RECORDS = []


def strip_sgr(s):
    return SGR.sub("", s)


class Handler(object):
    """Makes every switch observable: one tagged marker per verbosity level on both streams, the IO flags,
    a question with a default, the parsed arguments, optionally an exception at the end."""

    def __init__(self, raises):
        self.raises = raises

    def handle(self, args, io, command):
        from clikit.api.io import flags as F
        from clikit.ui.components.question import Question

        rec = {"cmd": command.full_name, "quiet": io.is_quiet(), "verbosity": io.verbosity,
               "inter": io.is_interactive()}
        RECORDS.append(rec)
        fl = {0: None, 1: F.VERBOSE, 2: F.VERY_VERBOSE, 4: F.DEBUG}
        for name, lvl in LEVELS:
            io.write_line("<info>o%s</info>" % name, flags=fl[lvl])
            io.error_line("<info>e%s</info>" % name, flags=fl[lvl])
        rec["answer"] = Question("Q?", DEFAULT).ask(io)
        # a question with a validator that changes its input: under no-interaction the DEFAULT itself must come back
        q2 = Question("P?", "8080")
        q2.set_validator(int)
        rec["answer2"] = q2.ask(io)
        rec["args"] = args.arguments(False)
        if self.raises:
            from props._c09_boom import boom
            boom(self.raises)
        return 0


class RedrawHandler(object):
    """A handler that redraws: a section of each output is written and overwritten (what progress displays do).  Whether the
    overwrite moves the cursor is decided by what the outputs say about ANSI support - under the no-ANSI switch nothing may."""

    def handle(self, args, io, command):
        RECORDS.append({"cmd": command.full_name, "args": args.arguments(False)})
        sec = io.section()
        sec.write_line("s1")
        sec.output.overwrite("s2")
        sec.error_line("t1")
        sec.error_output.overwrite("t2")
        return 0


def _no_handler():
    raise RuntimeError("the handler of this command cannot be created")


def factory_cases():
    """command `facboom`: its handler is configured as a factory, and the factory fails - the command cannot run, but the
    version and help switches never need its handler"""
    for sw in (["-V"], ["--version"], ["-h"], ["--help"], ["-V", "--no-ansi"], ["-q", "-V"]):
        for sa in (False, True):
            yield {"factory": True, "tokens": ["facboom"] + sw, "string_args": sa}


def judge_factory(case):
    toks = case["tokens"]
    obs = execute(toks, "ok", case["string_args"], False)
    twin = execute(["solo"] + toks[1:], "ok", case["string_args"], False)  # the same switches behind a command that has a handler
    what = "version" if ("-V" in toks or "--version" in toks) else "help"
    if obs["status"] != 0:
        return [("%s:status:handler-factory" % what, "%s switch behind a command whose handler factory fails: status is not 0" % what, 0,
                 [obs["status"], (obs["out"] + obs["err"])[:300]])]
    if what == "version" and (obs["out"], obs["err"]) != (twin["out"], twin["err"]):
        return [("version:text:handler-factory", "version switch behind a command whose handler factory fails prints something else than behind "
                 "another command", [twin["out"], twin["err"]], [obs["out"][:300], obs["err"][:300]])]
    if what == "help" and not ("-q" in toks) and "facboom" not in strip_sgr(obs["out"]):
        return [("help:page:handler-factory", "help switch behind a command whose handler factory fails does not print that command's page",
                 "a page naming facboom", obs["out"][:300])]
    return []


def order_cases():
    """two runs in ONE process, the first decorated, the second under the no-ANSI switch (and the reverse): whatever the first
    run left behind in the process, the second obeys its own switches"""
    for variant in VARIANTS[1:]:
        for verb in ("-v", "-vvv"):
            for first, second in (("--ansi", "--no-ansi"), ("--no-ansi", "--ansi")):
                for tty in (False, True):
                    yield {"order": True, "variant": variant, "verb": verb, "first": first, "second": second, "tty": tty}


def judge_order(case):
    execute(["solo", case["verb"], case["first"]], case["variant"], False, case["tty"])
    obs = execute(["solo", case["verb"], case["second"]], case["variant"], False, case["tty"])
    text = obs["out"] + obs["err"]
    if case["second"] == "--no-ansi" and "\x1b" in text:
        return [("noansi:escape:after-decorated-run", "no-ANSI switch: the report of a raising handler contains escape sequences when a decorated "
                 "run of the same command came before it in the process", "no ESC", text[:400])]
    if case["second"] == "--ansi" and "\x1b[" not in text:
        return [("ansi:plain:after-undecorated-run", "ANSI switch: nothing is decorated when an undecorated run of the same command came before it "
                 "in the process", "SGR sequences", text[:400])]
    return []


def redraw_cases():
    """command `redraw [items...]` x ANSI switches (alone, with another switch on either side, behind '--') x pipe-like / terminal-like streams"""
    sets = [[], ["--no-ansi"], ["--ansi"], ["-v", "--no-ansi"], ["--no-ansi", "-n"], ["x", "--no-ansi"], ["--no-ansi", "x"],
            ["--", "--no-ansi"], ["--ansi", "--", "--no-ansi"], ["--no-ansi", "--", "--ansi"]]
    for sw in sets:
        for tty in (False, True):
            for sa in (False, True):
                yield {"redraw": True, "tokens": ["redraw"] + sw, "tty": tty, "string_args": sa}


def judge_redraw(case):
    from mc.term import Term
    toks = case["tokens"]
    obs = execute(toks, "ok", case["string_args"], case["tty"])
    head = toks[:toks.index("--")] if "--" in toks else toks
    noansi, ansi = "--no-ansi" in head, "--ansi" in head
    bad = []
    if obs["status"] != 0 or len(obs["recs"]) != 1:
        return [("redraw:run", "the redrawing handler did not run exactly once with status 0", [0, 1], [obs["status"], len(obs["recs"])])]
    for name, text, first, second in (("stdout", obs["out"], "s1", "s2"), ("stderr", obs["err"], "t1", "t2")):
        if noansi and not ansi:
            if "\x1b" in text:
                bad.append(("noansi:escape:redraw:" + name, "no-ANSI switch before '--': a handler that redraws a section emitted an "
                            "escape sequence on %s" % name, "%s\n%s\n" % (first, second), text))
            elif text != "%s\n%s\n" % (first, second):
                bad.append(("noansi:text:redraw:" + name, "no-ANSI switch: redrawn section text on %s" % name, "%s\n%s\n" % (first, second), text))
        else:
            t = Term(80)
            try:
                t.feed(text)
                rows = t.screen()
            except Exception as e:  # noqa
                rows = ["<unsupported: %s>" % e]
            if not rows or rows[-1] != second:
                bad.append(("redraw:screen:" + name, "the last row %s shows after the redraw is not the overwriting text" % name, second, rows[-3:]))
    return bad


def build_app(raises):
    from clikit.api.args.format import Argument
    from clikit.config.default_application_config import DefaultApplicationConfig
    from clikit.console_application import ConsoleApplication

    config = DefaultApplicationConfig()
    config.set_catch_exceptions(True)
    config.set_terminate_after_run(False)
    config.set_name(NAME)
    config.set_display_name(DISPLAY)
    config.set_version(VER)
    with config.command("solo") as c:
        c.set_description("one command")
        c.set_handler(Handler(raises))
    with config.command("pkg") as c:
        c.set_description("command with a sub-command")
        c.set_handler(Handler(raises))
        with c.sub_command("add") as sc:
            sc.set_description("the sub-command")
            sc.set_handler(Handler(raises))
    with config.command("tail") as c:
        c.set_description("command with a multi-valued argument")
        c.add_argument("items", Argument.MULTI_VALUED, "values")
        c.set_handler(Handler(raises))
    with config.command("facboom") as c:
        c.set_description("command whose handler factory fails")
        c.set_handler(_no_handler)
    with config.command("redraw") as c:
        c.set_description("command whose handler overwrites a section")
        c.add_argument("items", Argument.MULTI_VALUED, "values")
        c.set_handler(RedrawHandler())
    with config.command("sw") as c:
        c.set_description("command with sub-commands named like the switches")
        c.add_argument("items", Argument.MULTI_VALUED, "values")
        c.set_handler(Handler(raises))
        for name, alias in (("help", "h"), ("version", None), ("quiet", "q"), ("verify", "v"), ("vv", None), ("vvv", None),
                            ("ansi", None), ("no-ansi", None), ("no-interaction", "n")):
            with c.sub_command(name) as sc:
                sc.set_description("sub-command " + name)
                if alias:
                    sc.add_alias(alias)
                sc.set_handler(Handler(raises))
    return ConsoleApplication(config)


_TTY = []


def tty_like_stream():
    """A buffer that claims ANSI support, as a terminal would (no real tty is ever touched)."""
    if not _TTY:
        from clikit.io.output_stream import BufferedOutputStream

        class TtyLikeStream(BufferedOutputStream):
            def supports_ansi(self):
                return True

        _TTY.append(TtyLikeStream)
    return _TTY[0]()


def execute(tokens, variant, string_args=False, tty=False):
    """One run of a fresh application -> observation dict.  Streams are buffers: plain ones (supports_ansi()
    False, like a pipe) or, with tty=True, buffers that claim ANSI support like a terminal."""
    from clikit.args.argv_args import ArgvArgs
    from clikit.args.string_args import StringArgs
    from clikit.io.input_stream.stream_input_stream import StreamInputStream
    from clikit.io.output_stream import BufferedOutputStream

    del RECORDS[:]
    app = build_app(variant if variant in VARIANTS[1:] else None)
    raw = io.BytesIO((TYPED + "\n42\n").encode())
    i = StreamInputStream(raw)
    o, e = (tty_like_stream(), tty_like_stream()) if tty else (BufferedOutputStream(), BufferedOutputStream())
    args = StringArgs(" ".join(tokens)) if string_args else ArgvArgs([NAME] + list(tokens))
    status = app.run(args, i, o, e)
    return {"status": status, "out": o.fetch(), "err": e.fetch(), "recs": [dict(r) for r in RECORDS],
            "read": raw.tell()}


_REF = {}


def tty_default():
    """What the baseline does on terminal-like streams when no ANSI switch is given (measured, not assumed):
    True when markers come out SGR-wrapped on both streams."""
    if "tty" not in _REF:
        o = execute(["solo"], "ok", tty=True)
        _REF["tty"] = bool(re.fullmatch(S1 + "oN" + S1 + "\n", o["out"])) and o["err"].startswith("\x1b")
    return _REF["tty"]


def ref_pages(path):
    """Reference pages for a command path, obtained WITHOUT any switch: `help <path>` through run()
    (plain, non-tty) and the same help command run on an IO built by hand with forced ANSI formatters;
    the version component rendered on such IOs."""
    key = tuple(path)
    if key in _REF:
        return _REF[key]
    from clikit.api.io import Input, Output
    from clikit.args.argv_args import ArgvArgs
    from clikit.formatter import AnsiFormatter
    from clikit.io import ConsoleIO
    from clikit.io.input_stream import StringInputStream
    from clikit.io.output_stream import BufferedOutputStream

    plain = execute(["help"] + list(path), "ok")
    if plain["status"] != 0 or plain["recs"] or ("%s %s" % (NAME, " ".join(path))) not in plain["out"]:
        raise RuntimeError("engine error: reference `help %s` is not a help page: %r" % (" ".join(path), plain))
    app = build_app(None)
    so, se = BufferedOutputStream(), BufferedOutputStream()
    cio = ConsoleIO(Input(StringInputStream("")), Output(so, AnsiFormatter(app.config.style_set, True)),
                   Output(se, AnsiFormatter(app.config.style_set, True)))
    app.get_command("help").run(ArgvArgs([NAME, "help"] + list(path)), cio)
    ref = {"help_out": plain["out"], "help_err": plain["err"], "help_ansi_out": so.fetch(), "help_ansi_err": se.fetch()}
    if "\x1b" in ref["help_out"] + ref["help_err"] or "\x1b" not in ref["help_ansi_out"]:
        raise RuntimeError("engine error: reference help pages: plain one decorated or forced-ANSI one not decorated")
    _REF[key] = ref
    return ref


# ---------------------------------------------------------------------------------------------
# case construction


def compose(base, switches, positions):
    """Insert switches[i] at boundary positions[i] of base (positions non-decreasing: the relative order
    of the switches is kept, so every interleaving is produced exactly once over all permutations)."""
    out = []
    k = 0
    for b in range(len(base) + 1):
        while k < len(switches) and positions[k] == b:
            out.append(switches[k])
            k += 1
        if b < len(base):
            out.append(base[b])
    return out


def classify(base, pathlen, switches, positions):
    """-> dict(tokens, S=set before '--', T=list behind '--', prepath, skip)"""
    tokens = compose(base, switches, positions)
    dd = base.index("--") if "--" in base else len(base)
    S = [s for s, p in zip(switches, positions) if p <= dd]
    T = [s for s, p in zip(switches, positions) if p > dd]
    prepath = any(p < pathlen for p in positions)
    cut = tokens.index("--") if "--" in tokens else len(tokens)
    skip = any(t == "-v" and i + 1 < len(tokens) and not tokens[i + 1].startswith("-")
               for i, t in enumerate(tokens[:cut]))
    items = [t for t in tokens[pathlen:cut] if t not in SWITCHES] + tokens[cut + 1:]
    return {"tokens": tokens, "S": S, "T": T, "prepath": prepath, "skip": skip, "items": items,
            "path": base[:pathlen]}


def level_of(S):
    return max([VERB[s] for s in S if s in VERB] or [0])


def judge(info, variant, obs, count, tty=False):
    """Reference model.  -> list of (sig, what, expected, observed).  `count(effect)` tallies the
    effects whose assertion was actually evaluated on this run."""
    S = set(info["S"])
    quiet = bool(S & set(QUIET))
    noansi = bool(S & set(NOANSI))
    ansi = bool(S & set(ANSI))
    noint = bool(S & set(NOINT))
    wants_help = bool(S & set(HELP))
    wants_version = bool(S & set(VERSION))
    lvl = level_of(S)
    # decoration demanded: True / False / None = not asserted (both ANSI switches given)
    if ansi and noansi:
        decor = None
    elif ansi or noansi:
        decor = ansi
    else:
        decor = tty and tty_default()  # no switch: the baseline of that kind of stream
    sfx = "_tty" if tty else ""
    # signature suffix: the switch-free baseline and "a token behind '--' had an effect" are failures of their own
    ctx = ":baseline" if not S and not info["T"] else (":behind--" if not S else "")
    out, err, recs = obs["out"], obs["err"], obs["recs"]
    bad = []

    def v(pred, what, expected=None, observed=None):
        bad.append((pred + ctx, what, expected, observed))

    if info["T"]:
        count("switch_behind_dashdash")

    # ---- stream-level effects: hold wherever the switch stands before '--' ----------------
    cls = "prepath" if info["prepath"] else ("help" if wants_help else ("version" if wants_version else variant.split("-")[0]))
    if quiet:
        count("quiet_" + (cls if cls != "raise" else variant))
        if out != "":
            v("quiet:stdout:%s" % cls, "quiet switch given but standard output is not empty", "", out[:200])
        if err != "":
            v("quiet:stderr:%s" % cls, "quiet switch given but error output is not empty", "", err[:200])
    if noansi and not ansi:
        count("noansi_" + (cls if cls != "raise" else variant) + sfx)
        if "\x1b" in out:
            v("noansi:stdout:%s" % cls, "--no-ansi given but an escape sequence reached standard output", "no ESC", out[:200])
        if "\x1b" in err:
            v("noansi:stderr:%s" % cls, "--no-ansi given but an escape sequence reached error output", "no ESC", err[:200])
    if info["prepath"]:
        count("prepath_stream_level_only")
        return bad

    # ---- help / version ------------------------------------------------------------------
    if wants_help or wants_version:
        which = "help+version" if wants_help and wants_version else ("help" if wants_help else "version")
        count("page_" + which)
        if recs:
            v("%s:handler-invoked" % which, "%s switch behind the command path but the command's handler ran" % which, [], recs)
        if obs["status"] != 0:
            v("%s:status" % which, "%s switch: status is not 0" % which, 0, obs["status"])
        if quiet:
            return bad
        ref = ref_pages(info["path"])
        # the page is compared like with like: decorated output with the reference rendered on a hand-built
        # forced-ANSI IO, plain output with `help <path>` on pipe-like streams.  (Whether decoration changes the
        # text of a page is C11's question, not this one's.)
        help_plain = (out, err) == (ref["help_out"], ref["help_err"])
        help_ansi = (out, err) == (ref["help_ansi_out"], ref["help_ansi_err"])
        is_help = help_ansi if decor else (help_plain if decor is False else (help_plain or help_ansi))
        sout = strip_sgr(out)
        is_version = DISPLAY in sout and VER in sout
        if decor:
            count(("ansi_" if ansi else "ttydefault_") + which + sfx)
            if "\x1b" not in out:
                is_version = False  # the version is styled: forced / default decoration must show
        elif decor is False and "\x1b" in out + err:
            is_version = False
        if wants_help and not wants_version and not is_help:
            v("help:page", "help switch behind the path: output differs from the %s help page of `%s`" % (
                "decorated" if decor else "plain" if decor is False else "plain or decorated", " ".join(info["path"])),
              [(ref["help_ansi_out"] if decor else ref["help_out"])[:300], ref["help_err"]], [out[:300], err[:200]])
        if wants_version and not wants_help and not is_version:
            v("version:page", "version switch: display name and version (%s) not on standard output" % (
                "decorated" if decor else "plain" if decor is False else "plain or decorated"), [DISPLAY, VER], out[:200])
        if wants_help and wants_version and not (is_help or is_version):
            v("help+version:page", "help and version switches: neither the help page nor name and version were printed",
              None, [out[:300], err[:200]])
        return bad

    # ---- the handler runs ------------------------------------------------------------------
    if len(recs) != 1:
        v("handler:invocations", "handler must run exactly once (no help/version switch before '--')", 1,
          {"n": len(recs), "status": obs["status"], "out": out[:200], "err": err[:200]})
        return bad
    rec = recs[0]
    want_cmd = " ".join(info["path"])
    if rec["cmd"] != want_cmd:
        v("handler:command", "another command's handler ran", want_cmd, rec["cmd"])
    want_args = {"items": info["items"]} if info["items"] else {}
    if rec.get("args") != want_args:
        v("args:values", "positional values (incl. tokens behind '--') did not arrive as given", want_args, rec.get("args"))
    if variant == "ok" and obs["status"] != 0:
        v("handler:status", "handler returned 0 but the status is not 0", 0, obs["status"])
    if rec["quiet"] != quiet:
        v("quiet:flag", "io.is_quiet() seen by the handler", quiet, rec["quiet"])
    if not quiet:
        if lvl:
            count("verbosity_%d" % lvl)
        if rec["verbosity"] != lvl:
            v("verbosity:seen:%d" % lvl, "io.verbosity seen by the handler is not the highest level given", lvl, rec["verbosity"])
    if rec["inter"] != (not noint) and (noint or not quiet):
        v("interaction:flag", "io.is_interactive() seen by the handler", not noint, rec["inter"])
    if noint:
        count("nointeraction")
        if rec.get("answer") != DEFAULT:
            v("nointeraction:answer", "no-interaction switch: the question did not return its default", DEFAULT, rec.get("answer"))
        if rec.get("answer2") != "8080":
            v("nointeraction:answer:validated-question", "no-interaction switch: the question with a validator did not return its default itself",
              "8080", repr(rec.get("answer2")))
        if obs["read"] != 0:
            v("nointeraction:read", "no-interaction switch: something was read from the input", 0, obs["read"])
    elif not quiet:
        if rec.get("answer") != TYPED or rec.get("answer2") != 42:
            v("interaction:answer", "no no-interaction switch before '--': the typed answers must be returned", [TYPED, 42],
              [rec.get("answer"), rec.get("answer2")])
    if quiet or bad:
        # what the streams show follows from the flags the handler saw: when those are already wrong the stream
        # comparisons below would only repeat the same failure under other names
        return bad

    shown = [n for n, l in LEVELS if l <= lvl]
    prompt = not noint
    want_out = "".join("o%s\n" % n for n in shown)
    want_err = "".join("e%s\n" % n for n in shown) + ("Q? P? " if prompt else "")
    sout, serr = strip_sgr(out), strip_sgr(err)
    # the raising handler's error report follows the markers (on whichever stream): prefix comparison there
    if (sout != want_out) if variant == "ok" else (not sout.startswith(want_out)):
        v("verbosity:markers:stdout:%d" % lvl, "marker lines on standard output do not match level %d" % lvl, want_out, out[:200])
    if (serr != want_err) if variant == "ok" else (not serr.startswith(want_err)):
        v("verbosity:markers:stderr:%d" % lvl, "marker lines / prompt on error output do not match level %d, interactive=%s" % (lvl, prompt),
          want_err, err[:200])
    if variant != "ok":
        # nothing of a higher level may hide behind the prefix: no further marker line in the remainder
        rest = sout[len(want_out):] + "\n" + serr[len(want_err):]
        extra = re.findall(r"(?m)^\s*[oe](?:N|V|VV|D)\s*$", rest)
        if sout.startswith(want_out) and serr.startswith(want_err) and extra:
            v("verbosity:markers:extra:%d" % lvl, "marker lines beyond level %d were printed" % lvl, [], extra)
    if bad:
        return bad  # decoration is judged on streams whose text is right
    if decor:
        pred = "ansi" if ansi else "ttydefault"
        why = "--ansi" if ansi else "terminal-like streams and no ANSI switch before '--'"
        count(("ansi_wrapped" if ansi else "ttydefault_wrapped") + sfx)
        rx_out = "".join(S1 + "o%s" % n + S1 + "\n" for n in shown)
        rx_err = "".join(S1 + "e%s" % n + S1 + "\n" for n in shown) + ((S1 + r"Q\?" + S1 + " " + S1 + r"P\?" + S1 + " ") if prompt else "")
        if not re.match(rx_out, out) or (variant == "ok" and not re.fullmatch(rx_out, out)):
            v("%s:stdout" % pred, "%s: markers on standard output are not SGR-wrapped" % why, "ESC[..m<marker>ESC[..m", out[:200])
        if not re.match(rx_err, err) or (variant == "ok" and not re.fullmatch(rx_err, err)):
            v("%s:stderr" % pred, "%s: markers on error output are not SGR-wrapped" % why, "ESC[..m<marker>ESC[..m", err[:200])
    elif decor is False and not noansi:
        if "\x1b" in out or "\x1b" in err:
            v("ansi:unrequested", "no ANSI switch before '--' and non-tty streams, but the output is decorated", "no ESC",
              [out[:200], err[:200]])
    return bad


def run_case(case, count=None):
    """case = {line, pathlen, variant, switches, positions, string_args} -> list of violations"""
    count = count or (lambda e: None)
    info = classify(case["line"], case["pathlen"], case["switches"], case["positions"])
    if info["skip"]:
        count("skipped_v_before_positional")
        return None, info
    case = dict(case, tokens=info["tokens"])
    try:
        obs = execute(info["tokens"], case["variant"], case.get("string_args", False), case.get("tty", False))
    except Exception as e:
        return [report.viol("crash:" + report.exc_site(e), "run() let %r escape although exceptions are caught" % e, case)], info
    return [report.viol(sig, what, case, exp, got) for sig, what, exp, got in judge(info, case["variant"], obs, count, case.get("tty", False))], info


def raw_args_agree(tokens):
    """ArgvArgs and StringArgs must present the same tokens / option tokens (both are anchors; the runs use
    ArgvArgs, plus StringArgs for all lines with <= 2 switches)."""
    from clikit.args.argv_args import ArgvArgs
    from clikit.args.string_args import StringArgs
    a, s = ArgvArgs([NAME] + list(tokens)), StringArgs(" ".join(tokens))
    if a.tokens != s.tokens or a.option_tokens != s.option_tokens:
        return False
    return all(a.has_option_token(t) == s.has_option_token(t) and a.has_token(t) == s.has_token(t) for t in SWITCHES)


def positions_for(n_bounds, k):
    return list(itertools.combinations_with_replacement(range(n_bounds), k))


def unit_cases(unit):
    """unit = (line, pathlen, variant, combo) -> all orders x all placements of that combo"""
    line, pathlen, variant, combo = unit
    for perm in itertools.permutations(combo):
        for pos in positions_for(len(line) + 1, len(perm)):
            yield {"line": line, "pathlen": pathlen, "variant": variant, "switches": list(perm), "positions": list(pos)}


def lines_for(seed):
    return LINES + [EXTRA_LINES[seed % len(EXTRA_LINES)]]


def units(lines, alphabet, ks, variants):
    out = []
    # handler outermost within a size: round-robin dealing then gives every share the same mix of cheap and costly runs
    for k in ks:
        for variant in variants:
            for line, pathlen in lines:
                for combo in itertools.combinations(alphabet, k):
                    out.append((line, pathlen, variant, combo))
    return out


def plan(tier, seed):
    """Part A: all 13 spellings, <= 2 (quick) / <= 3 (thorough) switches, three handlers.
    Part B: one more switch on the line, over the 9 short spellings (one per switch and verbosity level)."""
    lines = lines_for(seed)
    ka = 3 if tier == "thorough" else 2
    a = units(lines, SWITCHES, range(ka + 1), VARIANTS)
    b = units(lines, SHORT, [ka + 1], VARIANTS[:2])
    return lines, ka, a, b


def work(share):
    """share = [(unit index, unit, string_args_too)] -> small picklable summary"""
    counters = {}
    viols = {}  # sig -> (rank, violation): the simplest one this worker saw
    keys = []
    evals = 0
    for ui, unit, with_string in share:
        for ci, case in enumerate(unit_cases(unit)):
            # (StringArgs?, terminal-like streams?): the terminal-like run only where an ANSI switch is on the line (or none at all)
            modes = [(False, False)] + ([(True, False)] if with_string else [])
            if not case["switches"] or set(case["switches"]) & set(ANSI + NOANSI):
                modes.append((False, True))
            for sa, tty in modes:
                c = dict(case, string_args=sa, tty=tty)
                local = {}
                vs, info = run_case(c, lambda e: local.__setitem__(e, local.get(e, 0) + 1))
                for e, n in local.items():
                    counters[e] = counters.get(e, 0) + n
                if vs is None:
                    continue
                evals += 1
                if not sa and not raw_args_agree(info["tokens"]):
                    vs = vs + [report.viol("rawargs:argv-vs-string", "ArgvArgs and StringArgs disagree on tokens/option tokens", c)]
                # non-trivial: at least one switch on the line and at least one switch-dependent assertion evaluated
                if (info["S"] or info["T"]) and any(k != "prepath_stream_level_only" for k in local):
                    keys.append(hash((" ".join(info["tokens"]), unit[2], sa, tty)))
                for vi in vs:
                    rank = (len(unit[3]), len(unit[0]), ui, ci, sa, tty)
                    if vi["sig"] in viols:
                        if rank < viols[vi["sig"]][0]:
                            viols[vi["sig"]] = (rank, vi)
                    elif len(viols) < 60:
                        viols[vi["sig"]] = (rank, vi)
    return {"evals": evals, "counters": counters, "viols": list(viols.values()), "keys": keys}


def replay(case):
    os.environ["COLUMNS"] = "80"
    os.environ["LINES"] = "25"
    if case.get("baseline"):
        try:
            ref_pages(["solo"])
        except RuntimeError as e:
            return report.viol("baseline:reference-run-broken", str(e), case)
        return None
    if case.get("order"):
        r = judge_order(case)
        return report.viol(r[0][0], r[0][1], case, r[0][2], r[0][3]) if r else None
    if case.get("factory"):
        r = judge_factory(case)
        return report.viol(r[0][0], r[0][1], case, r[0][2], r[0][3]) if r else None
    if case.get("redraw"):
        r = judge_redraw(case)
        return report.viol(r[0][0], r[0][1], case, r[0][2], r[0][3]) if r else None
    vs, info = run_case(case)
    if info["tokens"] != case.get("tokens", info["tokens"]):
        raise RuntimeError("engine error: replay rebuilt a different line")
    return vs[0] if vs else None


def main():
    os.environ["COLUMNS"] = "80"
    os.environ["LINES"] = "25"
    rep = report.Report(PID, "exploration")
    lines, ka, ua, ub = plan(rep.tier, rep.seed)

    # the references every later comparison rests on, built on the tree under test WITHOUT any switch: `help <path>` must
    # print a help page of that command (different per command), a raising handler must produce a report.  When the tree
    # under test fails here that is itself a violation (reported under its own signature), and nothing else can be judged.
    try:
        pages = {tuple(l[:p]): ref_pages(l[:p])["help_out"] for l, p in lines}
        broken = None if len(set(pages.values())) == len(pages) else "the pages `help <path>` prints for different commands coincide"
    except RuntimeError as e:
        broken = str(e).replace("engine error: ", "")
    if broken is None:
        for variant in VARIANTS[1:]:
            base = execute(["solo"], variant)
            if "boom" not in base["out"] + base["err"] or len(base["recs"]) != 1:
                broken = "the switch-free run of a raising handler (%s) prints no error report: %r" % (variant, base)
    if broken:
        rep.violation(report.viol("baseline:reference-run-broken", broken, {"tokens": ["help", "solo"], "baseline": True}, "a help page per command / an error report", broken[:400]))
        rep.set("evaluations", 1)
        rep.set("distinct_nontrivial", 0)
        rep.set("exhaustive", False)
        rep.set("rule", "aborted: the switch-free reference runs are already wrong")
        return rep.finish()

    us = ua + ub
    shares = par.chunks([(i, u, i < len(ua) and len(u[3]) <= 2) for i, u in enumerate(us)], common.ncpu() * 4)
    results = par.pmap(work, shares)

    counters, keys, allv = {}, set(), []
    evals = 0
    for r in results:
        evals += r["evals"]
        for k, n in r["counters"].items():
            counters[k] = counters.get(k, 0) + n
        keys.update(r["keys"])
        allv.extend(r["viols"])
    for rank, vi in sorted(allv, key=lambda rv: rv[0]):
        rep.violation(vi)

    nred = 0
    for c in redraw_cases():
        nred += 1
        for sig, what, exp, got in judge_redraw(c):
            rep.violation(report.viol(sig, what + " | line %r, %s streams" % (" ".join(c["tokens"]), "terminal-like" if c["tty"] else "pipe-like"), c, exp, got))
    rep.part("redrawing-handler", cases=nred, what="a handler that writes and overwrites a section of each output x ANSI switch placements x "
             "pipe-like / terminal-like streams x argv / string form: no escape sequence at all under the no-ANSI switch, the overwriting text "
             "last on screen otherwise")
    evals += nred
    nfac = 0
    for c in factory_cases():
        nfac += 1
        for sig, what, exp, got in judge_factory(c):
            rep.violation(report.viol(sig, what + " | line %r" % " ".join(c["tokens"]), c, exp, got))
    rep.part("failing-handler-factory", cases=nfac, what="version / help switches behind a command whose handler is configured as a factory that "
             "raises: status 0 and the same version text / the command's help page (the handler is not needed)")
    evals += nfac
    nord = 0
    for c in order_cases():
        nord += 1
        for sig, what, exp, got in judge_order(c):
            rep.violation(report.viol(sig, what + " | %s then %s at %s, handler %s" % (c["first"], c["second"], c["verb"], c["variant"]), c, exp, got))
    rep.part("two-runs-in-one-process", cases=nord, what="a raising handler run with --ansi and then with --no-ansi (and the reverse) in the same "
             "process, at -v and -vvv, on pipe-like and terminal-like streams: the second run obeys its own switch")
    evals += 2 * nord
    rep.set("evaluations", evals)
    rep.set("distinct_nontrivial", len(keys))
    rep.set("skipped_v_before_positional", counters.pop("skipped_v_before_positional", 0))
    rep.set("effects_asserted", dict(sorted(counters.items())))
    rep.set("max_switches_all_spellings", ka)
    rep.set("max_switches_short_spellings", ka + 1)
    rep.set("units", len(us))
    rep.set("base_lines", [" ".join(l) for l, _ in lines])
    rep.set("rotated_line", " ".join(lines[-1][0]))
    rep.set("tty_default_decorated", tty_default())
    rep.set("exhaustive", True)
    rep.set("rule", "space A: base lines x handler {ok, raise, raise-cli} x every subset of <= %d of the 13 switch spellings x every order "
                    "x every non-decreasing placement over the token boundaries incl. behind '--' (= every interleaving exactly once), run "
                    "through ArgvArgs on pipe-like buffers, lines with <= 2 switches also through StringArgs, lines with --ansi/--no-ansi anywhere (and the "
                    "switch-free lines) also on terminal-like buffers (supports_ansi() True); space B: the same with exactly %d of the 9 short "
                    "spellings %s x handler {ok, raise}. Lines with '-v' directly before a positional are skipped (counted). "
                    "non-trivial = distinct (line, handler, args class) with >= 1 switch on which >= 1 switch-dependent assertion was "
                    "evaluated (a line with a switch before/inside the command path counts only when quiet or --no-ansi was asserted on it)"
                    % (ka, ka + 1, " ".join(SHORT)))
    for u in us[:: max(1, len(us) // 7)][:8]:
        c = list(unit_cases(u))[-1]
        rep.sample(" ".join(compose(c["line"], c["switches"], c["positions"])) + " [%s]" % c["variant"])
    rep.assume("streams handed to run() are buffers: supports_ansi() False (where --ansi has to force decoration) and, for lines with an ANSI "
               "switch, also True (where --no-ansi has to remove it; the undecorated/decorated default is measured on the switch-free line)")
    rep.assume("a fresh application per run (state carried between runs is C05/C17); COLUMNS=80")
    rep.assume("'-v' directly before a positional is skipped; a switch before/inside the command path is judged for quiet and --no-ansi only")
    rep.assume("--ansi together with --no-ansi, and the verbosity/dialogue seen under quiet, are left unasserted (statement silent)")
    return rep.finish()
