"""Shared generators / reference oracle for C01 and C02 (the argv parser).

Everything here is deterministic and JSON-able:

  spec  = {"names": [[name, [alias, ...]], ...],
           "opts":  [[long, short|None, mode, typ, nullable, default], ...]   mode: flag|req|opt|multi
           "args":  [[name, mode, typ, nullable, default], ...]               mode: req|opt|multi|reqmulti
           "split": None | [n_names_in_base, [opt_in_base?...], n_args_in_base]}
  asg   = {"opts": [None | ["flag"] | ["bare"] | ["val", [[text, expected], ...]], ...],   (one entry per option)
           "args": [None | [[text, expected], ...], ...]}                                 (one entry per argument)

The generator builds every command line that *is a spelling* of an assignment under exactly the conventions the
property statement lists; the expected result is therefore known by construction (`expected_views`).
Rules that decide whether a token sequence is a spelling (soundness first; anything the statement is silent
about is NOT generated):
  * an option value in a separate token (`--n v`, `-n v`) is never empty and never starts with '-';
    such values are only spelled attached (`--n=v`, `-nv`).  The empty string is never an option value
    (`--n=` means "no value" to the parser).
  * a bare optional-value option (`--n` / `-n` without value, also as the last letter of a short group) is always
    followed by an option token, by `--`, or by the end of the line.
  * positionals in front of `--` never start with '-' and are never empty; tokens that do go behind `--`
    (and then every later positional as well, the tail is a suffix).
  * short groups are `-<flags...>` optionally ended by ONE value option (attached value, separate value or bare).
  * a multi-valued option is repeated once per value, occurrences in value order (different options permute freely).
  * command names are spelled by name or alias, in order, in front of the argument values; a trailing suffix of
    them may be omitted (default-command path) only if no argument value IN FRONT OF `--` equals a name/alias of an
    omitted name (words behind `--` are arbitrary tokens, never command names).
  * options are placed in every gap of the positional sequence in front of `--` (also before/among command names).
"""
import itertools

MODES_O = ("flag", "req", "opt", "multi")
TYPES = ("string", "bool", "int", "float")


# ------------------------------------------------------------------------------------------------
# building the real format
# ------------------------------------------------------------------------------------------------
def build_format(spec):
    from clikit.api.args.format import Argument, CommandName, Option
    from clikit.api.args.format.args_format_builder import ArgsFormatBuilder

    omode = {"flag": Option.NO_VALUE, "req": Option.REQUIRED_VALUE, "opt": Option.OPTIONAL_VALUE, "multi": Option.MULTI_VALUED}
    otyp = {"string": Option.STRING, "bool": Option.BOOLEAN, "int": Option.INTEGER, "float": Option.FLOAT}
    amode = {"req": Argument.REQUIRED, "opt": Argument.OPTIONAL, "multi": Argument.MULTI_VALUED,
             "reqmulti": Argument.REQUIRED | Argument.MULTI_VALUED}
    atyp = {"string": Argument.STRING, "bool": Argument.BOOLEAN, "int": Argument.INTEGER, "float": Argument.FLOAT}

    def mk_opt(o):
        long, short, mode, typ, nullable, default = o
        if mode == "flag":
            return Option(long, short, Option.NO_VALUE)
        flags = omode[mode] | otyp[typ] | (Option.NULLABLE if nullable else 0)
        return Option(long, short, flags, default=(list(default) if isinstance(default, list) else default))

    def mk_arg(a):
        name, mode, typ, nullable, default = a
        flags = amode[mode] | atyp[typ] | (Argument.NULLABLE if nullable else 0)
        if mode in ("req", "reqmulti"):
            return Argument(name, flags)
        return Argument(name, flags, default=(list(default) if isinstance(default, list) else default))

    names = [CommandName(n, list(al)) for n, al in spec["names"]]
    opts = [mk_opt(o) for o in spec["opts"]]
    args = [mk_arg(a) for a in spec["args"]]
    split = spec.get("split")
    if not split:
        b = ArgsFormatBuilder()
        for n in names:
            b.add_command_name(n)
        for o in opts:
            b.add_option(o)
        for a in args:
            b.add_argument(a)
        return b.format
    nb, mask, na = split[:3]
    mid = split[3] if len(split) > 3 else 0
    base = ArgsFormatBuilder()
    for n in names[:nb]:
        base.add_command_name(n)
    for o, inb in zip(opts, mask):
        if inb:
            base.add_option(o)
    for a in args[:na]:
        base.add_argument(a)
    parent = base.format
    if mid:  # a format that defines nothing itself between the base and the derived format (an anonymous level)
        parent = ArgsFormatBuilder(parent).format
    b = ArgsFormatBuilder(parent)
    for n in names[nb:]:
        b.add_command_name(n)
    for o, inb in zip(opts, mask):
        if not inb:
            b.add_option(o)
    for a in args[na:]:
        b.add_argument(a)
    return b.format


def parse(fmt, tokens, lenient):
    """One parse on a FRESH parser (parser reuse is C05's subject, not ours)."""
    from clikit.args.argv_args import ArgvArgs
    from clikit.args.default_args_parser import DefaultArgsParser

    return DefaultArgsParser().parse(ArgvArgs(["prog"] + list(tokens)), fmt, lenient)


# ------------------------------------------------------------------------------------------------
# value domains: (text, expected python value).  `tag` perturbs the values so that values sitting at different
# positions / belonging to different options differ (a swap, a shift or a reversal is then visible).
# ------------------------------------------------------------------------------------------------
def domain(typ, nullable, tag, n, positional=False, with_null=False, extra=()):
    """first n values of the type's list; 'null' is added for nullable kinds (-> None) and, for strings, also when
    with_null is set or the list is exhausted (a non-nullable string keeps the text "null")"""
    if typ == "string":
        d = [("s%d" % tag, "s%d" % tag), ("-%d" % (tag + 1), "-%d" % (tag + 1)), ("k=v%d" % tag, "k=v%d" % tag),
             ("b %d" % tag, "b %d" % tag), ("00%d" % tag, "00%d" % tag)]
        if positional:
            # things that look like options / separators: legal only behind `--`
            d[2:2] = [("--foo", "--foo"), ("-f", "-f"), ("", ""), ("--", "--"), ("-", "-")]
        nul = ("null", None if nullable else "null")
    elif typ == "int":
        d = [(str(5 + tag), 5 + tag), ("-%d" % (tag + 1), -(tag + 1)), ("00%d" % tag, tag), ("+%d" % (tag + 2), tag + 2)]
        nul = ("null", None) if nullable else None
    elif typ == "float":
        d = [("%d.5" % tag, tag + 0.5), ("-%d" % (tag + 1), -float(tag + 1)), ("1e%d" % tag, float(10 ** tag)),
             (".%d" % (tag + 1), float("0.%d" % (tag + 1))), (str(7 + tag), float(7 + tag))]
        nul = ("null", None) if nullable else None
    elif typ == "bool":
        d = [("yes", True), ("off", False), ("1", True), ("0", False), ("true", True), ("false", False), ("on", True), ("no", False)]
        if tag % 2:
            d = [d[i ^ 1] for i in range(len(d))]
        if with_null == "full":  # single-valued options of part A: every accepted spelling of a boolean
            n = len(d)
        nul = ("null", None) if nullable else None
    else:
        raise ValueError(typ)
    out = d[:n]
    if typ == "string":
        out += [(x, x) for x in extra]
    if nul is not None and (nullable or n >= len(d) or with_null):
        out.append(nul)
    return [list(x) for x in out]


def typed_default(typ, mode, tag):
    """A non-None default of the declared type (what a sensible format declares)."""
    v = {"string": "d%d" % tag, "int": 40 + tag, "float": 2.25 + tag, "bool": True}[typ]
    return [v] if mode in ("multi",) else v


# ------------------------------------------------------------------------------------------------
# assignments
# ------------------------------------------------------------------------------------------------
def _tuples(dom_fn, lo, hi):
    """all value lists of length lo..hi, j-th element drawn from dom_fn(j) (so positions differ)"""
    out = []
    for L in range(lo, hi + 1):
        out.extend([list(t) for t in itertools.product(*[dom_fn(j) for j in range(L)])])
    return out


def option_choices(spec, k, dom_n, multi_len, bare_none=False, with_null=False):
    long, short, mode, typ, nullable, default = spec["opts"][k]
    if mode == "flag":
        return [None, ["flag"]]
    if mode == "multi":
        return [None] + [["val", t] for t in _tuples(lambda j: domain(typ, nullable, 10 * k + j, dom_n, False, with_null), 1, multi_len)]
    ch = [None] + [["val", [v]] for v in domain(typ, nullable, 10 * k, dom_n, False, "full" if with_null else False)]
    if mode == "opt" and (default is not None or bare_none):
        ch.append(["bare"])
    return ch


def argument_choices(spec, dom_n, multi_len, with_null=False, extra=()):
    """all legal value vectors for the arguments (optional ones prefix-closed)"""
    args = spec["args"]
    res = []

    def rec(i, acc):
        if i == len(args):
            res.append(list(acc))
            return
        name, mode, typ, nullable, default = args[i]
        if mode in ("multi", "reqmulti"):
            lo = 1 if mode == "reqmulti" else 0
            for t in _tuples(lambda j: domain(typ, nullable, i + j, dom_n, True, with_null, extra), lo, multi_len):
                res.append(acc + [t if t else None])
            return
        if mode == "opt":
            res.append(acc + [None] * (len(args) - i))  # this and every later argument absent
        for v in domain(typ, nullable, i, dom_n, True, with_null, extra):
            rec(i + 1, acc + [[v]])

    rec(0, [])
    return res


def assignments(spec, dom_n=2, arg_dom_n=None, multi_len=2, arg_multi_len=None, bare_none=False, with_null=False,
                arg_extra=()):
    """simplest first: fewer given elements first (stable).
    arg_extra: extra string values for string arguments (e.g. words that equal a command name)"""
    arg_dom_n = dom_n if arg_dom_n is None else arg_dom_n
    arg_multi_len = multi_len if arg_multi_len is None else arg_multi_len
    och = [option_choices(spec, k, dom_n, multi_len, bare_none, with_null) for k in range(len(spec["opts"]))]
    ach = argument_choices(spec, arg_dom_n, arg_multi_len, False, arg_extra)  # with_null concerns option values only
    out = []
    for a in ach:
        for o in itertools.product(*och):
            out.append({"opts": list(o), "args": a})

    def size(asg):
        n = 0
        for o in asg["opts"]:
            if o:
                n += len(o[1]) if o[0] == "val" else 1
        for a in asg["args"]:
            if a:
                n += len(a)
        return n

    out.sort(key=size)
    return out


# ------------------------------------------------------------------------------------------------
# reference: what the Args object must report for an assignment
# ------------------------------------------------------------------------------------------------
def canon(x):
    """type-strict JSON-able form (True != 1, 5 != 5.0)"""
    t = type(x)
    if t is str or x is None:
        return x
    if t is bool:
        return {"bool": x}
    if t is int:
        return {"int": x}
    if t is float:
        return {"float": repr(x)}
    if t is list or t is tuple:
        return [canon(v) for v in x]
    if isinstance(x, dict):
        return {str(k): canon(v) for k, v in x.items()}
    return {"other": repr(x)}


VIEWS = ("arguments(False)", "options(False)", "arguments(True)", "options(True)", "option(long)", "option(short)",
         "argument(name)", "argument(position)", "is_option_set(long)", "is_argument_set(name)")


def expected_views(spec, asg):
    oset, oall, short = {}, {}, {}
    for o, ch in zip(spec["opts"], asg["opts"]):
        long, sh, mode, typ, nullable, default = o
        if mode == "flag":
            dflt = False
        elif mode == "multi":
            dflt = [] if default is None else default
        else:
            dflt = default
        if ch is None:
            v = dflt
        elif ch[0] == "flag":
            v = oset[long] = True
        elif ch[0] == "bare":
            v = oset[long] = default
        elif mode == "multi":
            v = oset[long] = [e for _, e in ch[1]]
        else:
            v = oset[long] = ch[1][0][1]
        oall[long] = v
        if sh:
            short[sh] = v
    aset, aall, pos = {}, {}, []
    for a, ch in zip(spec["args"], asg["args"]):
        name, mode, typ, nullable, default = a
        if mode in ("multi", "reqmulti"):
            dflt = [] if default is None else default
            v = [e for _, e in ch] if ch else dflt
        else:
            v = ch[0][1] if ch else default
        if ch:
            aset[name] = v
        aall[name] = v
        pos.append(v)
    return canon({
        "arguments(False)": aset, "options(False)": oset, "arguments(True)": aall, "options(True)": oall,
        "option(long)": oall, "option(short)": short, "argument(name)": aall, "argument(position)": pos,
        "is_option_set(long)": {k: (k in oset) for k in oall}, "is_argument_set(name)": {k: (k in aset) for k in aall},
    })


def observe(args, spec, views=VIEWS):
    """Read every view of a parsed Args; an exception inside one view is recorded for that view only.
    returns (views dict, [(view, exception)])"""
    longs = [o[0] for o in spec["opts"]]
    shorts = [o[1] for o in spec["opts"] if o[1]]
    names = [a[0] for a in spec["args"]]
    fns = {
        "arguments(False)": lambda: args.arguments(False),
        "options(False)": lambda: args.options(False),
        "arguments(True)": lambda: args.arguments(True),
        "options(True)": lambda: args.options(True),
        "option(long)": lambda: {n: args.option(n) for n in longs},
        "option(short)": lambda: {n: args.option(n) for n in shorts},
        "argument(name)": lambda: {n: args.argument(n) for n in names},
        "argument(position)": lambda: [args.argument(i) for i in range(len(names))],
        "is_option_set(long)": lambda: {n: args.is_option_set(n) for n in longs},
        "is_argument_set(name)": lambda: {n: args.is_argument_set(n) for n in names},
    }
    out, errs = {}, []
    for v in views:
        try:
            out[v] = canon(fns[v]())
        except Exception as e:  # noqa
            out[v] = {"raised": "%s: %s" % (type(e).__name__, e)}
            errs.append((v, e))
    return out, errs


# ------------------------------------------------------------------------------------------------
# spellings
# ------------------------------------------------------------------------------------------------
def _orderings(groups):
    """all interleavings of the occurrence lists in `groups` that keep each list's own order"""
    if not any(groups):
        yield []
        return
    for i, g in enumerate(groups):
        if g:
            rest = groups[:i] + [g[1:]] + groups[i + 1:]
            for tail in _orderings(rest):
                yield [g[0]] + tail


def _atom_spellings(opt, k, occ):
    """spellings of one option occurrence: list of atoms (kind, k, head, text)
    kinds: L long flag, S short flag, LB/SB bare optional, LE --n=v, LS --n v, SA -nv, SS -n v"""
    long, short = opt[0], opt[1]
    if occ[0] == "flag":
        r = [("L", k, "--" + long, None)]
        if short:
            r.append(("S", k, short, None))
        return r
    if occ[0] == "bare":
        r = [("LB", k, "--" + long, None)]
        if short:
            r.append(("SB", k, short, None))
        return r
    t = occ[1]
    sep_ok = t != "" and not t.startswith("-")
    r = [("LE", k, "--" + long + "=" + t, t)]
    if sep_ok:
        r.append(("LS", k, "--" + long, t))
    if short:
        r.append(("SA", k, short, t))
        if sep_ok:
            r.append(("SS", k, short, t))
    return r


def _emit(atoms, merge_bits):
    """atoms of ONE gap -> (tokens, roles).  merge_bits[i] says: glue atom i+1 onto the short group ending in atom i."""
    toks, roles = [], []
    group = None  # letters of the open short-flag group (its token is toks[gi])
    for i, (kind, k, head, text) in enumerate(atoms):
        glue = i > 0 and merge_bits[i - 1]
        if kind in ("S", "SB", "SA", "SS"):
            if glue:
                body = toks[gi][1:] + head
                ks = roles[gi][1] + [k]
            else:
                body = head
                ks = [k]
                gi = len(toks)
                toks.append(None)
                roles.append(None)
            if kind == "SA":
                body += text
            toks[gi] = "-" + body
            roles[gi] = [{"S": "G", "SB": "GB", "SA": "GA", "SS": "GS"}[kind], ks]
            if kind == "SS":
                toks.append(text)
                roles.append(["V", [k]])
        elif kind == "LS":
            toks.append(head)
            roles.append(["LS", [k]])
            toks.append(text)
            roles.append(["V", [k]])
        else:
            toks.append(head)
            roles.append([kind, [k]])
    return toks, roles


def _mergeable(atoms):
    """indices i such that atom i+1 may be glued onto atom i: atom i is a short flag, atom i+1 any short atom"""
    return [i for i in range(len(atoms) - 1) if atoms[i][0] == "S" and atoms[i + 1][0] in ("S", "SB", "SA", "SS")]


def name_variants(spec, values):
    """spelled command-name prefixes (full first): every name/alias choice, every omitted suffix that collides
    with no argument value"""
    names = spec["names"]
    out = []
    for k in range(len(names), -1, -1):
        omitted = names[k:]
        if any(v == nm or v in al for v in values for nm, al in omitted):
            continue
        for ch in itertools.product(*[[nm] + list(al) for nm, al in names[:k]]):
            out.append(list(ch))
    return out


def needs_tail(text):
    return text == "" or text.startswith("-")


def spellings(spec, asg, groups=True, omit_names=True, tails=True):
    """yield (tokens, roles) for every spelling of asg.  roles[i] = [role, [indices]]:
       N name, A argument value before `--`, T behind `--`, D the `--`, L/LB/LE/LS long forms, V separate value,
       G/GB/GA/GS short token (flags..., last letter plain flag / bare / attached value / separate value follows)."""
    opts = spec["opts"]
    # argument values, flat, with the argument index each belongs to
    V, Vi = [], []
    for i, ch in enumerate(asg["args"]):
        for t, _ in (ch or []):
            V.append(t)
            Vi.append(i)
    m = len(V)
    s_max = m
    for i, t in enumerate(V):
        if needs_tail(t):
            s_max = i
            break
    tl = [(m, False)] if s_max == m else []
    if tails or s_max < m:
        tl += [(s, True) for s in range(s_max, -1, -1)]
    occ_groups = []
    for k, ch in enumerate(asg["opts"]):
        if ch is None:
            continue
        if ch[0] == "val":
            occ_groups.append([(k, ("val", t)) for t, _ in ch[1]])
        else:
            occ_groups.append([(k, (ch[0],))])
    orderings = list(_orderings(occ_groups))
    for s, dd in tl:
        nvs = name_variants(spec, V[:s])
        if not omit_names:
            nvs = [nv for nv in nvs if len(nv) == len(spec["names"])]
        for nv in nvs:
            P = nv + V[:s]
            Proles = [["N", [j]] for j in range(len(nv))] + [["A", [Vi[j]]] for j in range(s)]
            tail = (["--"] + V[s:]) if dd else []
            tail_roles = ([["D", []]] + [["T", [Vi[j]]] for j in range(s, m)]) if dd else []
            G = len(P) + 1
            for order in orderings:
                choices = [_atom_spellings(opts[k], k, occ) for k, occ in order]
                for gaps in itertools.combinations_with_replacement(range(G), len(order)):
                    for atoms in itertools.product(*choices):
                        # atoms per gap
                        per_gap = [[] for _ in range(G)]
                        for g, a in zip(gaps, atoms):
                            per_gap[g].append(a)
                        mlists = []
                        for g in range(G):
                            mi = _mergeable(per_gap[g]) if groups else []
                            mlists.append(mi)
                        nm = sum(len(x) for x in mlists)
                        for bits in range(1 << nm):
                            toks, roles = [], []
                            b = bits
                            ok = True
                            for g in range(G):
                                ag = per_gap[g]
                                if ag:
                                    mb = [False] * (len(ag) - 1)
                                    for i in mlists[g]:
                                        mb[i] = bool(b & 1)
                                        b >>= 1
                                    t2, r2 = _emit(ag, mb)
                                    toks += t2
                                    roles += r2
                                if g < len(P):
                                    # a bare optional-value option must not be followed by a positional
                                    if roles and roles[-1][0] in ("LB", "GB"):
                                        ok = False
                                        break
                                    toks.append(P[g])
                                    roles.append(Proles[g])
                            if not ok:
                                continue
                            yield toks + tail, roles + tail_roles


def line_features(roles):
    n_opt = sum(1 for r in roles if r[0] in ("L", "LB", "LE", "LS", "G", "GB", "GA", "GS"))
    n_pos = sum(1 for r in roles if r[0] in ("N", "A", "T"))
    return n_opt, n_pos


# ------------------------------------------------------------------------------------------------
# catalogues
# ------------------------------------------------------------------------------------------------
LONGS = ["foo", "bar", "qux"]
SHORTS = ["f", "b", "q"]
ARGN = ["x", "y", "z", "w"]
NAMES0 = []
NAMES1 = [["srv", ["sv"]]]
NAMES2 = [["srv", ["sv"]], ["add", []]]


def opt_kind(mode, typ="string", nullable=False, short=True, default="typed"):
    return [mode, typ, nullable, short, default]


def all_option_kinds():
    """value mode x type x nullable x short-name presence (+ for optional values: typed default / no default)"""
    ks = [opt_kind("flag", short=True), opt_kind("flag", short=False)]
    for mode in ("req", "opt", "multi"):
        for typ in TYPES:
            for nullable in (False, True):
                for short in (True, False):
                    ks.append(opt_kind(mode, typ, nullable, short, "typed" if mode == "opt" else None))
    # optional/required value with the other default choice (reported when the option is absent)
    for typ in TYPES:
        ks.append(opt_kind("opt", typ, False, True, None))
        ks.append(opt_kind("req", typ, True, True, "typed"))
    ks.append(opt_kind("multi", "string", False, True, "typed"))
    return ks


def mk_opts(kinds):
    out = []
    for k, (mode, typ, nullable, short, default) in enumerate(kinds):
        if mode == "flag":
            out.append([LONGS[k], SHORTS[k] if short else None, "flag", "string", False, None])
        else:
            d = typed_default(typ, mode, k) if default == "typed" else default
            out.append([LONGS[k], SHORTS[k] if short else None, mode, typ, nullable, d])
    return out


def arg_kind(mode, typ="string", nullable=False, default=None):
    return [mode, typ, nullable, default]


def mk_args(kinds):
    out = []
    for i, (mode, typ, nullable, default) in enumerate(kinds):
        d = default
        if default == "typed":
            d = typed_default(typ, "multi" if mode == "multi" else "opt", 5 + i)
        out.append([ARGN[i], mode, typ, nullable, d])
    return out


def arg_shapes(max_single, with_multi=True):
    """all legal mode sequences: req* opt* [multi]  |  req* reqmulti   (single-valued part <= max_single)"""
    out = []
    for n in range(max_single + 1):
        for r in range(n, -1, -1):
            base = ["req"] * r + ["opt"] * (n - r)
            out.append(base)
            if with_multi:
                out.append(base + ["multi"])
                if r == n:
                    out.append(base + ["reqmulti"])
    return out


def mk_spec(names, okinds, akinds, split=None):
    return {"names": [list(n) for n in names], "opts": mk_opts(okinds), "args": mk_args(akinds), "split": split}


def spec_key(spec):
    import json
    return json.dumps(spec, sort_keys=True)
