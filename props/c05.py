"""C05 - parsing is a pure function of the tokens, the format and the leniency mode.

E2: explicit-state exploration (mc.explore, replay mode) over sequences of parse requests issued to
ONE DefaultArgsParser instance.

* Request alphabet (REQUESTS below): success with flags / values / multi-values / typed multi-valued
  arguments, every failure kind (unknown option, value given to a flag, missing required value, surplus
  positional, missing required argument, value that does not convert), lenient partial parses, two
  different formats that re-use the option name `foo` with a different kind, command names that are
  inserted when omitted, '--' tails, a format with a base format, StringArgs as well as ArgvArgs, and three
  requests that go through Command.parse of two commands whose configs were given the *same* parser
  with Config.set_args_parser.
* State fingerprint = mc.fingerprint.canon of the parser's full vars() + every data attribute of its
  classes + every mutable global of the modules that define them (so a scratch map hoisted to class
  or module level is still state) + every earlier result that still shares a mutable object with that
  state (only those can be changed by a later parse; see `_retained`).  No attribute name is
  hard-coded.
* Oracle on every transition:
    - result views (arguments(False/True), options(False/True)) or the (exception class, message)
      equal what a fresh parser gives.  "Fresh" is taken twice: from a table computed once per
      request in a brand-new *process* (immune to class-level sharing) and from a new instance in the
      same process; the two must agree as well.
    - every result returned earlier in the history still shows the views it showed when returned,
      and the raw arguments of every earlier request are unchanged (aliasing).
    - the argv list is unchanged by ArgvArgs(argv) and by the parse; RawArgs.tokens / option_tokens /
      script_name / to_string() unchanged by the parse; the ArgsFormat (full vars fingerprint incl.
      base format, plus every public listing) unchanged by the parse.
* The graph is expected to close (state is a function of the last request) => holds for request
  sequences of any length over the alphabet.  A no-dedup enumeration of *all* sequences up to length
  4 (quick) / 5 (thorough) is run in addition.

Not demanded (statement is silent): key order of the option/argument dicts (compared as sets of
items, typed); identity of exception objects; that the parser holds no reference to the last
result (it does in correct code: the multi-value list of the last result is the scratch list until the
next parse resets it - only a *change* of an earlier result is a violation).
"""
import collections
import multiprocessing as mp
import pickle
import resource
import sys
import types

from mc import common, explore, par, report
from mc.fingerprint import canon

PID = "C05"

# --------------------------------------------------------------------------------------------
# request alphabet: (kind, format/command name, tokens, lenient, raw-args kind)
#   kind "p": parser.parse(raw, FORMATS[name], lenient)        lenient in (False, True)
#   kind "c": COMMANDS[name].parse(raw, lenient)               lenient in (None, False, True)
#   raw kind "argv": ArgvArgs(["prog"] + tokens)   "str": StringArgs(" ".join(tokens))
# --------------------------------------------------------------------------------------------
REQUESTS = [
    ("p", "F1", (), False, "argv"),                                  # empty line, nothing set
    ("p", "F1", ("--foo",), False, "argv"),                          # a flag
    ("p", "F1", ("-f", "--bar", "12", "x"), False, "str"),           # flag + typed value + argument
    ("p", "F1", ("--multi", "a", "-m", "b", "--opt"), False, "argv"),  # multi-valued option, optional value
    ("p", "F1", ("--multi=c", "x", "1", "2"), False, "argv"),        # multi option + typed multi-valued argument
    ("p", "F1", ("--nope",), False, "argv"),                         # unknown option
    ("p", "F1", ("--foo=1",), False, "argv"),                        # value given to a flag
    ("p", "F1", ("-m", "q", "--bar"), False, "argv"),                # required value missing (after a multi value was stored)
    ("p", "F1", ("x", "y"), False, "argv"),                          # 'y' does not convert to int
    ("p", "F1", ("--foo", "x", "--nope", "1"), True, "argv"),        # lenient: partial parse
    ("p", "F1", ("-m", "q", "--bar"), True, "argv"),                 # lenient: partial parse with a multi value
    ("p", "F2", ("server", "add", "--foo", "v", "h"), False, "argv"),  # other format: foo takes a value here
    ("p", "F2", ("srv", "add", "h", "e", "surplus"), False, "argv"),  # surplus positional
    ("p", "F2", ("server", "add", "-v"), False, "argv"),             # required argument missing (base-format flag set)
    ("p", "F2", ("h", "-p", "80"), False, "str"),                    # command names omitted and re-inserted
    ("p", "F2", ("--", "server", "h"), True, "argv"),                # everything after '--' is a value, never a command name
    ("p", "F1", ("-f", "--", "--foo", "3"), False, "argv"),          # option-like tokens after '--' are arguments
    # the very same raw-args object and format object, parsed leniently and strictly in any order
    ("p", "F1", ("--foo", "x", "--nope", "1"), True, "same"),
    ("p", "F1", ("--foo", "x", "--nope", "1"), False, "same"),
    ("p", "F2", ("srv", "add", "h", "e", "surplus"), True, "same"),
    ("p", "F2", ("srv", "add", "h", "e", "surplus"), False, "same"),
    # formats that live only for one request (built, parsed with, dropped)
    ("t", "T1", ("--foo", "h"), False, "argv"),
    ("t", "T2", ("--timeout", "5", "h"), False, "argv"),
    ("c", "alpha", ("alpha", "--foo", "it"), None, "argv"),          # two commands sharing the parser via set_args_parser
    ("c", "beta", ("bt", "--foo", "w", "-m", "z"), None, "argv"),
    ("c", "beta", ("beta", "--nope"), None, "argv"),                 # beta's config enables lenient parsing
]


def temp_format(name):
    """A short-lived format, built anew for every request of kind "t" and dropped right after the parse: formats of
    different lifetimes on one parser (anything the parser remembers about a format must not outlive it / be confused
    with a later one)."""
    from clikit.api.args.format import ArgsFormat, Argument, Option
    if name == "T1":
        return ArgsFormat([Option("foo", "f", Option.NO_VALUE), Argument("host", Argument.OPTIONAL)])
    return ArgsFormat([Option("timeout", "t", Option.REQUIRED_VALUE), Argument("host", Argument.OPTIONAL)])


def build_world():
    """Formats and commands.  The two commands' configs are pointed at the parser under test with
    Config.set_args_parser before every command request (State.bind)."""
    from clikit.api.args.format import ArgsFormat, Argument, CommandName, Option
    from clikit.api.command.command import Command
    from clikit.api.config.command_config import CommandConfig

    f1 = ArgsFormat([
        Option("foo", "f", Option.NO_VALUE),
        Option("bar", "b", Option.REQUIRED_VALUE | Option.INTEGER),
        Option("opt", "o", Option.OPTIONAL_VALUE, None, "dflt"),
        Option("multi", "m", Option.REQUIRED_VALUE | Option.MULTI_VALUED),
        Argument("name", Argument.OPTIONAL, None, "anon"),
        Argument("rest", Argument.MULTI_VALUED | Argument.INTEGER),
    ])
    base = ArgsFormat([Option("verbose", "v", Option.NO_VALUE)])
    f2 = ArgsFormat([
        CommandName("server", ["srv"]),
        CommandName("add"),
        Option("foo", None, Option.REQUIRED_VALUE),
        Option("port", "p", Option.REQUIRED_VALUE | Option.INTEGER, None, 8080),
        Argument("host", Argument.REQUIRED),
        Argument("extra", Argument.OPTIONAL),
    ], base)
    ca = CommandConfig("alpha")
    ca.add_option("foo", "f", Option.NO_VALUE)
    ca.add_argument("item", Argument.OPTIONAL)
    cb = CommandConfig("beta")
    cb.add_alias("bt")
    cb.add_option("foo", None, Option.REQUIRED_VALUE)
    cb.add_option("multi", "m", Option.REQUIRED_VALUE | Option.MULTI_VALUED)
    cb.enable_lenient_args_parsing()
    cmds = {"alpha": Command(ca), "beta": Command(cb)}
    fmts = {"F1": f1, "F2": f2, "alpha": cmds["alpha"].args_format, "beta": cmds["beta"].args_format}
    return fmts, cmds


# --------------------------------------------------------------------------------------------
# snapshots (deep, typed, JSON-able; never alias the live objects)
# --------------------------------------------------------------------------------------------
def _typed(v):
    if isinstance(v, list):
        return ["list"] + [_typed(x) for x in v]
    if isinstance(v, tuple):
        return ["tuple"] + [_typed(x) for x in v]
    if isinstance(v, dict):
        return ["dict"] + sorted([str(k), _typed(x)] for k, x in v.items())
    return [type(v).__name__, repr(v)]


def views(args):
    return {
        "arguments(False)": _typed(args.arguments(False)),
        "arguments(True)": _typed(args.arguments(True)),
        "options(False)": _typed(args.options(False)),
        "options(True)": _typed(args.options(True)),
    }


def raw_snapshot(raw):
    return {"tokens": list(raw.tokens), "option_tokens": list(raw.option_tokens), "script_name": raw.script_name,
            "to_string": raw.to_string(), "types": [type(t).__name__ for t in raw.tokens]}


def format_listing(fmt):
    def opt(o):
        return [o.long_name, o.short_name, o.flags, _typed(o.default), o.value_name, o.description]

    def arg(a):
        return [a.name, a.flags, _typed(a.default), a.description]

    out = {}
    for ib in (True, False):
        out["command_names(%s)" % ib] = [[getattr(c, "string", repr(type(c))), list(getattr(c, "aliases", []))]
                                         for c in fmt.get_command_names(ib)]
        out["arguments(%s)" % ib] = [[k, arg(a)] for k, a in fmt.get_arguments(ib).items()]
        out["options(%s)" % ib] = [[k, opt(o)] for k, o in fmt.get_options(ib).items()]
        out["command_options(%s)" % ib] = [[o.long_name, o.short_name] for o in fmt.get_command_options(ib)]
        out["flags(%s)" % ib] = [fmt.has_multi_valued_argument(ib), fmt.has_optional_argument(ib), fmt.has_arguments(ib),
                                 fmt.has_options(ib), fmt.has_command_names(ib)]
    return out


# --------------------------------------------------------------------------------------------
# the parser's full state, and the results it can still reach
# --------------------------------------------------------------------------------------------
_CONTAINERS = (dict, list, set, bytearray, collections.deque)


def parser_state(p):
    """vars() + class-level data + mutable default arguments of the methods + mutable module globals, for
    every class in the MRO (nothing named)."""
    cls_data = []
    mod_data = []
    for klass in type(p).__mro__:
        if klass is object:
            continue
        for k, v in sorted(vars(klass).items()):
            if k.startswith("__") and k.endswith("__"):
                continue
            f = getattr(v, "__func__", None) or getattr(v, "fget", None) or v
            if isinstance(f, types.FunctionType):
                # mutable default arguments are state that outlives a call
                for d in (f.__defaults__ or ()) + tuple((f.__kwdefaults__ or {}).values()):
                    if isinstance(d, _CONTAINERS):
                        cls_data.append((klass.__qualname__, k + ".__defaults__", d))
                continue
            if isinstance(v, (property, staticmethod, classmethod, type)):
                continue
            cls_data.append((klass.__qualname__, k, v))
        mod = sys.modules.get(klass.__module__)
        for k, v in sorted(vars(mod).items()) if mod else ():
            if k.startswith("__"):
                continue
            if isinstance(v, _CONTAINERS) or (not isinstance(v, (type, types.ModuleType, types.FunctionType))
                                              and type(v).__module__.split(".")[0] == "clikit"):
                mod_data.append((klass.__module__, k, v))
    return [vars(p), cls_data, mod_data]


def _mutables(root, stop_ids):
    """ids of the mutable objects reachable from root; objects in stop_ids (the formats) are not entered."""
    seen = {}
    todo = [root]
    while todo:
        o = todo.pop()
        if isinstance(o, (str, bytes, int, float, bool, type(None), type, types.FunctionType, types.ModuleType,
                          types.BuiltinFunctionType)):
            continue
        if id(o) in seen or id(o) in stop_ids:
            continue
        seen[id(o)] = o
        if isinstance(o, dict):
            todo.extend(o.keys())
            todo.extend(o.values())
        elif isinstance(o, (list, tuple, set, frozenset, collections.deque)):
            todo.extend(o)
        else:
            d = getattr(o, "__dict__", None)
            if d is not None:
                todo.append(d)
    return {i for i, o in seen.items() if not isinstance(o, (tuple, frozenset))}


_WORLD = None


def world():
    """Per process: formats, commands, and the formats' state as built (every later comparison is
    against this, so an alteration is reported at the transition that caused it)."""
    global _WORLD
    if _WORLD is None:
        fmts, cmds = build_world()
        names = sorted(fmts)
        _WORLD = dict(fmts=fmts, cmds=cmds, fmt_ids={id(f): n for n, f in fmts.items()}, names=names,
                      pickled=pickle.dumps([fmts[n] for n in names], 2),
                      canon={n: canon(fmts[n]) for n in names},
                      listing={n: format_listing(fmts[n]) for n in names})
    return _WORLD


class State(object):
    def __init__(self):
        from clikit.args.default_args_parser import DefaultArgsParser
        w = self.w = world()
        self.parser = DefaultArgsParser()
        self.fmts, self.cmds, self.fmt_ids = w["fmts"], w["cmds"], w["fmt_ids"]
        self.earlier = []  # (request, Args|None, views|None, raw, raw_snapshot)
        self.pool = {}  # token tuple -> (ArgvArgs, argv) re-used by raw kind "same"

    def bind(self, name):
        """Both commands share this state's parser: Config.set_args_parser(<the one instance>)."""
        for c in self.cmds.values():
            c.config.set_args_parser(self.parser)
        if self.cmds[name].config.args_parser is not self.parser:
            raise RuntimeError("engine error: Config.args_parser is not the instance given to set_args_parser")
        return self.cmds[name]


def _rkey(req):
    return repr((req[0], req[1], tuple(req[2]), req[3], req[4]))


def _norm(op):
    return (op[0], op[1], tuple(op[2]), op[3], op[4])


def make_raw(req, pool=None):
    """raw kind "same": one ArgvArgs object per token list and history, handed to the parser again and
    again (with the same format object) - what an application does when it parses its arguments leniently
    first and strictly afterwards."""
    from clikit.args import ArgvArgs, StringArgs
    tokens = list(req[2])
    if req[4] == "str":
        return StringArgs(" ".join(tokens)), None
    if req[4] == "same" and pool is not None:
        k = tuple(tokens)
        if k not in pool:
            argv = ["prog"] + tokens
            pool[k] = (ArgvArgs(argv), argv)
        return pool[k]
    argv = ["prog"] + tokens
    return ArgvArgs(argv), argv


def outcome(thunk):
    """-> (JSON-able outcome, Args|None, exception|None)"""
    try:
        a = thunk()
    except Exception as e:  # every exception is an outcome to be compared, whatever its class
        return {"raised": type(e).__name__, "message": str(e)}, None, e
    return {"ok": views(a)}, a, None


def fresh_outcome(req):
    """What a brand-new parser instance gives for one request."""
    from clikit.args.default_args_parser import DefaultArgsParser
    w = world()
    raw, _ = make_raw(req)
    kind, name, _tokens, lenient, _rk = req
    if kind == "t":
        return outcome(lambda: DefaultArgsParser().parse(raw, temp_format(name), lenient))[0]
    if kind == "c" and lenient is None:
        lenient = w["cmds"][name].config.is_lenient_args_parsing_enabled()
    return outcome(lambda: DefaultArgsParser().parse(raw, w["fmts"][name], lenient))[0]


def _table_worker(req):
    return fresh_outcome(_norm(req))


def fresh_table(reqs):
    """One new process per request (forked from a parent that has not parsed anything): the reference
    cannot be polluted by what an earlier parse left anywhere (instance, class, module)."""
    ctx = mp.get_context("fork")
    with ctx.Pool(1, maxtasksperchild=1) as pool:
        outs = pool.map(_table_worker, [list(r) for r in reqs], chunksize=1)
    return {_rkey(r): o for r, o in zip(reqs, outs)}


_TABLE = {}


def _first_diff(exp, got):
    for k in sorted(exp["ok"]):
        if exp["ok"][k] != got["ok"][k]:
            return k
    return "?"


def step_light(st, op, table):
    """Execute one request without judging it (used to re-create the state reached by a history that
    has already been judged, as a shorter sequence, to give exactly the table's outcomes - so the views
    the result showed when it was returned are the table's)."""
    req = _norm(op)
    raw, _argv = make_raw(req, st.pool)
    args = None
    if req[0] == "t":
        try:
            st.parser.parse(raw, temp_format(req[1]), req[3])
        except Exception:
            pass
        st.earlier.append((req, None, None, raw, raw_snapshot(raw)))
        return
    try:
        if req[0] == "c":
            args = st.bind(req[1]).parse(raw, req[3])
        else:
            args = st.parser.parse(raw, st.fmts[req[1]], req[3])
    except Exception:
        pass
    st.earlier.append((req, args, table[_rkey(req)].get("ok") if args is not None else None, raw, raw_snapshot(raw)))


class Spec(object):
    replay = True

    def __init__(self, requests=None, table=None):
        self.requests = [_norm(r) for r in (requests or REQUESTS)]
        self.table = _TABLE if table is None else table

    def init(self):
        return State()

    def ops(self, st, depth):
        return self.requests

    def key(self, st):
        ps = parser_state(st.parser)
        reach = _mutables(ps, st.fmt_ids)
        retained = []
        for (req, args, _v, raw, _rs) in st.earlier:
            if args is None:
                continue
            if _mutables([args, raw], st.fmt_ids) & reach:
                retained.append((_rkey(req), args))
        fmt_ids = st.fmt_ids

        def leaf(o):
            n = fmt_ids.get(id(o))
            return ("format", n) if n else None

        return canon([ps, retained, sorted(st.pool)], leaf)

    def expected(self, req):
        k = _rkey(req)
        if k not in self.table:
            self.table.update(fresh_table([req]))
        return self.table[k]

    def rebuild_light(self, hist):
        st = State()
        for op in hist:
            step_light(st, op, self.table)
        return st

    def apply(self, st, op):
        req = _norm(op)
        kind, name, tokens, lenient, rawkind = req
        vs = []
        w = st.w
        if kind == "t":
            raw, _argv = make_raw(req, st.pool)
            got = outcome(lambda: st.parser.parse(raw, temp_format(name), lenient))[0]  # neither format nor result is kept
            exp = self.expected(req)
            if got != exp:
                vs.append(report.viol("reuse-differs:short-lived-format", "re-used parser gives another outcome for a format that lives only for this "
                                      "parse (after %d earlier parse(s)) than a fresh parser" % len(st.earlier), None, exp, got))
            st.earlier.append((req, None, None, raw, raw_snapshot(raw)))
            return vs
        fmt = st.fmts[name]

        # wrapping an argv list must not alter it
        tokens_l = list(tokens)
        argv_before = ["prog"] + tokens_l
        raw, argv = make_raw(req, st.pool)
        if argv is not None and argv != argv_before:
            return [report.viol("argv-altered:wrap", "ArgvArgs(argv) altered the caller's list", None, argv_before, argv)]
        raw_before = raw_snapshot(raw)
        if rawkind in ("argv", "same") and (raw_before["tokens"] != tokens_l or raw_before["script_name"] != "prog"):
            return [report.viol("argv-wrap-tokens", "ArgvArgs(argv).tokens/script_name are not argv[1:]/argv[0]", None,
                                [tokens_l, "prog"], raw_before)]

        if kind == "c":
            cmd = st.bind(name)
            got, args, exc = outcome(lambda: cmd.parse(raw, lenient))
        else:
            got, args, exc = outcome(lambda: st.parser.parse(raw, fmt, lenient))

        exp = self.expected(req)
        if got != exp:
            hist = " after %d earlier parse(s)" % len(st.earlier)
            if "ok" in exp and "ok" in got:
                d = _first_diff(exp, got)
                vs.append(report.viol("reuse-differs:" + d, "re-used parser returns different %s than a fresh parser%s" % (d, hist),
                                      None, exp, got))
            elif "ok" in exp:
                vs.append(report.viol("reuse-raises:" + report.exc_site(exc), "re-used parser raises where a fresh parser succeeds" + hist,
                                      None, exp, got))
            elif "ok" in got:
                vs.append(report.viol("reuse-accepts:" + exp["raised"], "re-used parser succeeds where a fresh parser raises" + hist,
                                      None, exp, got))
            else:
                vs.append(report.viol("reuse-error-differs", "re-used parser raises a different error than a fresh parser" + hist,
                                      None, exp, got))
        exc = None

        # inputs unchanged by the parse
        if argv is not None and argv != argv_before:
            vs.append(report.viol("argv-altered:parse", "parse altered the argv list that was wrapped", None, argv_before, argv))
        raw_after = raw_snapshot(raw)
        if raw_after != raw_before:
            vs.append(report.viol("rawargs-altered", "parse altered the raw arguments (%s)" % type(raw).__name__, None, raw_before, raw_after))
        listing = format_listing(fmt)
        if listing != w["listing"][name]:
            ks = [k for k in sorted(listing) if listing[k] != w["listing"][name][k]]
            vs.append(report.viol("format-altered:listing", "parse altered the format's listing %s" % ks[0], None,
                                  w["listing"][name][ks[0]], listing[ks[0]]))
        elif pickle.dumps([st.fmts[n] for n in w["names"]], 2) != w["pickled"]:
            # cheap screen said "maybe": the full-vars fingerprint decides
            for n in w["names"]:
                if canon(st.fmts[n]) != w["canon"][n]:
                    vs.append(report.viol("format-altered:state", "parse altered the internal state of a format (%s; request used %s)" % (n, name), None))
                    break

        # a new instance in this process must agree with the process-fresh table too
        if not vs:
            here = fresh_outcome(req)
            if here != exp:
                vs.append(report.viol("new-instance-not-fresh", "a new parser instance is influenced by parses done with another instance",
                                      None, exp, here))

        if any(v["sig"].startswith("format-altered") for v in vs):
            # the formats are shared by all states of this process: never keep exploring on altered ones
            global _WORLD
            _WORLD = None

        # results and raw arguments handed out earlier are unchanged
        for i, (ereq, eargs, eviews, eraw, eraw_snap) in enumerate(st.earlier):
            if eargs is not None:
                now = views(eargs)
                if now != eviews:
                    k = [k for k in sorted(eviews) if eviews[k] != now[k]][0]
                    vs.append(report.viol("earlier-result-changed:" + k,
                                          "the result of request #%d changed after a later parse on the same parser (%s)" % (i + 1, k),
                                          None, eviews[k], now[k]))
                    break
            if raw_snapshot(eraw) != eraw_snap:
                vs.append(report.viol("earlier-rawargs-changed", "raw arguments of request #%d changed after a later parse" % (i + 1),
                                      None, eraw_snap, raw_snapshot(eraw)))
                break
        st.earlier.append((req, args, got.get("ok"), raw, raw_before))
        return vs


def default_argv_probe():
    """ArgvArgs() without a list wraps the process's own sys.argv: wrapping it (three times over) and parsing must leave
    sys.argv as it was, and every wrap must see the same script name and tokens."""
    import sys
    from clikit.api.args.format import ArgsFormat, Argument, Option
    from clikit.args import ArgvArgs
    from clikit.args.default_args_parser import DefaultArgsParser
    saved = sys.argv
    mine = ["prog", "srv", "--port", "80", "--", "x"]
    case = {"probe": "default-argv"}
    try:
        sys.argv = list(mine)
        fmt = ArgsFormat([Option("port", "p", Option.REQUIRED_VALUE), Argument("items", Argument.MULTI_VALUED)])
        seen = []
        for _ in range(3):
            raw = ArgvArgs()
            seen.append((raw.script_name, list(raw.tokens)))
            DefaultArgsParser().parse(raw, fmt, True)
            if sys.argv != mine:
                return [report.viol("argv-altered:sys.argv", "wrapping / parsing the process's own argument list (ArgvArgs() without a "
                                    "list) altered sys.argv", case, mine, list(sys.argv))]
        if any(x != ("prog", mine[1:]) for x in seen):
            return [report.viol("argv-altered:sys.argv:tokens", "ArgvArgs() sees another script name / other tokens when sys.argv is "
                                "wrapped again", case, ["prog", mine[1:]], [list(x) for x in seen])]
    except Exception as e:  # noqa
        return [report.viol("crash:" + report.exc_site(e), "ArgvArgs() / parse raised %r" % (e,), case)]
    finally:
        sys.argv = saved
    return []


def odd_inputs_probe():
    """Two unusual but accepted inputs: (1) an optional-value option that is not multi-valued but whose default is a list,
    given without a value - the parse hands out that default and must not rewrite the format's own list; (2) an argv list
    with a bytes item - wrapping it must not rewrite the caller's list."""
    import copy
    from clikit.api.args.format import ArgsFormat, Option
    from clikit.args import ArgvArgs
    from clikit.args.default_args_parser import DefaultArgsParser
    vs = []
    try:
        for flags, default in ((Option.OPTIONAL_VALUE, [80, 443]), (Option.OPTIONAL_VALUE | Option.INTEGER, ["80", "7"])):
            opt = Option("ports", "p", flags, default=default)
            fmt = ArgsFormat([opt])
            before = copy.deepcopy(opt.default)
            for lenient in (False, True):
                try:
                    DefaultArgsParser().parse(ArgvArgs(["prog", "--ports"]), fmt, lenient)
                except ValueError:
                    pass
                if opt.default != before or [type(x) for x in opt.default] != [type(x) for x in before]:
                    vs.append(report.viol("format-altered:option-default", "parsing a bare optional-value option rewrote the default list of the "
                                          "format's option", {"probe": "odd-inputs"}, before, opt.default))
                    break
        argv = ["prog", b"--port", "80"]
        mine = list(argv)
        ArgvArgs(argv)
        if argv != mine or [type(x) for x in argv] != [type(x) for x in mine]:
            vs.append(report.viol("argv-altered:wrap:bytes-item", "ArgvArgs(argv) altered the caller's list (a bytes item)", {"probe": "odd-inputs"},
                                  [repr(x) for x in mine], [repr(x) for x in argv]))
    except Exception as e:  # noqa
        vs.append(report.viol("crash:" + report.exc_site(e), "odd-inputs probe raised %r" % (e,), {"probe": "odd-inputs"}))
    return vs


def replay(case):
    if isinstance(case, dict) and case.get("probe") == "odd-inputs":
        vs = odd_inputs_probe()
        return vs[0] if vs else None
    if isinstance(case, dict) and case.get("probe") == "default-argv":
        vs = default_argv_probe()
        return vs[0] if vs else None
    return explore.replay(Spec(), case)


def all_sequences(spec, depth, vio_cap=20):
    """No-dedup enumeration of every request sequence of length <= depth.  A sequence is judged at its
    last request only (its prefixes are judged as sequences of their own); the state before the last
    request is re-created from a new parser by re-executing the prefix."""
    reqs = spec.requests
    n = len(reqs)

    def run(prefix, acc):
        """judge prefix+r for every r; descend.  acc = [count, violations]"""
        for r in reqs:
            st = spec.rebuild_light(prefix)
            vs = spec.apply(st, r)
            acc[0] += 1
            h = prefix + (r,)
            if vs:
                for v in vs:
                    v["case"] = {"history": [list(o) for o in h]}
                acc[1].extend(vs[: max(0, vio_cap - len(acc[1]))])
                continue
            if len(h) < depth and len(acc[1]) < vio_cap:
                run(h, acc)

    # lengths 1..2 in this process (simplest first), deeper ones fanned out by their length-2 prefix
    acc = [0, []]
    top = min(2, depth)
    seeds = []

    def shallow(prefix):
        for r in reqs:
            st = spec.rebuild_light(prefix)
            vs = spec.apply(st, r)
            acc[0] += 1
            h = prefix + (r,)
            if vs:
                for v in vs:
                    v["case"] = {"history": [list(o) for o in h]}
                acc[1].extend(vs)
            elif len(h) < top:
                shallow(h)
            elif len(h) < depth:
                seeds.append(h)

    shallow(())
    if acc[1] or not seeds:
        return acc[0], acc[1]

    def work(share):
        a = [0, []]
        for h in share:
            run(h, a)
        return a

    total, vs = acc
    for c, v in par.pmap(work, par.chunks(seeds, max(1, common.ncpu() * 4))):
        total += c
        vs.extend(v)
    return total, vs


def main():
    # belt: a changed clikit that grows its state without bound must end as an error, not eat the machine
    resource.setrlimit(resource.RLIMIT_AS, (6 << 30, 6 << 30))
    rep = report.Report(PID, "model_checking")
    thorough = rep.tier == "thorough"
    # VERIF_SEED rotates one extra request into the alphabet of the closed-graph run (core always covered)
    extras = [
        ("p", "F2", ("srv", "--", "add", "h"), False, "argv"),
        ("p", "F2", ("server", "-p", "x"), True, "argv"),
        ("c", "alpha", ("--foo",), True, "argv"),
        ("p", "F1", ("-o", "v", "-o"), False, "str"),
    ]
    extra = _norm(extras[rep.seed % len(extras)])
    core = [_norm(r) for r in REQUESTS]
    table = fresh_table(core + [extra])  # before anything is parsed in this process
    _TABLE.update(table)
    outcomes = collections.Counter("ok" if "ok" in o else o["raised"] for o in table.values())

    rep.merge(default_argv_probe())
    rep.merge(odd_inputs_probe())
    rep.part("default-argv-probe", what="ArgvArgs() over the process's own sys.argv (a list), wrapped and parsed three times: sys.argv unchanged, "
                                        "same script name and tokens every time")
    spec = Spec(core + [extra], table)
    aborted = False
    depth = 8 if thorough else 6
    # (a parser whose reachable states do not converge - e.g. one that accumulates something per parse - is cut off at a
    #  state cap: the closed-graph claim is then not made, the per-sequence part below still judges every short history)
    r = explore.explore(spec, depth, split_depth=1, dedup=True, max_states=20000)
    rep.merge(r.violations)
    rep.part("closed-graph", depth_bound=depth, alphabet_size=len(spec.requests), dedup=True, **r.as_dict())
    rep.set("graph_closed", bool(r.closed and not r.violations))
    rep.set("states", r.states)
    transitions = r.transitions
    for s in r.samples[:2]:
        rep.sample({"run": "closed-graph", "history": s})
    if r.violations:
        aborted = True

    nd_depth = 5 if thorough else 4
    n = len(core)
    count = 0
    if not aborted:
        nd = Spec(core, table)
        count, vs = all_sequences(nd, nd_depth)
        rep.merge(vs)
        aborted = bool(vs)
        rep.part("all-sequences", max_length=nd_depth, alphabet_size=n, dedup=False, sequences=count,
                 complete=(count == sum(n ** L for L in range(1, nd_depth + 1))))
        rep.sample({"run": "all-sequences", "history": [list(core[1]), list(core[0])]})
        rep.sample({"run": "all-sequences", "history": [list(core[(7 * i) % n]) for i in range(1, nd_depth + 1)]})
    # which requests leave the parser in a state different from a new parser's (measured by fingerprint)
    leavers = 0
    k0 = None if aborted else spec.key(State())
    for r in ([] if aborted else core):
        st = spec.rebuild_light((r,))
        if spec.key(st) != k0:
            leavers += 1

    rep.set("evaluations", count + transitions)
    rep.set("transitions", count + transitions)
    rep.set("traces_validated_against_impl", count + transitions)
    # non-trivial: sequences (length >= 2) in which some request before the last one leaves scratch state behind
    nontriv = sum((n ** (L - 1) - (n - leavers) ** (L - 1)) * n for L in range(2, nd_depth + 1)) if not aborted else 0
    rep.set("distinct_nontrivial", nontriv)
    rep.set("requests_leaving_state", leavers)
    rep.set("rule", "closed graph: BFS over the %d-request alphabet with full-state dedup until no new state; all-sequences: every "
                    "sequence of length <= %d over the %d core requests, each executed on one real DefaultArgsParser and judged at its last "
                    "request.  non-trivial = sequences of length >= 2 in which a request before the last leaves the parser in a state whose "
                    "fingerprint differs from a new parser's (%d of %d requests do, measured); counted over the all-sequences part"
                    % (len(spec.requests), nd_depth, n, leavers, n))
    rep.set("fresh_outcomes", dict(outcomes))
    rep.set("rotated_request", list(extra))
    rep.set("exhaustive", not aborted)
    if aborted:
        rep.set("stopped", "exploration stops at the first violating transitions; deeper sequences were not enumerated")
    rep.assume("dict key order of Args.options()/arguments() is not compared (statement speaks of the result, dict equality ignores order)")
    rep.assume("a result that shares no mutable object with the parser's state (instance, class, module) cannot be changed by a later parse; "
               "only results that do are part of the fingerprint")
    rep.assume("formats handed to the parser are leaves of the fingerprint: each transition checks separately that they are unchanged")
    rep.assume("the two commands' configs are (re)pointed at the parser under test with Config.set_args_parser before each command request")
    return rep.finish()
