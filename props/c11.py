"""C11 - decoration changes only the look: same text, right codes, none when plain.

Four parts, all executed on the real clikit classes (DESIGN.md '### C11'):

 (a) E1  every balanced message (ordered forest of <= N nodes) over named styles of the default style
         set, inline styles, unknown tags, literal '<' / '>' that cannot form a tag, newlines and
         non-ASCII text:  strip_sgr(ansi.format(m)) == plain.format(m) == ansi.remove_format(m)
         == the text known by construction; no ESC and no registered markup in plain renderings.
 (b) E1  every style (fg x bg x 2^7 attribute sets) through the style set, add_style and
         format(style=...): the SGR codes in force on the styled text are exactly the ECMA-48 codes
         of that style, the text is unchanged, the surrounding text is undecorated.
 (c) E1  every line-writing method found by reflection (name contains 'line') x receiver kind x
         ANSI/plain: the stream receives text + exactly one newline.
 (d) E2  explicit-state exploration of all indentation scope histories with nesting depth <= D
         (open io/output/error_output x set/increment x n, close normally / by exception) against a
         reference indentation stack; full-vars fingerprints, *global* deduplication (layered_bfs below:
         one parallel fan-out per BFS level, because mc.explore deduplicates per worker share and then
         cannot tell that the graph closed), run until the frontier is empty = the verdict holds for
         histories of any length within the nesting bound.  Plus a no-dedup run through mc.explore and all
         pure nestings as real `with` statements with every raise/catch level.

Decisions about what is NOT demanded (statement silent):
 * unknown tags: only that all renderings agree and that the text is the constructed one with the
   unknown markup either kept verbatim or dropped (clikit/pastel keep it);
 * backslash escapes, upper-case tags, invalid colours in inline tags, unbalanced messages: not in the alphabet;
 * how nested styles combine (pastel: innermost only): not demanded, only that no SGR code foreign
   to the styles used in the message appears;
 * the trailing reset sequence: only its effect (text after the styled text is undecorated);
 * texts that themselves end in '\\n' for line-writing methods (write_line keeps it, write_line_raw strips it);
 * raw writes and section outputs under indentation; whether Indent.__exit__ swallows exceptions;
 * Output.add_style / IO.add_style (inherited from Formatter, raise NotImplementedError): styles are added on the formatter.
Demanded although the statement only says "non-empty lines are prefixed": an empty line of the message stays
empty under indentation (anchor: "number of spaces prefixed to each non-empty line"); own signature
d:empty-line-indented so that it can be told apart.
"""
import inspect
import itertools
import os
import re

from mc import common, explore, par, report
from mc.fingerprint import canon
from mc.term import Term, Unsupported, strip_sgr

PID = "C11"

# ------------------------------------------------------------------------------------------------
# ECMA-48 / aixterm SGR table (written down here, independent of pastel's tables)
# ------------------------------------------------------------------------------------------------
FG = {
    "black": 30, "red": 31, "green": 32, "yellow": 33, "blue": 34, "magenta": 35, "cyan": 36,
    "light_gray": 37, "default": 39, "dark_gray": 90, "light_red": 91, "light_green": 92,
    "light_yellow": 93, "light_blue": 94, "light_magenta": 95, "light_cyan": 96, "white": 97,
}
BG = {k: v + 10 for k, v in FG.items()}
# attribute -> (Style setter, SGR code, pastel option name used in inline tags)
ATTRS = [("bold", 1, "bold"), ("dark", 2, "dark"), ("italic", 3, "italic"), ("underlined", 4, "underline"),
         ("blinking", 5, "blink"), ("inverse", 7, "reverse"), ("hidden", 8, "conceal")]
CORE_COLOURS = [None, "black", "red", "green", "yellow", "blue", "magenta", "cyan", "white", "default"]
ALL_COLOURS = [None] + sorted(FG, key=lambda c: FG[c])
EXTRA_COLOURS = [c for c in ALL_COLOURS if c not in CORE_COLOURS]

_SGR_RE = re.compile(r"\x1b\[([0-9;]*)m")


def sgr_chars(s):
    """Interpret SGR sequences: -> list of (character, frozenset of SGR codes in force).  Any other
    escape stays in the text (and therefore shows up as a text difference)."""
    active = set()
    out = []
    pos = 0
    for m in _SGR_RE.finditer(s):
        if m.start() > pos:
            fs = frozenset(active)
            out.extend((ch, fs) for ch in s[pos:m.start()])
        for p in (m.group(1).split(";") if m.group(1) else ["0"]):
            c = int(p or 0)
            if c == 0:
                active.clear()
            else:
                active.add(c)
        pos = m.end()
    if pos < len(s):
        fs = frozenset(active)
        out.extend((ch, fs) for ch in s[pos:])
    return out


def sgr_params(s):
    out = set()
    for m in _SGR_RE.finditer(s):
        for p in (m.group(1).split(";") if m.group(1) else ["0"]):
            out.add(int(p or 0))
    return out


def style_codes(fg, bg, attrs):
    codes = set()
    if fg:
        codes.add(FG[fg])
    if bg:
        codes.add(BG[bg])
    for name, code, _ in ATTRS:
        if name in attrs:
            codes.add(code)
    return codes


def codes_of_style_object(style):
    """Expected SGR codes of a clikit Style read through its public accessors only."""
    attrs = set()
    for name, _, _ in ATTRS:
        getter = {"underlined": "is_underlined", "blinking": "is_blinking"}.get(name, "is_" + name)
        if getattr(style, getter)():
            attrs.add(name)
    return style_codes(style.foreground_color, style.background_color, attrs)


def make_style(tag, fg, bg, attrs):
    from clikit.api.formatter import Style
    s = Style(tag)
    if fg:
        s.fg(fg)
    if bg:
        s.bg(bg)
    for name, _, _ in ATTRS:
        if name in attrs:
            getattr(s, name)()
    return s


def _ansi(style_set=None):
    from clikit.formatter import AnsiFormatter
    return AnsiFormatter(style_set, forced=True)


def _plain(style_set=None):
    from clikit.formatter import PlainFormatter
    return PlainFormatter(style_set)


# ================================================================================================
# (a) messages
# ================================================================================================
# A literal '<' always carries, inside its own atom, a follower that cannot start a tag (the tag
# grammar needs a letter or '/' right after '<'), so no concatenation of atoms forms a new tag.
TEXT_ATOMS = ["a", " b", "é", "日本☃", "\n", "< ", "<3", ">", "<>", "=>"]
SEED_ATOMS = ["ñß", "Ω→", "\U0001f600", "да"]
UNKNOWN_ATOMS = ["<bar>", "<x=y>"]  # not <foo>: the unknown wrapper is <foo>..</foo>, and tree -> string must stay injective
NAMED = ["info", "comment", "question", "error", "b", "u", "c1", "c2"]
# inline styles: (open, close, fg, bg, attribute names)
INLINE = [
    ("<fg=red>", "</>", "red", None, ()),
    ("<bg=blue>", "</bg=blue>", None, "blue", ()),
    ("<fg=green;bg=black;options=bold,underline>", "</>", "green", "black", ("bold", "underlined")),
    ("<options=blink>", "</options=blink>", None, None, ("blinking",)),
    ("<options=bold;fg=yellow>", "</>", "yellow", None, ("bold",)),
]
_MY_TAG = re.compile(r"<(?:[A-Za-z][A-Za-z0-9,_=;-]*|/(?:[A-Za-z][A-Za-z0-9,_=;-]*)?)>")  # own tokenizer, used for generator self-checks only

B_TEXT, B_UNK, B_REG, B_DECO = 1 << 20, 1 << 21, 1 << 22, 1 << 23


class Alphabet(object):
    """leaves: (markup, keep, drop, flags); wrappers: (open, close, registered, index)"""

    def __init__(self, name, texts, unknown_atoms, named, named_short, inline_idx, unknown_wrapper):
        self.name = name
        self.leaves = [(t, t, t, B_TEXT) for t in texts]
        self.leaves += [(u, u, "", B_UNK) for u in unknown_atoms]
        self.wrappers = []
        self.wrapper_codes = []  # filled by bind_codes (needs clikit)
        self.wrapper_desc = []
        for t in named:
            self.wrappers.append(("<%s>" % t, "</%s>" % t, True))
            self.wrapper_desc.append(("named", t))
        for t in named_short:
            self.wrappers.append(("<%s>" % t, "</>", True))
            self.wrapper_desc.append(("named", t))
        for i in inline_idx:
            self.wrappers.append((INLINE[i][0], INLINE[i][1], True))
            self.wrapper_desc.append(("inline", i))
        if unknown_wrapper:
            self.wrappers.append(("<foo>", "</foo>", False))
            self.wrapper_desc.append(("unknown", None))
        assert len(self.wrappers) <= 20
        self._T = {}
        self._F = {0: [("", "", "", 0)]}

    def bind_codes(self):
        from clikit.formatter import DefaultStyleSet
        styles = DefaultStyleSet().styles
        self.wrapper_codes = []
        for kind, x in self.wrapper_desc:
            if kind == "named":
                self.wrapper_codes.append(frozenset(codes_of_style_object(styles[x])))
            elif kind == "inline":
                self.wrapper_codes.append(frozenset(style_codes(INLINE[x][2], INLINE[x][3], set(INLINE[x][4]))))
            else:
                self.wrapper_codes.append(frozenset())

    def wrap(self, j, f):
        o, c, reg = self.wrappers[j]
        m, keep, drop, fl = f
        nf = fl | (1 << j)
        if reg:
            nf |= B_REG
            if fl & B_TEXT:
                nf |= B_DECO
            return (o + m + c, keep, drop, nf)
        return (o + m + c, o + keep + c, drop, nf | B_UNK)

    def trees(self, k):
        if k not in self._T:
            out = []
            if k == 1:
                out.extend(self.leaves)
            sub = self.forests(k - 1)
            for j in range(len(self.wrappers)):
                out.extend(self.wrap(j, f) for f in sub)
            self._T[k] = out
        return self._T[k]

    def forests(self, n):
        if n not in self._F:
            out = []
            for k in range(1, n + 1):
                rest = self.forests(n - k)
                for t in self.trees(k):
                    for r in rest:
                        out.append((t[0] + r[0], t[1] + r[1], t[2] + r[2], t[3] | r[3]))
            self._F[n] = out
        return self._F[n]

    def count(self, n):
        L, W = len(self.leaves), len(self.wrappers)
        F, T = {0: 1}, {}
        for m in range(1, n + 1):
            T[m] = (L if m == 1 else 0) + W * F[m - 1]
            F[m] = sum(T[k] * F[m - k] for k in range(1, m + 1))
        return F[n]

    def units(self, n):
        """Work units for exactly n nodes: (n, k, j) = first tree has k nodes and root label j
        (j < len(leaves): leaf, else wrapper j-len(leaves))."""
        out = []
        for k in range(1, n + 1):
            labels = range(len(self.leaves) + len(self.wrappers)) if k == 1 else range(len(self.leaves), len(self.leaves) + len(self.wrappers))
            for j in labels:
                out.append((n, k, j))
        return out

    def unit_messages(self, unit):
        n, k, j = unit
        L = len(self.leaves)
        if j < L:
            firsts = [self.leaves[j]]
        else:
            firsts = [self.wrap(j - L, f) for f in self.forests(k - 1)]
        rest = self.forests(n - k)
        for t in firsts:
            for r in rest:
                yield (t[0] + r[0], t[1] + r[1], t[2] + r[2], t[3] | r[3])

    def allowed_codes(self, flags):
        out = set()
        for j in range(len(self.wrappers)):
            if flags & (1 << j):
                out |= self.wrapper_codes[j]
        return out


def alphabets(seed):
    extra = SEED_ATOMS[seed % len(SEED_ATOMS)]
    full = Alphabet("full", TEXT_ATOMS + [extra], UNKNOWN_ATOMS, NAMED, ["b"], [0, 1, 2, 3, 4], True)
    large = Alphabet("large", ["a", " b", "é", "日本☃", "\n", "< ", ">", "<>"], ["<bar>"],
                     ["info", "error", "b", "u", "c1"], ["b"], [0, 2, 3], True)
    medium = Alphabet("medium", ["a", " b", "日本☃", "\n", "< ", ">"], ["<bar>"],
                      ["info", "error"], ["b"], [0, 2, 3], True)
    return {"full": full, "large": large, "medium": medium}


class Renderers(object):
    """One set of formatters / outputs, as a user would hold them."""

    def __init__(self, with_outputs=False):
        from clikit.api.io import Output
        from clikit.formatter import DefaultStyleSet, NullFormatter
        from clikit.io.output_stream import BufferedOutputStream
        self.ansi = _ansi()
        self.plain = _plain()
        self.tags = sorted(DefaultStyleSet().styles)
        self.markup = ["<%s>" % t for t in self.tags] + ["</%s>" % t for t in self.tags] + ["</>"]
        self.with_outputs = with_outputs
        if with_outputs:
            from clikit.formatter import AnsiFormatter

            class AnsiCapableStream(BufferedOutputStream):
                def supports_ansi(self):
                    return True

            self.sa, self.sp = BufferedOutputStream(), BufferedOutputStream()
            self.oa, self.op = Output(self.sa, self.ansi), Output(self.sp, self.plain)
            # the decoration switch of Output: an unforced ANSI formatter decorates only on a stream that supports ANSI
            self.sn, self.sc = BufferedOutputStream(), AnsiCapableStream()
            self.on, self.oc = Output(self.sn, AnsiFormatter()), Output(self.sc, AnsiFormatter())
            self.outs = [("forced-ansi", self.oa, self.sa, True), ("plain", self.op, self.sp, False),
                         ("unforced-ansi-on-dumb-stream", self.on, self.sn, False), ("unforced-ansi-on-ansi-stream", self.oc, self.sc, True)]
            self.null = NullFormatter()


def check_message(R, msg, keep, drop, allowed, outputs=False, deco=False):
    """-> (sig, what, expected, observed) or None"""
    try:
        raw = R.ansi.format(msg)
        P = R.plain.format(msg)
        RF = R.ansi.remove_format(msg)
        PRF = R.plain.remove_format(msg)
    except Exception as e:
        return ("a:crash:" + report.exc_site(e), "formatting %r raised %r" % (msg, e), None, repr(e))
    A = strip_sgr(raw)
    obs = {"ansi_raw": raw, "ansi_stripped": A, "plain": P, "ansi.remove_format": RF, "plain.remove_format": PRF}
    if A != P:
        return ("a:ansi-stripped!=plain", "stripped ANSI rendering differs from the plain rendering of %r" % msg, keep, obs)
    if RF != P:
        return ("a:remove_format!=plain", "ansi.remove_format differs from the plain rendering of %r" % msg, keep, obs)
    if PRF != P:
        return ("a:plain.remove_format!=plain", "plain.remove_format differs from plain.format for %r" % msg, keep, obs)
    for name, s in (("plain", P), ("ansi.remove_format", RF), ("plain.remove_format", PRF)):
        if "\x1b" in s:
            return ("a:esc-in-undecorated", "%s of %r contains an escape byte" % (name, msg), keep, obs)
    for mk in R.markup:
        if mk in P:
            return ("a:registered-markup-in-plain", "plain rendering of %r still contains %s" % (msg, mk), keep, obs)
    if P != keep and P != drop:
        return ("a:text-changed", "renderings of %r agree but are not the constructed text" % msg, keep, obs)
    if deco and not (sgr_params(raw) & allowed):
        return ("a:not-decorated", "ANSI rendering of %r carries no SGR code although text stands inside a registered style" % msg, sorted(allowed), obs)
    foreign = sgr_params(raw) - allowed - {0}
    if foreign:
        return ("a:foreign-sgr-code", "ANSI rendering of %r uses SGR codes %s of no style in the message" % (msg, sorted(foreign)),
                sorted(allowed), obs)
    if outputs:
        for oname, o, s, ansi in R.outs:
            s.clear()
            try:
                o.write(msg)
                w = s.fetch()
                s.clear()
                o.write_line(msg)
                wl = s.fetch()
                s.clear()
            except Exception as e:
                return ("a:crash:" + report.exc_site(e), "writing %r raised %r" % (msg, e), None, repr(e))
            if not ansi and ("\x1b" in w or "\x1b" in wl):
                return ("a:esc-on-undecorated-output:" + oname, "undecorated Output (%s) emitted an escape byte for %r" % (oname, msg), P, {"write": w, "write_line": wl})
            if strip_sgr(w) != P or strip_sgr(wl) != P + "\n":
                return ("a:output-text:" + oname, "Output.write/write_line of %r on a %s output shows a different text" % (msg, oname),
                        P, {"write": w, "write_line": wl})
            if ansi and deco and not (sgr_params(w) & allowed):
                return ("a:not-decorated:" + oname, "Output.write of %r on a %s output carries no SGR code of its styles" % (msg, oname), sorted(allowed), w)
        if R.null.format(msg) != msg or R.null.remove_format(msg) != msg:
            return ("a:null-formatter", "NullFormatter changed %r" % msg, msg, R.null.format(msg))
    return None


def _selfcheck_generator(alpha, n):
    """Harness self-check (engine error if it fails): in every generated message up to n nodes the tags
    found by my own tokenizer are exactly wrapper tags / unknown atoms, properly nested."""
    known_open = {}
    for w in alpha.wrappers:
        known_open.setdefault(w[0], set()).add(w[1])
    unk = {l[0] for l in alpha.leaves if l[3] & B_UNK}
    for w in alpha.wrappers:
        if not w[2]:
            unk |= {w[0], w[1]}  # unknown markup is text as far as balance goes
    for k in range(n + 1):
        for (m, keep, drop, fl) in alpha.forests(k):
            stack = []
            for t in _MY_TAG.finditer(m):
                tok = t.group(0)
                if tok in unk:
                    continue
                if tok in known_open and not tok.startswith("</"):
                    stack.append(known_open[tok])
                else:
                    if not stack or tok not in stack.pop():
                        raise RuntimeError("engine error: generator produced unbalanced message %r" % m)
            if stack:
                raise RuntimeError("engine error: generator produced unbalanced message %r" % m)
            if "\\" in m:
                raise RuntimeError("engine error: backslash in %r" % m)


def part_a(rep):
    al = alphabets(rep.seed)
    for a in al.values():
        a.bind_codes()
    if rep.tier == "thorough":
        plan = [("full", n, n <= 3) for n in range(0, 5)] + [("medium", 5, False)]
    else:
        plan = [("full", n, True) for n in range(0, 4)] + [("large", 4, False)]
    _selfcheck_generator(al["full"], 2)
    _selfcheck_generator(al["large"], 2)
    _selfcheck_generator(al["medium"], 3)
    units = []
    for aname, n, outs in plan:
        a = al[aname]
        a.forests(max(0, n - 1))  # memoise before forking
        if n == 0:
            units.append((aname, (0, 0, 0), outs))
        else:
            units.extend((aname, u, outs) for u in a.units(n))
    count_strings = rep.tier != "thorough"

    def work(unit):
        aname, u, outs = unit
        a = al[aname]
        R = Renderers(with_outputs=outs)
        msgs = [a.forests(0)[0]] if u[0] == 0 else a.unit_messages(u)
        n = nt = 0
        vs = {}
        hashes = set()
        prev = None
        for (m, keep, drop, fl) in msgs:
            n += 1
            if fl & B_DECO:
                nt += 1
            if count_strings:
                hashes.add(hash(m))
            deco = bool(fl & B_DECO)
            r = check_message(R, m, keep, drop, a.allowed_codes(fl), outs, deco)
            if r is not None:
                case = {"part": "a", "msg": m, "keep": keep, "drop": drop, "allowed": sorted(a.allowed_codes(fl)), "outputs": outs, "deco": deco}
                fresh = check_message(Renderers(with_outputs=outs), m, keep, drop, a.allowed_codes(fl), outs, deco)
                if fresh is None or fresh[0] != r[0]:
                    # only fails after an earlier message went through the same formatter objects
                    case["prev"] = prev
                    r = ("a:depends-on-previous-message:" + r[0][2:],) + r[1:]
                    R = Renderers(with_outputs=outs)
                if r[0] not in vs and len(vs) < 20:
                    vs[r[0]] = report.viol(r[0], r[1], case, r[2], r[3])
            prev = m
        return n, nt, list(vs.values()), hashes if count_strings else None

    tot = nt = 0
    allh = set()
    per = {}
    for unit, (n, t, vs, hs) in zip(units, par.pmap(work, units)):
        tot += n
        nt += t
        rep.merge(vs)
        key = "%s/n=%d" % (unit[0], unit[1][0])
        per[key] = per.get(key, 0) + n
        if hs is not None:
            allh |= hs
    for (aname, n, outs) in plan:
        if n and per.get("%s/n=%d" % (aname, n)) != al[aname].count(n):
            raise RuntimeError("engine error: enumerated %r messages for %s n=%d, closed form says %d" % (
                per.get("%s/n=%d" % (aname, n)), aname, n, al[aname].count(n)))
    rep.part("a_messages", plan=[{"alphabet": a, "nodes": n, "also_through_Output": o, "messages": per.get("%s/n=%d" % (a, n), 0)} for a, n, o in plan],
             alphabets={k: {"leaves": [l[0] for l in v.leaves], "wrappers": [w[0] + ".." + w[1] for w in v.wrappers]} for k, v in al.items()},
             messages=tot, decorated_text_messages=nt, distinct_message_strings=(len(allh) if count_strings else "not measured in thorough tier (memory); trees are distinct by construction"))
    for s in (al["full"].forests(3)[5000], al["full"].forests(3)[40000], al["large"].forests(2)[200]):
        rep.sample({"part": "a", "msg": s[0], "text": s[1]})
    return tot, nt


def replay_a(case):
    R = Renderers(with_outputs=case.get("outputs", False))
    if case.get("prev") is not None:
        check_message(R, case["prev"], None, None, set(), case.get("outputs", False))
    r = check_message(R, case["msg"], case["keep"], case["drop"], set(case["allowed"]), case.get("outputs", False), case.get("deco", False))
    if r is None:
        return None
    return report.viol(r[0], r[1], case, r[2], r[3])


# ================================================================================================
# (b) styles
# ================================================================================================
B_TEXT_STYLED = "héllo\nwörld <3"
B_PRE, B_POST = "pre ", " post"
B_MIXED = "hé<b>l</b>lo"            # text with a nested tag, for format(style=): 'hé' and 'lo' carry the style
B_NEXT = " po<u>s</u>t"             # the call after format(style=): must not inherit the style
ANY = "any"


def _cmp_segments(got_raw, segments):
    """segments: [(text, expected code set | ANY, is_styled_text)].  None if ok else (kind, detail)"""
    got = sgr_chars(got_raw)
    text = "".join(c for c, _ in got)
    want = "".join(t for t, _, _ in segments)
    if text != want:
        return "text", text
    pos = 0
    wrong_styled, wrong_rest = set(), set()
    for t, codes, styled in segments:
        part = got[pos:pos + len(t)]
        pos += len(t)
        if codes == ANY:
            continue
        fs = frozenset(codes)
        for _, g in part:
            if g != fs:
                (wrong_styled if styled else wrong_rest).add(tuple(sorted(g)))
    if wrong_rest:
        return "bleed", {"codes_on_surrounding_text": sorted(wrong_rest)}
    if wrong_styled:
        return "codes", {"codes_on_styled_text": sorted(wrong_styled)}
    return None


def check_style(fg, bg, attrs):
    """All ways of supplying one style.  -> list of (sig, what, expected, observed)"""
    from clikit.api.formatter import StyleSet
    from clikit.api.io import Output
    from clikit.io import BufferedIO
    from clikit.io.output_stream import BufferedOutputStream
    attrs = set(attrs)
    codes = style_codes(fg, bg, attrs)
    tagged = "%s<s0>%s</s0>%s" % (B_PRE, B_TEXT_STYLED, B_POST)
    plain_text = B_PRE + B_TEXT_STYLED + B_POST
    seg_tagged = [(B_PRE, (), False), (B_TEXT_STYLED, codes, True), (B_POST, (), False)]
    seg_next = [(" po", (), False), ("s", {4}, False), ("t", (), False)]
    seg_single = [(B_TEXT_STYLED, codes, True)] + seg_next
    seg_mixed = [("hé", codes, True), ("l", ANY, False), ("lo", codes, True)] + seg_next
    out = []

    def ansi_case(way, raw, segments=seg_tagged):
        r = _cmp_segments(raw, segments)
        if r:
            out.append(("b:%s:%s" % (r[0], way), "style fg=%s bg=%s %s via %s: %s wrong" % (fg, bg, sorted(attrs), way, r[0]),
                        {"codes": sorted(codes), "text": "".join(x[0] for x in segments)}, {"raw": raw, "detail": r[1]}))

    def plain_case(way, got, want=plain_text):
        if got != want:
            kind = "esc" if "\x1b" in got else ("markup" if "s0>" in got else "text")
            out.append(("b:plain-%s:%s" % (kind, way), "plain rendering via %s of style fg=%s bg=%s %s" % (way, fg, bg, sorted(attrs)), want, got))

    try:
        # 1. registered in the style set at construction
        ss = StyleSet([make_style("s0", fg, bg, attrs)])
        f1 = _ansi(ss)
        ansi_case("style_set", f1.format(tagged))
        plain_case("style_set", _plain(ss).format(tagged))
        plain_case("style_set.remove_format", f1.remove_format(tagged))
        # 2. added later
        f2 = _ansi()
        f2.add_style(make_style("s0", fg, bg, attrs))
        ansi_case("add_style", f2.format(tagged))
        p2 = _plain()
        p2.add_style(make_style("s0", fg, bg, attrs))
        plain_case("add_style", p2.format(tagged))
        plain_case("add_style.remove_format", f2.remove_format(tagged))
        # 2a. ... and only there: to any other formatter (created before or after) the tag is still unknown markup
        for way, other in (("other-plain-formatter", _plain()), ("other-ansi-formatter", _ansi())):
            seen = other.format(tagged) if way.startswith("other-plain") else strip_sgr(other.format(tagged))
            if "s0>" not in seen:
                out.append(("b:style-leaked-to:" + way, "a style added to one formatter is applied by another formatter object", tagged, seen))
        # 2d. added through the formatter of an I/O that was built with its defaults: both of its outputs know the style
        bio = BufferedIO()
        bio.formatter.add_style(make_style("s0", fg, bg, attrs))
        bio.write(tagged)
        plain_case("add_style>BufferedIO().write", bio.fetch_output())
        bio.error(tagged)
        plain_case("add_style>BufferedIO().error", bio.fetch_error())
        # 2c. added under a tag that the formatter's style set already defines (the caller's style replaces it), on a
        #     formatter that has not formatted anything yet, and again after it has
        from clikit.formatter import DefaultStyleSet
        re_tagged = tagged.replace("s0>", "info>")
        f7 = _ansi(DefaultStyleSet())
        f7.add_style(make_style("info", fg, bg, attrs))
        ansi_case("add_style:redefines-default-tag", f7.format(re_tagged))
        plain_case("add_style:redefines-default-tag.remove_format", f7.remove_format(re_tagged))
        f8 = _ansi(DefaultStyleSet())
        f8.format(re_tagged)
        f8.add_style(make_style("info", fg, bg, attrs))
        ansi_case("add_style:redefines-default-tag:after-use", f8.format(re_tagged))
        # 2b. added later, seen through an Output that holds the formatter
        s = BufferedOutputStream()
        o = Output(s, f2)
        o.write(tagged)
        ansi_case("add_style>Output.write", s.fetch())
        sp = BufferedOutputStream()
        Output(sp, p2).write(tagged)
        plain_case("add_style>Output.write", sp.fetch())
        # 3. passed for a single call (an untagged style); the next call must not inherit it
        f3 = _ansi()
        st = make_style(None, fg, bg, attrs)
        ansi_case("format(style=)", f3.format(B_TEXT_STYLED, style=st) + f3.format(B_NEXT), seg_single)
        ansi_case("format(style=)+tags", f3.format(B_MIXED, style=st) + f3.format(B_NEXT), seg_mixed)
        plain_case("format(style=)", _plain().format(B_TEXT_STYLED, style=st), B_TEXT_STYLED)
        plain_case("format(style=)+tags", _plain().format(B_MIXED, style=st), "héllo")
        o3 = Output(BufferedOutputStream(), f3)
        ansi_case("Output.format(style=)", o3.format(B_TEXT_STYLED, style=st) + o3.format(B_NEXT), seg_single)
        io = BufferedIO(formatter=f3)
        ansi_case("IO.format(style=)", io.format(B_TEXT_STYLED, style=st) + io.format(B_NEXT), seg_single)
        ansi_case("IO.format(style=)+tags", io.format(B_MIXED, style=st) + io.format(B_NEXT), seg_mixed)
        plain_case("IO.format(style=)", BufferedIO().format(B_TEXT_STYLED, style=st), B_TEXT_STYLED)
        # 3c. a Style object is a mutable builder: used once, refined (one more attribute / the colours set afterwards),
        #     used again -> the second rendering shows the refined style, through format(style=) and through add_style
        if attrs or fg or bg:
            names = [a[0] for a in ATTRS if a[0] in attrs]
            first = set(names[:-1]) if names else set()
            f5 = _ansi()
            sm = make_style(None, fg if names else None, bg if names else None, first)
            f5.format(B_TEXT_STYLED, style=sm)
            if names:
                getattr(sm, names[-1])()
            else:
                if fg:
                    sm.fg(fg)
                if bg:
                    sm.bg(bg)
            ansi_case("format(style=):refined-object", f5.format(B_TEXT_STYLED, style=sm) + f5.format(B_NEXT), seg_single)
            f6 = _ansi()
            sn = make_style("s0", fg if names else None, bg if names else None, first)
            f6.add_style(sn)
            f6.format(tagged)
            if names:
                getattr(sn, names[-1])()
            else:
                if fg:
                    sn.fg(fg)
                if bg:
                    sn.bg(bg)
            f6.add_style(sn)
            ansi_case("add_style:refined-object", f6.format(tagged))
        # 3b. a single-call style given together with an empty or tags-only text: nothing to decorate,
        #     and the next (tagged) call on the same formatter must not inherit the style
        for way, empty in (("format(style=)+empty-text", ""), ("format(style=)+tags-only-text", "<b></b>")):
            f4 = _ansi()
            shown = strip_sgr(f4.format(empty, style=st))
            if shown != "":
                out.append(("b:text:" + way, "format(%r, style=) shows %r" % (empty, shown), "", shown))
            ansi_case(way, f4.format(B_NEXT), seg_next)
    except Exception as e:
        out.append(("b:crash:" + report.exc_site(e), "style fg=%s bg=%s %s raised %r" % (fg, bg, sorted(attrs), e), None, repr(e)))
    return out


def attr_sets():
    names = [a[0] for a in ATTRS]
    out = []
    for k in range(len(names) + 1):
        for c in itertools.combinations(names, k):
            out.append(list(c))
    return out  # 128, simplest first


def part_b(rep):
    extra = EXTRA_COLOURS[rep.seed % len(EXTRA_COLOURS)]
    colours = ALL_COLOURS if rep.tier == "thorough" else CORE_COLOURS + [extra]
    asets = attr_sets()
    cases = [(fg, bg, at) for at in asets for fg in colours for bg in colours]
    # simplest first: few attributes, then colours in list order (None first)

    def work(share):
        vs = {}
        n = 0
        for (fg, bg, at) in share:
            n += 1
            for (sig, what, exp, obs) in check_style(fg, bg, at):
                if sig not in vs and len(vs) < 20:
                    vs[sig] = (n, report.viol(sig, what, {"part": "b", "fg": fg, "bg": bg, "attrs": at, "sig": sig}, exp, obs))
        return n, list(vs.values())

    tot = 0
    best = {}
    for n, vs in par.pmap(work, par.chunks(cases, common.ncpu() * 4)):
        tot += n
        for (pos, v) in vs:
            if v["sig"] not in best or pos < best[v["sig"]][0]:
                best[v["sig"]] = (pos, v)
    rep.merge([v for _, v in sorted(best.values(), key=lambda x: x[0])])
    nontrivial = len([c for c in cases if style_codes(c[0], c[1], set(c[2]))])
    rep.part("b_styles", foreground_choices=colours, background_choices=colours, attribute_sets=len(asets),
             styles=tot, styles_with_at_least_one_code=nontrivial, renderings_per_style=17,
             ways=["StyleSet at construction", "add_style later (formatter, through Output)", "format(text, style=) on formatter / Output / IO"],
             rotated_colour=(None if rep.tier == "thorough" else extra))
    rep.sample({"part": "b", "fg": "red", "bg": "default", "attrs": ["bold", "hidden"], "expected_codes": sorted(style_codes("red", "default", {"bold", "hidden"}))})
    return tot, nontrivial


def replay_b(case):
    r = check_style(case["fg"], case["bg"], case["attrs"])
    if not r:
        return None
    want = case.get("sig")
    for x in r:
        if want is None or x[0] == want:
            return report.viol(x[0], x[1], case, x[2], x[3])
    return None  # the recorded failure is gone (others may remain; they have their own replay files)


# ================================================================================================
# (c) line-writing methods
# ================================================================================================
# (markup, visible text).  No text ends in '\n' (see module docstring).
C_TEXTS = [("", ""), ("a", "a"), ("héllo ☃", "héllo ☃"), ("<b>x</b> y", "x y"),
           ("a\n\nb", "a\n\nb"), ("x < y > z", "x < y > z"), ("<error>e\nf</error>", "e\nf"),
           # trailing blanks belong to the text (a prompt, a padded column)
           ("Password: ", "Password: "), ("  ", "  ")]


def _fmt(ansi):
    return _ansi() if ansi else _plain()


def receiver_kinds():
    """name -> builder(ansi) -> (receiver, [streams], is_section, lines already on screen above/below a section)"""
    from clikit.api.io import IO, Input, Output
    from clikit.io import BufferedIO
    from clikit.io.console_io import ConsoleIO
    from clikit.io.input_stream import StringInputStream
    from clikit.io.output_stream import BufferedOutputStream

    def out(ansi):
        s = BufferedOutputStream()
        return Output(s, _fmt(ansi)), [s], False

    def section(ansi):
        s = BufferedOutputStream()
        return Output(s, _fmt(ansi)).section(), [s], True

    def upper_section(ansi):
        s = BufferedOutputStream()
        o = Output(s, _fmt(ansi))
        first = o.section()
        low = o.section()
        low.write("low")  # Output.write on a section: in ANSI mode a line of content
        if not ansi:
            s.write("\n")
        return first, [s], True

    def bio(ansi):
        io = BufferedIO(formatter=_fmt(ansi))
        return io, [io.output.stream, io.error_output.stream], False

    def bio_section(ansi):
        io = BufferedIO(formatter=_fmt(ansi))
        return io.section(), [io.output.stream, io.error_output.stream], True

    def mk(cls):
        def build(ansi):
            so, se = BufferedOutputStream(), BufferedOutputStream()
            return cls(Input(StringInputStream("")), Output(so, _fmt(ansi)), Output(se, _fmt(ansi))), [so, se], False
        return build

    def mk_section(cls):
        def build(ansi):
            so, se = BufferedOutputStream(), BufferedOutputStream()
            return cls(Input(StringInputStream("")), Output(so, _fmt(ansi)), Output(se, _fmt(ansi))).section(), [so, se], True
        return build

    return dict(output=out, section=section, upper_section=upper_section, buffered_io=bio, buffered_io_section=bio_section,
                io=mk(IO), io_section=mk_section(IO), console_io=mk(ConsoleIO), console_io_section=mk_section(ConsoleIO))


def line_methods(obj):
    """Public callables whose name says they write a line: name contains 'line', is not a reader,
    and takes a string as first argument."""
    out = []
    for name in sorted(dir(type(obj))):
        if name.startswith("_") or "line" not in name or name.startswith("read"):
            continue
        fn = getattr(type(obj), name)
        if not callable(fn) or isinstance(fn, property):
            continue
        params = [p for p in inspect.signature(fn).parameters if p != "self"]
        if not params:
            continue
        out.append(name)
    return out


def run_line_case(case):
    """case = [kind, ansi, method, text index, calls]"""
    kind, ansi, meth, ti, calls = case
    markup, visible = C_TEXTS[ti]
    raw = "raw" in meth
    shown = markup if raw else visible
    recv, streams, is_section = receiver_kinds()[kind](ansi)
    before = [s.fetch() for s in streams]
    try:
        for _ in range(calls):
            getattr(recv, meth)(markup)
    except Exception as e:
        return report.viol("c:crash:" + report.exc_site(e), "%s.%s(%r) raised %r" % (kind, meth, markup, e), case)
    after = [s.fetch() for s in streams]
    deltas = [a[len(b):] if a.startswith(b) else None for a, b in zip(after, before)]
    rk = ("io" if len(streams) == 2 else "output") + ("-section" if is_section else "")
    where = "%s.%s:%s" % (rk, meth, "ansi" if ansi else "plain")
    if any(d is None for d in deltas):
        return report.viol("c:stream-rewritten:" + where, "%s.%s changed what was already in the stream" % (kind, meth), case, before, after)
    changed = [d for d in deltas if d]
    if len(changed) > 1:
        return report.viol("c:streams-touched:" + where, "%s.%s(%r) wrote to %d streams" % (kind, meth, markup, len(changed)), case, 1, deltas)
    delta = changed[0] if changed else ""
    want = (shown + "\n") * calls
    if not ansi and "\x1b" in delta and "\x1b" not in shown:
        return report.viol("c:esc-on-plain:" + where, "%s.%s emitted an escape byte on a plain output" % (kind, meth), case, want, delta)
    got = strip_sgr(delta) if (ansi and not raw) else delta
    if "\x1b" in got and "\x1b" not in shown:
        # cursor control involved (a section with another section below it): judge by what the terminal shows
        k = deltas.index(delta)
        try:
            tb = Term(80).feed(before[k])
            ta = Term(80).feed(after[k])
        except Unsupported as e:
            return report.viol("c:unsupported-escape:" + where, "emulator cannot interpret %r" % (e,), case, None, delta)
        old = tb.screen()  # e.g. ['low']
        new_lines = [l.rstrip(" ") for l in shown.split("\n")] * calls
        ok_screens = [new_lines + old, old + new_lines]
        scr = ta.lines()
        # text followed by exactly one newline: the cursor rests at the start of the row after the last shown row
        at_fresh_row = ta.c == 0 and ta.r == len(old) + len(new_lines) and scr[ta.r:] in ([""], [])
        if scr[:len(old) + len(new_lines)] not in ok_screens or not at_fresh_row:
            return report.viol("c:line:" + where, "%s.%s(%r) x%d: the screen does not show the text followed by exactly one line break" % (kind, meth, markup, calls),
                               case, {"screen": ok_screens[0], "cursor": [len(old) + len(new_lines), 0]}, {"screen": scr, "cursor": [ta.r, ta.c], "delta": delta})
        return None
    if got != want:
        if got.rstrip("\n") == want.rstrip("\n") or (calls > 1 and got.replace("\n", "") == want.replace("\n", "")):
            n_got = len(got) - len(got.rstrip("\n"))
            what = "emitted %d newline(s) after the text instead of exactly one" % n_got
            sig = "c:newline:" + where
        else:
            what = "emitted a different text"
            sig = "c:text:" + where
        return report.viol(sig, "%s.%s(%r) x%d %s" % (kind, meth, markup, calls, what), case, want, delta)
    return None


def line_cases():
    out = []
    for calls in (1, 2):
        for ti in range(len(C_TEXTS)):
            for kind, build in sorted(receiver_kinds().items()):
                for ansi in (True, False):
                    recv = build(ansi)[0]
                    for m in line_methods(recv):
                        out.append([kind, ansi, m, ti, calls])
    # simplest first: one call of 'a' before the empty text and the rest
    order = {1: 0, 0: 1}
    out.sort(key=lambda c: (c[4], order.get(c[3], c[3])))
    return out


def part_c(rep):
    cs = line_cases()

    def work(share):
        vs = {}
        for i, c in share:
            v = run_line_case(c)
            if v and v["sig"] not in vs:
                vs[v["sig"]] = (i, v)
        return list(vs.values())

    best = {}
    for vs in par.pmap(work, par.chunks(list(enumerate(cs)), common.ncpu() * 2)):
        for i, v in vs:
            if v["sig"] not in best or i < best[v["sig"]][0]:
                best[v["sig"]] = (i, v)
    rep.merge([v for _, v in sorted(best.values(), key=lambda x: x[0])])
    sw = switch_cases()
    for c in sw:
        v = run_switch_case(c)
        if v:
            rep.violation(v)
    for c in (["stream-swap", "tty->pipe"], ["stream-swap", "pipe->tty"]):
        v = run_stream_swap_case(c)
        if v:
            rep.violation(v)
    rep.part("c2_decoration_switched_off", cases=len(sw) + 2, operations=SWITCH_OPS,
             what="content written while decorated, formatter then replaced by a plain one: no escape byte afterwards")
    eps = sorted({"%s.%s" % (c[0], c[2]) for c in cs})
    rep.part("c_line_methods", cases=len(cs), entry_points=eps, texts=[t[0] for t in C_TEXTS], calls=[1, 2])
    rep.sample({"part": "c", "case": cs[len(cs) // 2]})
    return len(cs), len([c for c in cs if C_TEXTS[c[3]][0] != ""])


# (c2) decoration switched off on a live receiver: content was written while the output was decorated, then the formatter is
# replaced by a plain one (what --no-ansi handling does to an I/O that already exists); from then on not one escape byte
SWITCH_OPS = ["write_line", "overwrite", "clear", "clear1", "write_line_raw"]


def run_stream_swap_case(case):
    """case = ["stream-swap", direction]: an output with an (unforced) AnsiFormatter whose stream is replaced: what it writes
    afterwards follows the abilities of the stream it has NOW"""
    from clikit.api.io import Output
    from clikit.formatter import AnsiFormatter
    from clikit.io.output_stream import BufferedOutputStream

    class Tty(BufferedOutputStream):
        def supports_ansi(self):
            return True

    first, second = (Tty(), BufferedOutputStream()) if case[1] == "tty->pipe" else (BufferedOutputStream(), Tty())
    try:
        o = Output(first, AnsiFormatter())
        o.write_line("<b>one</b>")
        o.set_stream(second)
        o.write_line("<b>two</b>")
    except Exception as e:
        return report.viol("c2:crash:" + report.exc_site(e), "%r raised %r" % (case, e), case)
    got = second.fetch()
    if case[1] == "tty->pipe" and got != "two\n":
        return report.viol("c2:stream-swap:esc-on-stream-without-ansi", "after set_stream() to a stream without ANSI support the output still decorates",
                           case, "two\n", got)
    if case[1] == "pipe->tty" and (strip_sgr(got) != "two\n" or "\x1b[" not in got):
        return report.viol("c2:stream-swap:plain-on-ansi-stream", "after set_stream() to an ANSI-capable stream the output does not decorate", case,
                           "ESC[1mtwo ESC[0m", got)
    return None


def run_switch_case(case):
    """case = ["switch", receiver kind, how the formatter is replaced, operation]"""
    from clikit.api.io import Output
    from clikit.io import BufferedIO
    from clikit.io.output_stream import BufferedOutputStream
    _, kind, how, op = case
    if kind == "output-section":
        s = BufferedOutputStream()
        parent = Output(s, _ansi())
        sec = parent.section()
        streams, target = [s], sec
        switch = (lambda: sec.set_formatter(_plain())) if how == "on-section" else (lambda: (parent.set_formatter(_plain()), sec.set_formatter(parent.formatter)))
    else:
        io = BufferedIO(formatter=_ansi())
        sec_io = io.section()
        streams, target = [io.output.stream, io.error_output.stream], sec_io.output
        switch = (lambda: sec_io.set_formatter(_plain())) if how == "on-section" else (lambda: (io.set_formatter(_plain()), sec_io.set_formatter(io.output.formatter)))
    try:
        target.write_line("<b>first</b>")
        target.write_line("second")
        switch()
        before = [x.fetch() for x in streams]
        if op == "clear":
            target.clear()
        elif op == "clear1":
            target.clear(1)
        elif op == "overwrite":
            target.overwrite("<b>third</b>")
        else:
            getattr(target, op)("<b>third</b>")
    except Exception as e:
        return report.viol("c2:crash:" + report.exc_site(e), "%r raised %r" % (case, e), case)
    delta = "".join(x.fetch()[len(b):] for x, b in zip(streams, before))
    if "\x1b" in delta:
        return report.viol("c2:esc-after-switch-to-plain:%s.%s" % (kind, op), "%s.%s emitted an escape byte after the formatter had been replaced by a "
                           "plain one (%s)" % (kind, op, how), case, "no ESC", delta)
    return None


def switch_cases():
    return [["switch", k, how, op] for k in ("output-section", "io-section") for how in ("on-section", "on-parent-then-section") for op in SWITCH_OPS]


def replay_c(case):
    if isinstance(case, list) and case and case[0] == "switch":
        return run_switch_case(case)
    if isinstance(case, list) and case and case[0] == "stream-swap":
        return run_stream_swap_case(case)
    return run_line_case(case["case"] if isinstance(case, dict) and "case" in case else case)


# ================================================================================================
# (d) indentation scopes
# ================================================================================================
# lines are delimited by "\n" only: U+2028 / U+0085 (which str.splitlines also breaks at) are ordinary characters
# inside a line
D_MSG = "ab\n\n<b>c\nd</b> e\n f\ng\u2028h\x85i"
D_LINES = ["ab", "", "c", "d e", " f", "g\u2028h\x85i"]
TARGETS = ["io", "out", "err"]
MODES = ["set", "inc"]


class Boom(Exception):
    pass


_LEAF_TYPES = []


def _stream_leaf(o):
    if not _LEAF_TYPES:
        from clikit.api.formatter import Formatter
        from clikit.api.io import IO, Output
        from clikit.io.output_stream import BufferedOutputStream
        _LEAF_TYPES.extend([BufferedOutputStream, Formatter, (IO, Output)])
    if isinstance(o, _LEAF_TYPES[0]):
        return ("stream", o.fetch())
    if isinstance(o, _LEAF_TYPES[1]) and not isinstance(o, _LEAF_TYPES[2]):
        return ("formatter", type(o).__name__)
    return None


class DState(object):
    def __init__(self, io):
        self.io = io
        self.stack = []      # live Indent objects
        self.ref = [0, 0]    # reference indentation of output / error output
        self.ref_stack = []  # saved (indexes, values)
        self.hist = []


def _opener(io, target, mode):
    recv = {"io": io, "out": io.output, "err": io.error_output}[target]
    return recv.indent if mode == "set" else recv.increment_indent


def _ref_open(ref, target, mode, n):
    idx = {"io": [0, 1], "out": [0], "err": [1]}[target]
    saved = (idx, [ref[i] for i in idx])
    for i in idx:
        ref[i] = ref[i] + n if mode == "inc" else n
    return saved


def _ref_close(ref, saved):
    for i, v in zip(*saved):
        ref[i] = v


_SHARED_FMT = {}


def _shared_fmt(ansi):
    """One formatter per process for the indentation parts (it holds no indentation state)."""
    if ansi not in _SHARED_FMT:
        _SHARED_FMT[ansi] = _fmt(ansi)
    return _SHARED_FMT[ansi]


def observe(io, ref, where, light=False):
    """Write the multi-line message through every formatted write path of both outputs and compare each
    emitted line with the reference indentation.  -> (sig, what, expected, observed) or None"""
    for si, (stream, writers) in enumerate((
            (io.output.stream, [("io.write_line", io.write_line, True), ("output.write", io.output.write, False)]),
            (io.error_output.stream, [("io.error_line", io.error_line, True), ("error_output.write", io.error_output.write, False)]))):
        for name, fn, nl in writers:
            if light and not nl:
                continue
            stream.clear()
            fn(D_MSG)
            got = strip_sgr(stream.fetch())
            stream.clear()
            if nl:
                if not got.endswith("\n"):
                    return ("d:no-newline:" + name, "%s did not end the line" % name, None, got)
                got = got[:-1]
            lines = got.split("\n")
            exp = [(" " * ref[si] + l) if l else "" for l in D_LINES]
            if lines != exp:
                side = "out" if si == 0 else "err"
                if len(lines) == len(exp) and all(g == e for g, e, l in zip(lines, exp, D_LINES) if l):
                    return ("d:empty-line-indented", "%s %s: the empty line of the message was not left empty" % (name, where), exp, lines)
                return ("d:indent:%s:%s" % (where, side), "%s %s: lines are not prefixed by the indentation in force (%d)" % (name, where, ref[si]), exp, lines)
    return None


class IndentSpec(object):
    def __init__(self, ansi, ns, nest):
        self.ansi, self.ns, self.nest = ansi, ns, nest
        self.opens = [("open", t, m, n) for n in ns for t in TARGETS for m in MODES]

    def init(self):
        from clikit.io import BufferedIO
        return DState(BufferedIO(formatter=_shared_fmt(self.ansi)))

    def do(self, st, op):
        """The operation on the real objects and on the reference; returns an escaped-exception violation or None."""
        if op[0] == "open":
            _, target, mode, n = op
            cm = _opener(st.io, target, mode)(n)
            cm.__enter__()
            st.stack.append(cm)
            st.ref_stack.append(_ref_open(st.ref, target, mode, n))
        else:
            cm = st.stack.pop()
            if op[1] == "normal":
                cm.__exit__(None, None, None)
            else:
                try:
                    raise Boom("left by exception")
                except Boom as e:
                    cm.__exit__(type(e), e, e.__traceback__)
            _ref_close(st.ref, st.ref_stack.pop())
        st.hist.append(op)

    def fork(self, st):
        n = self.init()
        for op in st.hist:
            self.do(n, op)
        return n

    def key(self, st):
        return (canon((st.io, st.stack), _stream_leaf), tuple(st.ref), tuple((tuple(a), tuple(b)) for a, b in st.ref_stack))

    def ops(self, st, depth):
        out = []
        if len(st.stack) < self.nest:
            out += self.opens
        if st.stack:
            out += [("close", "normal"), ("close", "raise")]
        return out

    def apply(self, st, op):
        op = tuple(op)
        try:
            self.do(st, op)
            where = "after-" + ("open" if op[0] == "open" else "close-" + op[1])
            r = observe(st.io, st.ref, where)
        except Exception as e:
            return [report.viol("d:crash:" + report.exc_site(e), "%r raised %r" % (op, e), None, None, repr(e))]
        if r:
            return [report.viol(r[0], r[1], None, r[2], r[3])]
        return []


def layered_bfs(spec, max_depth):
    """Breadth-first exploration with *global* deduplication, one parallel fan-out per level (mc.explore
    deduplicates per worker share, which explores the same states in several workers and cannot tell whether the
    graph closed).  Level k holds one history per distinct state first reached after k operations; the workers
    rebuild their states from the history, apply every enabled operation (oracle on every transition) and return
    the fingerprints; the parent keeps the first history per new fingerprint, in deterministic order."""
    res = explore.Result()
    root = spec.init()
    seen = {hash(spec.key(root))}
    res.states = 1
    level = [()]

    def work(share):
        out = []
        for hist in share:
            base = spec.init()
            for op in hist:
                spec.do(base, op)
            for op in spec.ops(base, len(hist)):
                nxt = spec.fork(base)
                vs = spec.apply(nxt, op)
                if vs:
                    for v in vs:
                        v["case"] = {"history": [list(o) for o in hist + (op,)]}
                    out.append((hist + (op,), None, vs))
                else:
                    out.append((hist + (op,), hash(spec.key(nxt)), None))
        return out

    depth = 0
    while level:
        if depth >= max_depth:
            res.cut = len(level)
            break
        nxt_level = []
        for out in par.pmap(work, par.chunks(level, common.ncpu() * 4)):
            for hist, k, vs in out:
                res.transitions += 1
                if vs:
                    if len(res.violations) < 40:
                        res.violations.extend(vs)
                    continue
                if k in seen:
                    continue
                seen.add(k)
                res.states += 1
                nxt_level.append(hist)
        # par.chunks deals round-robin: restore simplest-first order inside the level
        nxt_level.sort(key=lambda h: (len(h), [spec_order(spec, o) for o in h]))
        depth += 1
        if nxt_level:
            res.max_depth = depth
            if len(res.samples) < 2:
                res.samples.append([list(o) for o in nxt_level[len(nxt_level) // 2]])
        level = nxt_level
    return res


def spec_order(spec, op):
    if op[0] == "open":
        return spec.opens.index(tuple(op))
    return len(spec.opens) + (0 if op[1] == "normal" else 1)


def run_with_program(ansi, chain, r, c):
    """A pure nesting of len(chain) real `with` statements.  After the scopes r+1.. have completed normally an
    exception is raised in the body of scope r (r=0: none) and caught just outside scope c (1<=c<=r), so the
    scopes c..r are left by the exception.  The message is written and checked at every program point."""
    from clikit.io import BufferedIO
    if ansi == "section":
        # the I/O handed out by BufferedIO.section() (undecorated, so its section outputs write plain lines)
        io = BufferedIO(formatter=_shared_fmt(False)).section()
    else:
        io = BufferedIO(formatter=_shared_fmt(ansi))
    ref = [0, 0]
    bad = []

    def point(where):
        if not bad:
            x = observe(io, ref, where, light=True)
            if x:
                bad.append(x)

    def level(i):
        # executes scope i (1-based) and everything inside it
        if i > len(chain):
            return
        target, mode, n = chain[i - 1]
        saved = None
        try:
            opener = _opener(io, target, mode)
            with opener(n):
                saved = _ref_open(ref, target, mode, n)
                point("inside-with")
                level(i + 1)
                point("inside-with-after-inner")
                if i == r:
                    raise Boom("body of scope %d" % i)
        except Boom:
            _ref_close(ref, saved)
            point("after-with-left-by-exception")
            if i != c:
                raise
            return
        if r > 0 and c <= i <= r and not bad:
            # scopes c..r are left by the exception raised in scope r: control cannot arrive behind their with-statements
            bad.append(("d:exception-swallowed", "an exception raised inside an indentation scope (with-statement on %s) did not leave it" % (target,),
                        "Boom propagates", "execution went on behind the with-statement"))
        _ref_close(ref, saved)
        point("after-with")

    try:
        point("before")
        level(1)
        point("end")
    except Exception as e:
        return ("d:crash:" + report.exc_site(e), "with-program raised %r" % (e,), None, repr(e))
    return bad[0] if bad else None


def with_programs(ns, depth):
    scopes = [(t, m, n) for n in ns for t in TARGETS for m in MODES]
    for k in range(1, depth + 1):
        for chain in itertools.product(scopes, repeat=k):
            yield (list(chain), 0, 0)
            for r in range(1, k + 1):
                for c in range(1, r + 1):
                    yield (list(chain), r, c)


def part_d(rep):
    t = rep.tier
    extra_n = [1, 3, 7, 11][rep.seed % 4]
    if t == "thorough":
        runs = [("ansi", True, [0, 2, 5], 4, 6, True), ("plain", False, [0, 2, extra_n], 3, 5, True), ("ansi-nodedup", True, [0, 2, 5], 3, 4, False)]
        wp = [("with-ansi", True, [0, 2, 5], 4), ("with-plain", False, [0, 2, 5], 3), ("with-plain-section-io", "section", [0, 2, 5], 3)]
    else:
        runs = [("ansi", True, [0, 2, 5], 3, 5, True), ("plain", False, [0, 2, extra_n], 2, 4, True), ("ansi-nodedup", True, [0, 2, 5], 2, 3, False)]
        wp = [("with-ansi", True, [0, 2, 5], 3), ("with-plain", False, [0, 2], 3), ("with-plain-section-io", "section", [0, 2], 2)]
    tot_s = tot_t = 0
    all_closed = True
    for name, ansi, ns, nest, depth, dedup in runs:
        spec = IndentSpec(ansi, ns, nest)
        res = layered_bfs(spec, depth) if dedup else explore.explore(spec, depth, split_depth=2, dedup=False)
        for v in res.violations:
            v["case"].update({"part": "d1", "ansi": ansi, "ns": ns, "nest": nest})
        rep.merge(res.violations)
        rep.part("d_" + name, nesting_bound=nest, history_bound=depth, ns=ns, ops=len(spec.opens) + 2, dedup=dedup, **res.as_dict())
        if dedup and not res.closed and not res.violations:
            all_closed = False
        tot_s += res.states
        tot_t += res.transitions
        for s in res.samples[:1]:
            rep.sample({"part": "d1", "run": name, "history": s})
    n_with = 0
    for name, ansi, ns, depth in wp:
        progs = list(with_programs(ns, depth))

        def work(share, ansi=ansi):
            vs = {}
            for i, (chain, r, c) in share:
                x = run_with_program(ansi, chain, r, c)
                if x and x[0] not in vs and len(vs) < 20:
                    vs[x[0]] = (i, report.viol(x[0], x[1], {"part": "d2", "ansi": ansi, "chain": chain, "r": r, "c": c}, x[2], x[3]))
            return len(share), list(vs.values())

        best = {}
        for n, vs in par.pmap(work, par.chunks(list(enumerate(progs)), common.ncpu() * 4)):
            n_with += n
            for i, v in vs:
                if v["sig"] not in best or i < best[v["sig"]][0]:
                    best[v["sig"]] = (i, v)
        rep.merge([v for _, v in sorted(best.values(), key=lambda x: x[0])])
        rep.part("d_" + name, programs=len(progs), nesting=depth, ns=ns,
                 shape="pure nesting of real with-statements; exception raised in scope r, caught outside scope c, all 0<=c<=r<=depth")
    rep.sample({"part": "d2", "chain": [["io", "set", 2], ["err", "inc", 5]], "r": 2, "c": 1})
    rep.set("d_state_graphs_closed", all_closed)
    rep.set("rotated_indent_width", extra_n)
    return tot_s, tot_t, n_with


def replay_d(case):
    if case["part"] == "d1":
        spec = IndentSpec(case["ansi"], case["ns"], case["nest"])
        return explore.replay(spec, case)
    x = run_with_program(case["ansi"], [tuple(s) for s in case["chain"]], case["r"], case["c"])
    if x:
        return report.viol(x[0], x[1], case, x[2], x[3])
    return None


# ================================================================================================
# (e) escaped angle brackets: '\\<' is the way to write '<' as a plain character in front of something
#     that would otherwise be a tag.  Every rendering must show '<' and no backslash, also inside a style.
# ================================================================================================
E_ATOMS = [("a", "a"), (" ", " "), ("\0", "\0"), ("\x1b[1m", "\x1b[1m"), ("\\<b>", "<b>"), ("\\</b>", "</b>"), ("\\<info>", "<info>"), ("\\</>", "</>"),
           ("\\<fg=red>", "<fg=red>"), ("\\<x", "<x"), ("\\< ", "< "), ("\\<nope>", "<nope>")]
E_WRAPS = [("", ""), ("<info>", "</info>"), ("<b>", "</>"), ("<c1>", "</c1>"), ("<error>", "</error>"),
           ("<fg=red;options=bold>", "</>"), ("<foo>", "</foo>")]


def run_esc_case(case):
    wi, seq, tail = case
    o, c = E_WRAPS[wi]
    inner = "".join(E_ATOMS[i][0] for i in seq)
    outer = "".join(E_ATOMS[i][0] for i in tail)
    msg = o + inner + c + outer
    text = "".join(E_ATOMS[i][1] for i in seq) + "".join(E_ATOMS[i][1] for i in tail)
    keep = (o + "".join(E_ATOMS[i][1] for i in seq) + c if o == "<foo>" else "".join(E_ATOMS[i][1] for i in seq)) + "".join(E_ATOMS[i][1] for i in tail)
    a, p = _ansi(), _plain()
    try:
        obs = {"ansi.format": a.format(msg), "plain.format": p.format(msg), "ansi.remove_format": a.remove_format(msg),
               "plain.remove_format": p.remove_format(msg)}
    except Exception as e:
        return report.viol("e:crash:" + report.exc_site(e), "formatting %r raised %r" % (msg, e), {"part": "e", "case": case}, keep, repr(e))
    shown = {k: (strip_sgr(v) if k == "ansi.format" else v) for k, v in obs.items()}
    if "\x1b" in msg:
        # the text itself contains an SGR sequence (quoted output of another tool): the undecorated renderings must keep
        # it byte for byte; the decorated one cannot be told apart from it after stripping and is not judged here
        del shown["ansi.format"]
    for k, v in sorted(shown.items()):
        if v != keep and v != text:
            where = "styled" if o and o != "<foo>" else "unstyled"
            return report.viol("e:escaped-bracket:%s:%s" % (k, where), "%s of %r shows %r, expected %r" % (k, msg, v, keep), {"part": "e", "case": case}, keep, obs)
    return None


def part_e(rep):
    n = 3 if rep.tier == "quick" else 4
    cases = []
    for wi in range(len(E_WRAPS)):
        for k in range(1, n + 1):
            for seq in itertools.product(range(len(E_ATOMS)), repeat=k):
                if not any(E_ATOMS[i][0].startswith("\\") for i in seq):
                    continue
                cases.append([wi, list(seq), []])
                if k <= 2:
                    for t in range(len(E_ATOMS)):
                        cases.append([wi, list(seq), [t]])

    def work(share):
        vs = {}
        for c in share:
            v = run_esc_case(c)
            if v and v["sig"] not in vs:
                vs[v["sig"]] = v
        return list(vs.values())

    for vs in par.pmap(work, par.chunks(cases, common.ncpu() * 2)):
        rep.merge(vs)
    rep.part("e_escaped_brackets", cases=len(cases), atoms=[x[0] for x in E_ATOMS], wrappers=[w[0] for w in E_WRAPS], max_atoms=n)
    rep.sample({"part": "e", "case": cases[len(cases) // 2]})
    return len(cases), len(cases)


def pre_import():
    os.environ["COLUMNS"] = "80"
    os.environ["LINES"] = "25"


def replay(case):
    pre_import()
    if isinstance(case, list):
        return replay_c(case)
    part = case.get("part")
    if part == "a":
        return replay_a(case)
    if part == "b":
        return replay_b(case)
    if part == "c":
        return replay_c(case)
    if part == "e":
        return run_esc_case(case["case"])
    return replay_d(case)


def main():
    pre_import()
    rep = report.Report(PID, "model_checking")
    only = os.environ.get("C11_PARTS", "abcde")
    ev = nt = 0
    if "a" in only:
        n, t = part_a(rep)
        ev += n
        nt += t
    if "b" in only:
        n, t = part_b(rep)
        ev += n
        nt += t
    if "c" in only:
        n, t = part_c(rep)
        ev += n
        nt += t
    if "e" in only:
        n, t = part_e(rep)
        ev += n
        nt += t
    s = tr = 0
    if "d" in only:
        s, tr, nw = part_d(rep)
        ev += tr + nw
        nt += s
    rep.set("evaluations", ev)
    rep.set("distinct_nontrivial", nt)
    rep.set("states", s)
    rep.set("transitions", tr)
    rep.set("traces_validated_against_impl", ev)
    rep.set("exhaustive", only == "abcde")
    rep.set("rule", "non-trivial = (a) message trees with non-empty text inside a registered style (each tree generated once; tree -> string is injective, "
                    "measured in the quick tier) + (b) styles with at least one SGR code + (c) line cases with non-empty text + (d) distinct full-state fingerprints "
                    "of the indentation explorer.  Spaces: (a) every ordered forest with the stated node count over the stated alphabet, (b) every fg x bg x attribute set, "
                    "(c) every reflected line method x receiver kind x ANSI/plain x text x {1,2} calls, (d) every scope history within the nesting/history bounds and every pure "
                    "with-nesting with every raise/catch level")
    rep.assume("strip_sgr (mc.term) removes exactly ESC[...m sequences; any other escape counts as text")
    rep.assume("expected SGR codes come from the ECMA-48/aixterm table in props/c11.py, not from pastel")
    rep.assume("unknown tags: renderings must agree and equal the constructed text with the unknown markup kept or dropped")
    rep.assume("indentation scopes are driven through __enter__/__exit__ in the explorer (d1) and through real with-statements in (d2)")
    return rep.finish()
