"""C07 - option and argument flags are validated and normalised consistently; names; typed conversion.

E1, complete: every flag word (all defined bits + undefined ones) x short name x default kind is given to the
real constructors; every string up to length 4 over a 7(+1)-letter alphabet is tried in every naming role, with and
without dash prefixes; parse() is run for every type x nullable over boundary texts, None, the text of every int in
[-1100, 1100] and of the 32/64-bit boundaries, a grid of floats, and both booleans.

The acceptance oracle is written from the *documented* contradictions only (the property statement; they are
exactly the ValueError messages of option.py / argument.py / abstract_option.py):
  option:   NO_VALUE with REQUIRED_VALUE / OPTIONAL_VALUE / MULTI_VALUED; OPTIONAL_VALUE with MULTI_VALUED;
            two value types; PREFER_LONG_NAME with PREFER_SHORT_NAME; PREFER_SHORT_NAME without a short name
  argument: REQUIRED with OPTIONAL; two value types; REQUIRED with a default value
Decisions (not demanded, the statement is silent):
  * REQUIRED_VALUE | OPTIONAL_VALUE together is not a documented contradiction: such words must be ACCEPTED.
  * undefined bits never matter for acceptance.
  * a default given to a value-less option, or a non-list default given to a multi-valued option/argument, may be
    refused (ValueError) or normalised away; only the resulting object's consistency is demanded.
  * which value type / value mode / name preference is chosen when none is given is not demanded, only that exactly
    one type is reported, the mode is consistent and explicitly given defined bits survive normalisation.
  * aliases: `name`, `--name` (long) and `x`, `-x` (short) must be accepted when well-formed and anything that has
    no well-formed reading after removing up to two dashes must be refused; the in-between spellings (`-name`,
    `--x`) are not judged.  Letters are ASCII letters (every message and pattern in the code says a-zA-Z).
  * parse(None) with a nullable type may return None or a value of the type (only the result's type is demanded).
  * non-string names must be refused, with whatever exception.
"""
import itertools

from mc import common, par, report

PID = "C07"

# ---------------------------------------------------------------------------------------------- flag words
O_PREFER_LONG, O_PREFER_SHORT, O_NO_VALUE, O_REQUIRED, O_OPTIONAL, O_MULTI = 1, 2, 4, 8, 16, 32
O_STRING, O_BOOLEAN, O_INTEGER, O_FLOAT, O_NULLABLE = 128, 256, 512, 1024, 2048
O_TYPES = [("STRING", O_STRING), ("BOOLEAN", O_BOOLEAN), ("INTEGER", O_INTEGER), ("FLOAT", O_FLOAT)]
O_DEFINED = 1 | 2 | 4 | 8 | 16 | 32 | 128 | 256 | 512 | 1024 | 2048
O_BITS = 13  # bits 0..12: 11 defined + 64 and 4096 undefined

A_REQUIRED, A_OPTIONAL, A_MULTI = 1, 2, 4
A_STRING, A_BOOLEAN, A_INTEGER, A_FLOAT, A_NULLABLE = 16, 32, 64, 128, 256
A_TYPES = [("STRING", A_STRING), ("BOOLEAN", A_BOOLEAN), ("INTEGER", A_INTEGER), ("FLOAT", A_FLOAT)]
A_DEFINED = 1 | 2 | 4 | 16 | 32 | 64 | 128 | 256
A_BITS = 11  # bits 0..10: 8 defined + 8, 512, 1024 undefined

DEFAULTS = {"none": None, "scalar": "d", "list": ["d"]}
PROBE = {"STRING": "1", "BOOLEAN": True, "INTEGER": 1, "FLOAT": 1.0}


def constants_agree():
    """The numeric layout above is the oracle's own; a renumbering in clikit must not silently shift the meaning."""
    from clikit.api.args.format.argument import Argument as A
    from clikit.api.args.format.option import Option as O
    mine = (O_PREFER_LONG, O_PREFER_SHORT, O_NO_VALUE, O_REQUIRED, O_OPTIONAL, O_MULTI, O_STRING, O_BOOLEAN, O_INTEGER, O_FLOAT, O_NULLABLE,
            A_REQUIRED, A_OPTIONAL, A_MULTI, A_STRING, A_BOOLEAN, A_INTEGER, A_FLOAT, A_NULLABLE)
    theirs = (O.PREFER_LONG_NAME, O.PREFER_SHORT_NAME, O.NO_VALUE, O.REQUIRED_VALUE, O.OPTIONAL_VALUE, O.MULTI_VALUED, O.STRING, O.BOOLEAN,
              O.INTEGER, O.FLOAT, O.NULLABLE, A.REQUIRED, A.OPTIONAL, A.MULTI_VALUED, A.STRING, A.BOOLEAN, A.INTEGER, A.FLOAT, A.NULLABLE)
    return mine == theirs


def option_contradiction(flags, short):
    """First documented contradiction of an option flag word, or None."""
    if flags & O_PREFER_LONG and flags & O_PREFER_SHORT:
        return "PREFER_LONG_NAME+PREFER_SHORT_NAME"
    if flags & O_PREFER_SHORT and short is None:
        return "PREFER_SHORT_NAME-without-short-name"
    if flags & O_NO_VALUE:
        for n, b in (("REQUIRED_VALUE", O_REQUIRED), ("OPTIONAL_VALUE", O_OPTIONAL), ("MULTI_VALUED", O_MULTI)):
            if flags & b:
                return "NO_VALUE+" + n
    if flags & O_OPTIONAL and flags & O_MULTI:
        return "OPTIONAL_VALUE+MULTI_VALUED"
    ts = [n for n, b in O_TYPES if flags & b]
    if len(ts) > 1:
        return "two-types:%s+%s" % (ts[0], ts[1])
    return None


def argument_contradiction(flags, default):
    if flags & A_REQUIRED and flags & A_OPTIONAL:
        return "REQUIRED+OPTIONAL"
    ts = [n for n, b in A_TYPES if flags & b]
    if len(ts) > 1:
        return "two-types:%s+%s" % (ts[0], ts[1])
    if flags & A_REQUIRED and default is not None:
        return "REQUIRED+default"
    return None


def _popcount(n):
    return bin(n).count("1")


def _construct(fn):
    try:
        return fn(), None
    except ValueError as e:
        return None, e
    except Exception as e:  # noqa
        return None, e


_MARK = "a value the caller appended"


def _own_empty_list(obj, make_other):
    """multi-valued element constructed without a default: reports an empty list of its own."""
    d = obj.default
    if d != []:
        return ("multi-valued-no-default-not-empty", [], repr(d))
    d.append(_MARK)
    try:
        other, exc = _construct(make_other)
        if other is not None and other.default != []:
            return ("default-list-shared-between-objects", [], repr(other.default))
        if other is not None:
            _, e2 = _construct(lambda: other.set_default(None))
            if e2 is None and other.default != []:
                return ("default-list-shared-between-objects", [], repr(other.default))
    finally:
        d.remove(_MARK)
    return None


def check_option(case):
    """case = ["option", flags, short, default kind]"""
    from clikit.api.args.format.option import Option
    _, flags, short, dk = case
    default = DEFAULTS[dk]
    if isinstance(default, list):
        default = list(default)
    o, exc = _construct(lambda: Option("opt", short, flags, None, default))
    if exc is not None and not isinstance(exc, ValueError):
        return report.viol("crash:" + report.exc_site(exc), "Option('opt', %r, %d, default=%r) raised %r" % (short, flags, default, exc), case)
    why = option_contradiction(flags, short)
    if why:
        if o is not None:
            return report.viol("option:accepted-contradiction:" + why, "Option(flags=%d, short=%r) was accepted although %s" % (flags, short, why),
                               case, "ValueError", "accepted, flags=%d" % o.flags)
        return None
    explicit_mode = flags & (O_NO_VALUE | O_REQUIRED | O_OPTIONAL | O_MULTI)
    valueless = bool(flags & O_NO_VALUE) or not explicit_mode
    may_refuse = (default is not None and (valueless or (flags & O_MULTI and not isinstance(default, list))))
    if o is None:
        if may_refuse:
            return None
        return report.viol("option:rejected-consistent-flags", "Option(flags=%d, short=%r, default=%r) raised %r; the word has no documented contradiction" % (
            flags, short, default, exc), case, "accepted", repr(exc))
    f = o.flags
    bad = None
    types = [n for n, b in O_TYPES if f & b]
    if len(types) != 1:
        bad = ("value-types-reported", "exactly one", types)
    elif (flags & O_DEFINED) & ~f:
        bad = ("explicit-flag-dropped", flags & O_DEFINED, f)
    elif o.is_long_name_preferred() and o.is_short_name_preferred():
        bad = ("both-name-preferences", None, f)
    elif o.is_short_name_preferred() and o.short_name is None:
        bad = ("short-preferred-without-short-name", None, f)
    elif not o.accepts_value() and (o.is_value_required() or o.is_value_optional() or o.is_multi_valued()):
        bad = ("valueless-takes-value", None, f)
    elif not o.accepts_value() and o.default is not None:
        bad = ("valueless-has-default", None, o.default)
    elif o.accepts_value() and not (o.is_value_required() or o.is_value_optional()):
        bad = ("value-mode-undecided", "required or optional", f)
    elif flags & O_NO_VALUE and o.accepts_value():
        bad = ("NO_VALUE-accepts-value", False, True)
    elif explicit_mode & ~O_NO_VALUE and not o.accepts_value():
        bad = ("value-flag-but-valueless", True, False)
    elif o.is_multi_valued() and not (o.is_value_required() and o.accepts_value()):
        bad = ("multi-valued-without-required-value", None, f)
    elif o.is_multi_valued() and not isinstance(o.default, list):
        bad = ("multi-valued-default-not-list", "list", repr(o.default))
    if bad is None and default is None and o.is_multi_valued():
        bad = _own_empty_list(o, lambda: Option("other", short, flags, None, None))
    if bad is None:
        got, e2 = _construct(lambda: o.parse("1"))
        want = PROBE[types[0]]
        if e2 is not None or type(got) is not type(want) or got != want:
            bad = ("parse-disagrees-with-reported-type", repr(want), repr(got if e2 is None else e2))
    if bad is None:
        # "always": the same consistency after every later set_default (it may refuse with ValueError)
        for d in (None, "d", ["d"]):
            _, e3 = _construct(lambda: o.set_default(list(d) if isinstance(d, list) else d))
            if e3 is not None and not isinstance(e3, ValueError):
                return report.viol("crash:" + report.exc_site(e3), "Option(flags=%d).set_default(%r) raised %r" % (flags, d, e3), case)
            if not o.accepts_value() and o.default is not None:
                bad = ("valueless-has-default-after-set_default", None, repr(o.default))
            elif o.is_multi_valued() and not isinstance(o.default, list):
                bad = ("multi-valued-default-not-list-after-set_default", "list", repr(o.default))
            elif o.flags != f:
                bad = ("set_default-changed-flags", f, o.flags)
            if bad:
                break
    if bad:
        return report.viol("option:invariant:" + bad[0], "Option(flags=%d, short=%r, default=%r) was accepted with flags=%d: %s" % (
            flags, short, default, f, bad[0]), case, bad[1], bad[2])
    return None


def check_argument(case):
    """case = ["argument", flags, default kind]"""
    from clikit.api.args.format.argument import Argument
    _, flags, dk = case
    default = DEFAULTS[dk]
    if isinstance(default, list):
        default = list(default)
    a, exc = _construct(lambda: Argument("arg", flags, None, default))
    if exc is not None and not isinstance(exc, ValueError):
        return report.viol("crash:" + report.exc_site(exc), "Argument('arg', %d, default=%r) raised %r" % (flags, default, exc), case)
    why = argument_contradiction(flags, default)
    if why:
        if a is not None:
            return report.viol("argument:accepted-contradiction:" + why, "Argument(flags=%d, default=%r) was accepted although %s" % (flags, default, why),
                               case, "ValueError", "accepted, flags=%d default=%r" % (a.flags, a.default))
        return None
    may_refuse = default is not None and flags & A_MULTI and not isinstance(default, list)
    if a is None:
        if may_refuse:
            return None
        return report.viol("argument:rejected-consistent-flags", "Argument(flags=%d, default=%r) raised %r; no documented contradiction" % (
            flags, default, exc), case, "accepted", repr(exc))
    f = a.flags
    bad = None
    types = [n for n, b in A_TYPES if f & b]
    if len(types) != 1:
        bad = ("value-types-reported", "exactly one", types)
    elif (flags & A_DEFINED) & ~f:
        bad = ("explicit-flag-dropped", flags & A_DEFINED, f)
    elif a.is_required() == a.is_optional():
        bad = ("required-and-optional-not-exclusive", None, f)
    elif a.is_required() and a.default not in (None, []):
        bad = ("required-has-default", None, repr(a.default))
    elif a.is_multi_valued() and not isinstance(a.default, list):
        bad = ("multi-valued-default-not-list", "list", repr(a.default))
    if bad is None and default is None and a.is_multi_valued():
        # "a list default": its own, empty list - a caller that appends to the list it is handed must not change what
        # another argument (constructed before or afterwards) reports
        bad = _own_empty_list(a, lambda: Argument("other", flags, None, None))
    if bad is None:
        got, e2 = _construct(lambda: a.parse("1"))
        want = PROBE[types[0]]
        if e2 is not None or type(got) is not type(want) or got != want:
            bad = ("parse-disagrees-with-reported-type", repr(want), repr(got if e2 is None else e2))
    if bad is None:
        for d in (None, "d", ["d"]):
            _, e3 = _construct(lambda: a.set_default(list(d) if isinstance(d, list) else d))
            if e3 is not None and not isinstance(e3, ValueError):
                return report.viol("crash:" + report.exc_site(e3), "Argument(flags=%d).set_default(%r) raised %r" % (flags, d, e3), case)
            if a.is_required() and a.default not in (None, []):
                bad = ("required-has-default-after-set_default", None, repr(a.default))
            elif a.is_multi_valued() and not isinstance(a.default, list):
                bad = ("multi-valued-default-not-list-after-set_default", "list", repr(a.default))
            elif a.flags != f:
                bad = ("set_default-changed-flags", f, a.flags)
            if bad:
                break
    if bad:
        return report.viol("argument:invariant:" + bad[0], "Argument(flags=%d, default=%r) was accepted with flags=%d: %s" % (flags, default, f, bad[0]),
                           case, bad[1], bad[2])
    return None


def check_command_option(case):
    """case = ["command_option", flags, short, aliases|None]"""
    from clikit.api.args.format.command_option import CommandOption
    _, flags, short, aliases = case
    o, exc = _construct(lambda: CommandOption("opt", short, list(aliases) if aliases is not None else None, flags))
    if exc is not None and not isinstance(exc, ValueError):
        return report.viol("crash:" + report.exc_site(exc), "CommandOption('opt', %r, %r, %d) raised %r" % (short, aliases, flags, exc), case)
    why = None
    if flags & O_PREFER_LONG and flags & O_PREFER_SHORT:
        why = "PREFER_LONG_NAME+PREFER_SHORT_NAME"
    elif flags & O_PREFER_SHORT and short is None:
        why = "PREFER_SHORT_NAME-without-short-name"
    if why:
        if o is not None:
            return report.viol("command_option:accepted-contradiction:" + why, "CommandOption(flags=%d, short=%r) accepted although %s" % (flags, short, why),
                               case, "ValueError", "accepted")
        return None
    if o is None:
        return report.viol("command_option:rejected-consistent-flags", "CommandOption(flags=%d, short=%r, aliases=%r) raised %r" % (flags, short, aliases, exc),
                           case, "accepted", repr(exc))
    bad = None
    if o.is_long_name_preferred() and o.is_short_name_preferred():
        bad = "both-name-preferences"
    elif o.is_short_name_preferred() and o.short_name is None:
        bad = "short-preferred-without-short-name"
    elif (flags & 3) & ~o.flags:
        bad = "explicit-flag-dropped"
    elif list(o.long_aliases) + list(o.short_aliases) != list(aliases or []):
        bad = "aliases-not-recorded"
    if bad:
        return report.viol("command_option:invariant:" + bad, "CommandOption(flags=%d, short=%r, aliases=%r) accepted with flags=%d: %s" % (
            flags, short, aliases, o.flags, bad), case, None, [o.flags, o.long_aliases, o.short_aliases])
    return None


# ---------------------------------------------------------------------------------------------- names
ASCII_LETTERS = "abcdefghijklmnopqrstuvwxyzABCDEFGHIJKLMNOPQRSTUVWXYZ"
NAME_CHARS = set(ASCII_LETTERS + "0123456789-")


def wf_word(s):
    """letters, digits and hyphens only, starting with a letter"""
    return len(s) >= 1 and s[0] in ASCII_LETTERS and all(c in NAME_CHARS for c in s)


def wf_long(s):
    return len(s) >= 2 and wf_word(s)


def wf_short(s):
    return len(s) == 1 and s in ASCII_LETTERS


def name_verdict(role, r):
    """(verdict, stored) for the raw string r in a naming role; verdict is True (must accept), False (must refuse), None (not judged)."""
    if role == "long":
        if wf_long(r):
            return True, r
        if r.startswith("--") and wf_long(r[2:]):
            return True, r[2:]
        return False, None
    if role == "short":
        if wf_short(r):
            return True, r
        if r.startswith("-") and wf_short(r[1:]):
            return True, r[1:]
        return False, None
    if role == "argument":
        return (True, r) if wf_word(r) else (False, None)
    if role == "alias":
        if wf_long(r) or wf_short(r):
            return True, r
        if r.startswith("--") and wf_long(r[2:]):
            return True, r[2:]
        if r.startswith("-") and wf_short(r[1:]):
            return True, r[1:]
        for k in (0, 1, 2):
            if r[:k] == "-" * k and (wf_long(r[k:]) or wf_short(r[k:])):
                return None, None
        return False, None
    raise ValueError(role)


def _spelling(role, r):
    if r.startswith("--"):
        return "double-dash"
    if r.startswith("-"):
        return "single-dash"
    return "bare"


def check_name(case):
    """case = ["name", role, raw string]"""
    from clikit.api.args.format.argument import Argument
    from clikit.api.args.format.command_option import CommandOption
    from clikit.api.args.format.option import Option
    _, role, r = case
    build = {
        "long": lambda: Option(r).long_name,
        "long-command-option": lambda: CommandOption(r).long_name,
        "short": lambda: Option("opt", r).short_name,
        "argument": lambda: Argument(r).name,
        "alias": lambda: (lambda o: (o.long_aliases + o.short_aliases, len(o.long_aliases)))(CommandOption("opt", None, [r])),
    }[role]
    got, exc = _construct(build)
    if exc is not None and not isinstance(exc, ValueError):
        return report.viol("crash:" + report.exc_site(exc), "%s name %r raised %r" % (role, r, exc), case)
    verdict, stored = name_verdict("long" if role == "long-command-option" else role, r)
    if verdict is None:
        return None
    if verdict and exc is not None:
        return report.viol("name:%s:rejected-well-formed:%s" % (role, _spelling(role, r)),
                           "the well-formed %s name %r was refused: %r" % (role, r, exc), case, "accepted as %r" % stored, repr(exc))
    if not verdict and exc is None:
        return report.viol("name:%s:accepted-malformed" % role, "the malformed %s name %r was accepted as %r" % (role, r, got), case, "ValueError", repr(got))
    if verdict:
        if role == "alias":
            names, n_long = got
            if names != [stored] or n_long != (1 if len(stored) > 1 else 0):
                return report.viol("name:alias:stored-differently", "alias %r recorded as %r (%d long)" % (r, names, n_long), case, stored, got)
        elif got != stored:
            return report.viol("name:%s:stored-differently" % role, "%s name %r is reported as %r" % (role, r, got), case, stored, got)
    return None


def check_nonstring_name(case):
    """case = ["nonstring", role, repr-able python value]: must be refused (exception class not judged)."""
    from clikit.api.args.format.argument import Argument
    from clikit.api.args.format.command_option import CommandOption
    from clikit.api.args.format.option import Option
    _, role, v = case
    if role == "short" and v is None:
        return None  # None means "no short name"
    build = {"long": lambda: Option(v), "short": lambda: Option("opt", v), "argument": lambda: Argument(v),
             "alias": lambda: CommandOption("opt", None, [v])}[role]
    got, exc = _construct(build)
    if exc is None:
        return report.viol("name:%s:accepted-non-string" % role, "%r accepted as %s name" % (v, role), case, "refused", "accepted")
    return None


def name_strings(alphabet, maxlen):
    out = [""]
    for n in range(1, maxlen + 1):
        out.extend("".join(t) for t in itertools.product(alphabet, repeat=n))
    return out


# ---------------------------------------------------------------------------------------------- parse
BOUNDARY_TEXTS = ["", " ", "null", "NULL", "Null", "none", "abc", "0", "1", "-1", "+5", "007", "-0", "1.5", "-0.0", "1e3", "1E400", ".5", "5.",
                  "0x10", "0b1", " 12 ", "12 ", "12\n", "1_000", "1__0", "_1", "١٢", "１２", "true", "false", "yes", "no",
                  "on", "off", "True", "FALSE", "y", "n", "t", "nan", "NaN", "inf", "-inf", "Infinity", "--5", "+-5", "1,5", "1 2", "é", "\x00",
                  "1\x00", "9" * 30, "-" + "9" * 30, "1" * 4400, "1e", "e1", "1e-400", "0.1", "1/3", "½", "−" + "5"]
BIG_INTS = [2 ** 31 - 1, 2 ** 31, -2 ** 31, -2 ** 31 - 1, 2 ** 63 - 1, 2 ** 63, -2 ** 63, -2 ** 63 - 1, 10 ** 30, -10 ** 30]


INT_RANGE = {"quick": 1100, "thorough": 20000}
NAME_LEN = {"quick": 4, "thorough": 5}


def int_domain():
    m = INT_RANGE.get(common.tier(), 1100)
    return sorted(range(-m, m + 1), key=lambda n: (abs(n), n < 0)) + BIG_INTS


def float_domain():
    xs = [k / 8.0 for k in sorted(range(-80, 81), key=lambda k: (abs(k), k < 0))]
    xs += [s * 10.0 ** e for e in range(-10, 11) for s in (1, -1)]
    xs += [0.0, -0.0, float("inf"), float("-inf"), 1e308, -1e308, 5e-324, 2.2250738585072014e-308, 0.1, 1.0 / 3, 2.0 / 3, 1e22, 1e23,
           123456789.123456789, 4503599627370497.5, 9007199254740993.0]
    return xs


TYPE_OF = {"STRING": str, "BOOLEAN": bool, "INTEGER": int, "FLOAT": float}


def parse_inputs(tname):
    """[(tag, value, expected or NOEXP)] simplest first.  tag tells how the input was produced."""
    out = [("none", None, NOEXP)]
    for t in BOUNDARY_TEXTS:
        out.append(("text", t, NOEXP))
    for n in int_domain():
        out.append(("int-text", str(n), n if tname == "INTEGER" else (float(n) if tname == "FLOAT" else NOEXP)))
        if tname == "INTEGER":
            out.append(("int", n, NOEXP))  # Python values: only the result type is demanded (the statement speaks of text forms)
    for x in float_domain():
        out.append(("float-text", repr(x), x if tname == "FLOAT" else NOEXP))
        if tname == "FLOAT":
            out.append(("float", x, NOEXP))
    for b in (True, False):
        out.append(("bool-text", "true" if b else "false", b if tname == "BOOLEAN" else NOEXP))
        out.append(("bool", b, NOEXP))
    return out


class _NoExp(object):
    def __repr__(self):
        return "<not demanded>"


NOEXP = _NoExp()


def _same(got, want):
    if type(got) is not type(want):
        return False
    if isinstance(want, float):
        return repr(got) == repr(want)  # distinguishes -0.0, compares inf
    return got == want


def check_parse(case, inputs=None):
    """case = ["parse", cls, type name|None, nullable, index into parse_inputs] (index None = all; used by the enumerator)"""
    from clikit.api.args.format.argument import Argument
    from clikit.api.args.format.option import Option
    _, cls, tname, nullable, idx = case
    tn = tname or "STRING"
    if cls == "option":
        bit = dict(O_TYPES).get(tname, 0) | (O_NULLABLE if nullable else 0)
        obj = Option("opt", None, O_REQUIRED | bit)
    else:
        bit = dict(A_TYPES).get(tname, 0) | (A_NULLABLE if nullable else 0)
        obj = Argument("arg", A_OPTIONAL | bit)
    T = TYPE_OF[tn]
    ins = inputs if inputs is not None else parse_inputs(tn)
    rng = range(len(ins)) if idx is None else [idx]
    found = {}
    n = 0
    for i in rng:
        tag, v, want = ins[i]
        n += 1
        c = ["parse", cls, tname, nullable, i]
        try:
            got = obj.parse(v)
        except ValueError as e:
            if want is not NOEXP:
                sig = "parse:%s:text-form-refused:%s" % (tn, tag)
                found.setdefault(sig, report.viol(sig, "%s.parse(%r) for type %s raised %r" % (cls, v, tn, e), c, repr(want), repr(e)))
            continue
        except Exception as e:  # noqa
            sig = "crash:" + report.exc_site(e)
            found.setdefault(sig, report.viol(sig, "%s(%s%s).parse(%r) raised %s: %s; only ValueError is documented" % (
                cls, tn, ", NULLABLE" if nullable else "", v if len(repr(v)) < 60 else repr(v)[:60], type(e).__name__, e), c, "value or ValueError", repr(e)))
            continue
        if got is None:
            if not nullable:
                sig = "parse:%s:none-although-not-nullable" % tn
                found.setdefault(sig, report.viol(sig, "%s.parse(%r) returned None for a non-nullable %s" % (cls, v, tn), c, tn, None))
            elif want is not NOEXP:
                sig = "parse:%s:text-form-became-none" % tn
                found.setdefault(sig, report.viol(sig, "%s.parse(%r) returned None" % (cls, v), c, repr(want), None))
            continue
        if type(got) is not T:
            sig = "parse:%s:wrong-result-type" % tn
            found.setdefault(sig, report.viol(sig, "%s.parse(%r) for type %s returned %r (%s)" % (cls, v, tn, got, type(got).__name__), c, T.__name__, type(got).__name__))
            continue
        if want is not NOEXP and not _same(got, want):
            sig = "parse:%s:round-trip:%s" % (tn, tag)
            found.setdefault(sig, report.viol(sig, "%s.parse(%r) for type %s returned %r" % (cls, v, tn, got), c, repr(want), repr(got)))
    return n, list(found.values())


# ---------------------------------------------------------------------------------------------- driver
CHECKS = {"option": check_option, "argument": check_argument, "command_option": check_command_option, "name": check_name,
          "nonstring": check_nonstring_name}


def replay(case):
    if case[0] == "parse":
        _, vs = check_parse(case)
        return vs[0] if vs else None
    return CHECKS[case[0]](case)


def _simplicity(v):
    c = v["case"]
    if c[0] in ("option", "argument", "command_option"):
        return (0, _popcount(c[1]), c[1], [x not in (None, "none") for x in c[2:]], repr(c[2:]))
    if c[0] in ("name", "nonstring"):
        t = str(c[2])
        return (1, len(t), sum(1 for ch in t.lstrip("-") if ch not in "abcdefghijklmnopqrstuvwxyz"), repr(c[2]))
    return (2, c[4], repr(c[1:4]))


def _nontrivial(case):
    """Does the case exercise the mechanism (stated in the evidence `rule`)?  Returns a hashable canonical form or None."""
    if case[0] in ("option", "argument", "command_option"):
        defined = case[1] & (A_DEFINED if case[0] == "argument" else O_DEFINED if case[0] == "option" else 3)
        if _popcount(defined) >= 2 or (case[0] != "command_option" and case[-1] != "none" and defined):
            return (case[0], defined) + tuple(repr(x) for x in case[2:])  # undefined bits do not make a new case
        return None
    if case[0] == "name":
        r = case[2]
        if len(r) >= 2 and (r.startswith("-") or any(ch not in ASCII_LETTERS for ch in r)):
            return (case[1], r)
    return None


def _run_share(share):
    """share = list of cases -> (evaluations, non-trivial canonical cases, simplest violation per signature)"""
    best = {}
    n = 0
    nt = set()
    n_parse_nt = 0
    for case in share:
        if case[0] == "parse":
            k, vs = check_parse(case)
            n += k
            n_parse_nt += sum(1 for tag, v, want in parse_inputs(case[2] or "STRING") if tag not in ("int-text", "int") or abs(int(v)) > 1100)
        else:
            v = CHECKS[case[0]](case)
            vs = [v] if v else []
            n += 1
            c = _nontrivial(case)
            if c is not None:
                nt.add(c)
        for v in vs:
            if v["sig"] not in best or _simplicity(v) < _simplicity(best[v["sig"]]):
                best[v["sig"]] = v
    return n, nt, n_parse_nt, list(best.values())


def all_cases(seed):
    cases = []
    for dk in ("none", "scalar", "list"):
        for short in (None, "s"):
            for flags in range(2 ** O_BITS):
                cases.append(["option", flags, short, dk])
    for dk in ("none", "scalar", "list"):
        for flags in range(2 ** A_BITS):
            cases.append(["argument", flags, dk])
    for aliases in (None, ["al"], ["al", "x"]):
        for short in (None, "s"):
            for flags in range(2 ** O_BITS):
                cases.append(["command_option", flags, short, aliases])
    n_flags = len(cases)
    extra = ["b", "9", ".", "="][seed % 4]
    alpha = ["a", "Z", "1", "-", "_", "é", " ", extra]
    base = name_strings(alpha, NAME_LEN.get(common.tier(), 4))
    raw = []
    seen = set()
    for s in base:
        for r in (s, "-" + s, "--" + s):
            if r not in seen:
                seen.add(r)
                raw.append(r)
    raw.sort(key=lambda r: (len(r), r))
    for r in raw:
        for role in ("long", "long-command-option", "short", "argument", "alias"):
            cases.append(["name", role, r])
    for v in (None, 5, 1.5, True, ["aa"]):
        for role in ("long", "short", "argument", "alias"):
            cases.append(["nonstring", role, v])
    n_names = len(cases) - n_flags
    for cls in ("option", "argument"):
        for tname in (None, "STRING", "BOOLEAN", "INTEGER", "FLOAT"):
            for nullable in (False, True):
                cases.append(["parse", cls, tname, nullable, None])
    return cases, dict(flag_word_cases=n_flags, name_cases=n_names, name_strings=len(raw), rotated_name_letter=extra,
                       max_name_length=NAME_LEN.get(common.tier(), 4), int_text_range=INT_RANGE.get(common.tier(), 1100))


def main():
    rep = report.Report(PID, "exploration")
    if not constants_agree():
        rep.violation(report.viol("flag-constants-renumbered", "the numeric flag layout differs from the one the oracle was written for", ["constants"]))
        return rep.finish()
    cases, info = all_cases(rep.seed)
    parse_cases = [c for c in cases if c[0] == "parse"]
    other = [c for c in cases if c[0] != "parse"]
    shares = par.chunks(other, 4 * common.ncpu()) + [[c] for c in parse_cases]
    allv = []
    distinct = set()
    for n, nt, npn, vs in par.pmap(_run_share, shares):
        rep.add("evaluations", n)
        rep.add("parse_nontrivial", npn)
        distinct |= nt
        allv.extend(vs)
    rep.set("distinct_nontrivial", len(distinct) + rep.cov.get("parse_nontrivial", 0))
    allv.sort(key=_simplicity)
    rep.merge(allv)
    for k, v in info.items():
        rep.set(k, v)
    rep.set("parse_inputs_per_type", {t: len(parse_inputs(t)) for t in TYPE_OF})
    rep.set("exhaustive", True)
    rep.set("rule", "evaluations = constructor calls + parse calls.  distinct_nontrivial = distinct flag cases after masking the undefined "
                    "bits that carry >= 2 defined bits (or one defined bit and a default) + distinct (role, string) name cases of length >= 2 "
                    "that carry a dash prefix or a non-letter + parse inputs other than the decimal text of the ints in [-1100, 1100]; "
                    "every case of the stated space is executed in both tiers")
    rep.sample(["option", O_MULTI | O_INTEGER, "s", "list"])
    rep.sample(["argument", A_REQUIRED | A_MULTI | A_FLOAT, "none"])
    rep.sample(["name", "alias", "--aZ"])
    rep.sample(["parse", "option", "INTEGER", False, 0])
    rep.assume("documented contradictions = the ValueError conditions named in the property statement; REQUIRED_VALUE|OPTIONAL_VALUE is not one")
    rep.assume("letters are ASCII letters")
    return rep.finish()
