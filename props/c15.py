"""C15 - section outputs keep the screen equal to the stacked section contents; plain outputs
degrade to appended lines without control codes.

E2, explicit-state breadth-first exploration on the real objects; states are rebuilt by replaying the history on
fresh objects (spec contract of mc/explore.py, `replay = True`).  The search loop is props/_c15_bfs.py, a
level-synchronous variant of mc/explore.py with one global fingerprint set (exact, split-independent counts and
less than half the executions); mc.explore.replay / rebuild are used as they are.

Bounds.  quick: 3 sections depth 6 (contains every history with 1-2 sections), 2 sections + rotated text kind depth 5.
thorough: 2 sections depth 8, 3 sections depth 7, 2 sections + rotated text kind depth 7.  Both: plain parts to a closed
graph + every plain history to depth 4/5 without deduplication; no-dedup cross-check of the fingerprint (depth 3/4).
The ANSI graph never closes (contents grow), every ANSI part is cut at its depth bound.

ANSI part.  One real Output over a BufferedOutputStream with AnsiFormatter(forced=True), COLUMNS=8,
a sentinel line written first.  After EVERY operation the bytes the operation emitted are drained from
the stream (as a terminal would consume them) and fed to a persistent mc.term.Term(8); the screen must be
    [sentinel] + for every section in creation order: every logical line wrapped at 8
Reference model: list (sections) of lists (logical lines); write_line appends text.split("\\n"),
overwrite replaces, clear() empties, clear(n) removes the last n logical lines.

Plain part.  Same operation alphabet on Output(BufferedOutputStream, PlainFormatter()) and on the default
NullFormatter: every operation's emitted bytes must be exactly the written line(s) + one "\\n"
(write_line, overwrite) or nothing (clear, clear(n)); never an ESC or other control byte.

Conventions / decisions (see also the final report of the builder):
* xterm deferred auto-wrap: a line of exactly 8 characters followed by "\\n" occupies ONE row.  That is what
  the code's ceil(len/width) assumes and what mc/term.py implements.
* The texts are chosen per state, not per depth: every new logical line consists of the smallest letter
  not used by any line currently in the model, so new content is always distinguishable from everything
  that is on the screen when the operation starts - stale rows cannot hide behind equal text (the screen is
  compared after every single operation, and a state that failed is not expanded) - while the number of
  distinct states stays small.  The op tuple carries the literal text, so a history replays by itself.
* clear(s, n) is only explored for 1 <= n <= logical lines of s (larger n: caller misuse, DESIGN.md 4);
  clear(s, 0) is not explored (0 is falsy and means "everything" in the code; the statement is silent).
* Not demanded: where the cursor ends and blank rows below the last content row (invisible; the cursor is part
  of the fingerprint instead, so a misplaced cursor is a different state and the first operation whose output
  lands in the wrong place is reported),
  SectionOutput.content / .lines values, section.write() without newline, writes to the parent Output while
  sections exist, indentation, a terminal of finite height (scrolling), tabs / wide characters.
* Fingerprint = mc.fingerprint.canon over the whole Output (its vars() recursively: every section's full
  vars(), the shared section list, the formatter, the drained stream) + the reference model + the emulator's
  cursor.  The stream is drained after every operation, so its buffer is "" in every fingerprinted state: no
  projection is involved.  The screen itself is a function of the model once the invariant held.
"""
import os

from mc import explore, report
from props import _c15_bfs
from mc.fingerprint import canon
from mc.term import Term, Unsupported, wrap_rows

PID = "C15"
WIDTH = 8
SENTINEL = "=SENTRY"  # 7 columns; a row of its own above every experiment: over-erasing destroys it
LETTERS = "abcdefghijklmnopqrstuvwxyz"
# core text kinds (always covered): below / exactly at / above the width, and a two-line text
CORE_KINDS = ["short", "full", "wrap", "two"]
# VERIF_SEED rotates ONE of these on top of the core alphabet
EXTRA_KINDS = ["empty", "rows2", "rows3", "tagged"]


def pre_import():
    _pin_env()


def _pin_env():
    os.environ["COLUMNS"] = str(WIDTH)
    os.environ["LINES"] = "24"


def make_text(kind, used):
    """Text of that kind built from the smallest letters not in `used` (a set of letters)."""
    free = [c for c in LETTERS if c not in used]
    a, b = free[0], free[1]
    if kind == "short":
        return a
    if kind == "full":
        return a * WIDTH
    if kind == "wrap":
        return a * (WIDTH + 3)
    if kind == "two":
        return a + "\n" + b
    if kind == "empty":
        return ""
    if kind == "rows2":
        return a * (2 * WIDTH)
    if kind == "rows3":
        return a * (2 * WIDTH + 1)
    if kind == "tagged":
        return "<b>" + a * WIDTH + "</b>"  # 8 visible columns, 15 characters with the tags
    if kind == "custom":
        # the same with a style the application registered on the formatter after it was constructed
        return "<hl>" + a * WIDTH + "</hl>"
    raise ValueError(kind)


def visible(line):
    """What a logical line shows: the only tag in the alphabet is <b>..</b> (known by construction)."""
    return line.replace("<b>", "").replace("</b>", "").replace("<hl>", "").replace("</hl>", "")


def _leaf(o):
    return None


class State(object):
    pass


class Base(object):
    replay = True

    def __init__(self, max_sections, kinds):
        self.max_sections = max_sections
        self.kinds = list(kinds)

    def ops(self, st, depth):
        used = set()
        for sec in st.model:
            for line in sec:
                used.update(c for c in visible(line) if c in LETTERS)
        out = []
        if len(st.model) < self.max_sections:
            out.append(("create",))
        texts = [make_text(k, used) for k in self.kinds]
        if st.model and not getattr(st, "decoy", None):
            # another Output of the same process gets a section with content of its own (on its own stream):
            # it is no business of this output's sections
            out.append(("decoy",))
        for s, sec in enumerate(st.model):
            # a line whose verbosity flag hides it (sections start at normal verbosity): nothing shown, nothing counted
            out.append(("write_line_hidden", s, texts[0]))
            for t in texts:
                out.append(("write_line", s, t))
            for t in texts:
                out.append(("overwrite", s, t))
            out.append(("clear", s))
            for n in range(1, len(sec) + 1):
                out.append(("clear_n", s, n))
        return out

    def do(self, st, op):
        """Run op on the real objects and on the reference model.  Returns a crash violation or None."""
        kind = op[0]
        try:
            if kind == "create":
                st.secs.append(st.out.section())
                st.model.append([])
            elif kind == "write_line":
                st.secs[op[1]].write_line(op[2])
                st.model[op[1]].extend(op[2].split("\n"))
            elif kind == "overwrite":
                st.secs[op[1]].overwrite(op[2])
                st.model[op[1]][:] = op[2].split("\n")
            elif kind == "clear":
                st.secs[op[1]].clear()
                del st.model[op[1]][:]
            elif kind == "clear_n":
                st.secs[op[1]].clear(op[2])
                del st.model[op[1]][-op[2]:]
            elif kind == "write_line_hidden":
                st.secs[op[1]].write_line(op[2], flags=1)  # VERBOSE
            elif kind == "decoy":
                from clikit.api.io.output import Output
                from clikit.io.output_stream.buffered_output_stream import BufferedOutputStream
                other = Output(BufferedOutputStream(), st.out.formatter)
                sec = other.section()
                sec.write_line("decoy line one")
                sec.write_line("decoy line two")
                st.decoy = (other, sec)
            else:
                raise ValueError("engine error: unknown op %r" % (op,))
        except Exception as e:  # noqa
            if not _in_clikit(e):  # no clikit frame on the stack: the harness itself is wrong
                raise
            return report.viol("crash:" + report.exc_site(e), "%s raised %r" % (op[0], e), None)
        return None

    def drain(self, st):
        data = st.stream.fetch()
        st.stream.clear()
        return data


def _in_clikit(exc):
    return "@?" not in report.exc_site(exc)


class AnsiSpec(Base):
    mode = "ansi"

    def __init__(self, max_sections, kinds, indent=0):
        Base.__init__(self, max_sections, kinds)
        self.indent = indent  # indentation of the output at the time its sections are created

    def init(self):
        _pin_env()
        from clikit.api.io.output import Output
        from clikit.formatter.ansi_formatter import AnsiFormatter
        from clikit.io.output_stream.buffered_output_stream import BufferedOutputStream
        from clikit.utils.terminal import Terminal
        if Terminal().width != WIDTH:
            raise RuntimeError("engine error: terminal width is not pinned to %d" % WIDTH)
        st = State()
        st.stream = BufferedOutputStream()
        st.out = Output(st.stream, AnsiFormatter(forced=True))
        from clikit.api.formatter import Style
        st.out.formatter.add_style(Style("hl").bold())  # a custom style, added after construction (text kind "custom")
        st.secs = []
        st.model = []
        st.term = Term(WIDTH)
        st.out.write_line(SENTINEL)
        st.term.feed(self.drain(st))
        if self.indent:
            st.out.indent(self.indent)  # sections created from now on carry this indentation
        return st

    def key(self, st):
        t = st.term
        return (canon(st.out, _leaf), tuple(tuple(s) for s in st.model), t.r, t.c, t.pending_wrap,
                canon(getattr(st, "decoy", None), _leaf))

    def expected_screen(self, st):
        rows = [SENTINEL]
        pad = " " * self.indent
        for sec in st.model:
            for line in sec:
                vis = visible(line)
                rows.extend(wrap_rows(pad + vis if vis else vis, WIDTH))
        while rows and rows[-1] == "":
            rows.pop()
        return rows

    @staticmethod
    def _wraps(st):
        return any(len(visible(l)) > WIDTH for sec in st.model for l in sec)

    def apply(self, st, op):
        wraps = self._wraps(st) or bool(self.indent)
        v = self.do(st, op)
        if v:
            return [v]
        wraps = wraps or self._wraps(st)
        data = self.drain(st)
        try:
            st.term.feed(data)
        except Unsupported as e:
            return [report.viol("screen:unsupported-control", "%s emitted something the emulator does not model: %s" % (op[0], e),
                                None, None, data)]
        exp = self.expected_screen(st)
        got = st.term.screen()
        if got == exp:
            return []
        # signature = how the screen is wrong + which operation + whether a wrapped line was involved at all
        return [report.viol("screen:%s:%s:%s" % (classify(exp, got), op[0], "wrapped" if wraps else "nowrap"),
                            "after %s the screen differs from the stacked section contents" % (op,), None, exp, got)]


def classify(exp, got):
    """A short predicate naming how the screen is wrong (part of the signature)."""
    if not got or got[0] != exp[0]:
        return "sentinel-damaged"
    e, g = list(exp), list(got)
    for r in exp:
        if r in g:
            g.remove(r)
    for r in got:
        if r in e:
            e.remove(r)
    # g = rows on screen that should not be there, e = rows that should be there and are not
    if g and not e:
        return "stale-rows"
    if e and not g:
        return "lost-rows"
    if e and g:
        return "wrong-rows"
    return "order"


class PlainSpec(Base):
    mode = "plain"

    def __init__(self, max_sections, kinds, formatter="plain"):
        Base.__init__(self, max_sections, kinds)
        self.formatter = formatter

    def init(self):
        _pin_env()
        from clikit.api.io.output import Output
        from clikit.formatter.plain_formatter import PlainFormatter
        from clikit.io.output_stream.buffered_output_stream import BufferedOutputStream
        st = State()
        if self.formatter == "plain-on-ansi-stream":
            # a terminal-like stream that could take control codes, with a formatter that disables them
            # (what --no-ansi selects on a tty): the output is undecorated, its sections must degrade all the same
            class AnsiCapable(BufferedOutputStream):
                def supports_ansi(self):
                    return True
            st.stream = AnsiCapable()
            st.out = Output(st.stream, PlainFormatter())
        else:
            st.stream = BufferedOutputStream()
            st.out = Output(st.stream, PlainFormatter()) if self.formatter == "plain" else Output(st.stream)
        st.secs = []
        st.model = []
        st.all = ""
        st.exp_all = SENTINEL + "\n"
        st.out.write_line(SENTINEL)
        st.all += self.drain(st)
        st.broken_sentinel = st.all != SENTINEL + "\n"  # judged in apply(): a plain write_line on the parent output is broken
        return st

    def key(self, st):
        # the model is NOT part of the key: a plain section keeps no content, what an operation emits is a
        # function of the objects' state alone (and is checked on every transition)
        return (canon(st.out, _leaf), canon(getattr(st, "decoy", None), _leaf))

    def apply(self, st, op):
        if getattr(st, "broken_sentinel", False):
            return [report.viol("plain:parent-write_line", "Output.write_line of the sentinel on the undecorated parent output came out as %r" % st.all,
                                None, SENTINEL + "\n", st.all)]
        v = self.do(st, op)
        if v:
            return [v]
        data = self.drain(st)
        st.all += data
        exp = ""
        if op[0] in ("write_line", "overwrite"):
            exp = visible(op[2]) + "\n"
        bad = sorted(set(c for c in data if c != "\n" and (ord(c) < 32 or ord(c) == 127)))
        if bad:
            return [report.viol("plain:control-code:%s" % op[0], "%s on a plain output emitted control characters" % (op,), None, exp, data)]
        st.exp_all += exp
        if data == exp:
            if st.all != st.exp_all:
                raise RuntimeError("engine error: drained pieces do not add up to the expected stream")
            return []
        if exp and data == exp[:-1]:
            sig = "plain:missing-newline"
        elif not exp:
            sig = "plain:clear-emits:%s" % op[0]
        else:
            sig = "plain:stream-mismatch:%s" % op[0]
        return [report.viol(sig, "%s on a plain output must append %r" % (op, exp), None, exp, data)]


def _spec_for(case):
    kinds = case.get("kinds") or CORE_KINDS
    if case.get("mode") == "plain":
        return PlainSpec(case.get("max_sections", 3), kinds, case.get("formatter", "plain"))
    return AnsiSpec(case.get("max_sections", 3), kinds, case.get("indent", 0))


def replay(case):
    _pin_env()
    return explore.replay(_spec_for(case), case)


def main():
    _pin_env()
    rep = report.Report(PID, "model_checking")
    extra = EXTRA_KINDS[rep.seed % len(EXTRA_KINDS)]
    runs = []  # (name, spec, depth)
    if rep.tier == "thorough":
        runs.append(("ansi-2sections", AnsiSpec(2, CORE_KINDS), 8))
        runs.append(("ansi-3sections", AnsiSpec(3, CORE_KINDS), 7))
        runs.append(("ansi-2sections-extra", AnsiSpec(2, CORE_KINDS + [extra]), 7))
        runs.append(("ansi-2sections-indent3", AnsiSpec(2, CORE_KINDS, indent=3), 7))
        runs.append(("ansi-2sections-custom-style", AnsiSpec(2, ["short", "wrap", "custom"]), 6))
        xdepth = 4
    else:
        # histories with <= 2 sections are a subset of this part (creating the third section is optional)
        runs.append(("ansi-3sections", AnsiSpec(3, CORE_KINDS), 6))
        runs.append(("ansi-2sections-extra", AnsiSpec(2, CORE_KINDS + [extra]), 5))
        # the output is indented when its sections are created: a line may wrap only because of the indentation
        runs.append(("ansi-2sections-indent3", AnsiSpec(2, CORE_KINDS, indent=3), 5))
        # lines tagged with a style that was added to the formatter after its construction
        runs.append(("ansi-2sections-custom-style", AnsiSpec(2, ["short", "wrap", "custom"]), 4))
        xdepth = 3
    runs.append(("plain-PlainFormatter", PlainSpec(3, CORE_KINDS + [extra], "plain"), 6))
    runs.append(("plain-NullFormatter", PlainSpec(3, CORE_KINDS, "null"), 6))
    runs.append(("plain-PlainFormatter-on-ansi-capable-stream", PlainSpec(3, CORE_KINDS, "plain-on-ansi-stream"), 6))
    tot_t = 0
    all_keys = set()  # the parts overlap (same fingerprint function): states are counted once, in the union
    all_closed = True
    for name, spec, depth in runs:
        r = _c15_bfs.explore(spec, depth, keep_keys=True)
        all_keys |= set((spec.mode, k) for k in r.keys) if spec.mode == "plain" else set((getattr(spec, "indent", 0), k) for k in r.keys)
        r.keys = set()
        for v in r.violations:
            v["case"].update(mode=spec.mode, kinds=spec.kinds, max_sections=spec.max_sections, indent=getattr(spec, "indent", 0))
            if spec.mode == "plain":
                v["case"]["formatter"] = spec.formatter
        rep.merge(r.violations)
        rep.part(name, depth=depth, max_sections=spec.max_sections, kinds=spec.kinds, **r.as_dict())
        tot_t += r.transitions
        all_closed = all_closed and r.closed
        for s in r.samples[:1]:
            rep.sample({"run": name, "history": s})
    # "the same histories on a plain output": the plain graph closes after 3 creations because a plain section keeps no
    # state; additionally every history up to a small depth is executed without deduplication
    pd = 5 if rep.tier == "thorough" else 4
    pn = PlainSpec(2, CORE_KINDS, "plain")
    r = _c15_bfs.explore(pn, pd, dedup=False)
    for v in r.violations:
        v["case"].update(mode="plain", kinds=pn.kinds, max_sections=2, formatter="plain")
    rep.merge(r.violations)
    rep.part("plain-nodedup", depth=pd, max_sections=2, kinds=pn.kinds, histories=r.states, **r.as_dict())
    tot_t += r.transitions
    # cross-check of the fingerprint: without deduplication exactly the same set of fingerprints is reached
    xs = AnsiSpec(2, CORE_KINDS)
    r1 = _c15_bfs.explore(xs, xdepth, dedup=True, keep_keys=True)
    r2 = _c15_bfs.explore(xs, xdepth, dedup=False, keep_keys=True)
    for r in (r1, r2):
        for v in r.violations:
            v["case"].update(mode="ansi", kinds=xs.kinds, max_sections=2, indent=0)
    rep.merge(r1.violations)
    rep.merge(r2.violations)
    if not r1.violations and not r2.violations and r1.keys != r2.keys:
        # (with violations the two runs stop expanding at different places: the comparison only means something on a silent tree)
        raise RuntimeError("engine error: dedup cross-check failed (%d vs %d fingerprints)" % (len(r1.keys), len(r2.keys)))
    rep.part("ansi-nodedup-crosscheck", depth=xdepth, executions_dedup=r1.transitions, executions_nodedup=r2.transitions,
             fingerprints=len(r2.keys), same_fingerprint_set=r1.keys == r2.keys)
    tot_t += r1.transitions + r2.transitions
    tot_s = len(all_keys)
    rep.set("states", tot_s)
    rep.set("transitions", tot_t)
    rep.set("evaluations", tot_t)
    rep.set("distinct_nontrivial", tot_s)
    rep.set("traces_validated_against_impl", tot_t)
    # a state in which the oracle failed is not expanded, so with violations the space is not complete
    rep.set("exhaustive", not rep.violations)
    rep.set("all_parts_closed", all_closed and not rep.violations)
    rep.set("rotated_text_kind", extra)
    rep.set("rule", "every operation sequence up to the stated depth per part over {create, write_line, overwrite, clear, "
                    "clear(n<=lines)} x text kinds, executed on the real Output/SectionOutput; after every operation the "
                    "emitted bytes are interpreted by the terminal emulator (width 8) and compared with the reference list "
                    "of lists; states = distinct_nontrivial = distinct full-state fingerprints (whole Output incl. every section's vars() + "
                    "model + cursor) in the union of all parts; per-part numbers under parts")
    rep.assume("xterm deferred auto-wrap: a line of exactly 8 characters followed by a newline occupies one row")
    rep.assume("terminal of unbounded height (no scrolling); clear(n) with n above the section's line count and clear(0) are not explored")
    return rep.finish()
