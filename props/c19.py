"""C19 - the automatic progress indicator is well-behaved under every interleaving.

E3: every schedule of spinner thread x main thread up to a preemption bound, on the real
ProgressIndicator, under a virtual clock (mc/sched.py).  Manual mode: E2 over call sequences and
clock advances.
"""
import re

from mc import common, explore, par, report, sched
from mc.fingerprint import canon
from mc.term import Term

PID = "C19"
VALUES = ["-", "\\", "|", "/"]


class Boom(Exception):
    pass


# ---- configurations ---------------------------------------------------------------------------
# body steps: ("sleep", ms) | ("msg", text) | ("raise", kind) | ("other", text) | ("advance",)
BODIES_QUICK = [
    ("empty", []),
    ("sleep", [("sleep", 250)]),
    ("msg", [("msg", "M1")]),
    ("sleep-msg-sleep", [("sleep", 120), ("msg", "M1"), ("sleep", 120)]),
    ("two-msgs", [("msg", "M1"), ("msg", "Second message")]),
    ("msg-raise", [("msg", "M1"), ("raise", "Boom")]),
    ("raise", [("raise", "Boom")]),
    ("sleep-raise-kbd", [("sleep", 120), ("raise", "KeyboardInterrupt")]),
    ("exit", [("sleep", 120), ("raise", "SystemExit")]),
    ("other-stream", [("other", "work 1"), ("sleep", 120), ("other", "work 2")]),
    # the body announces the end message itself: at once, and after the spinner has gone round once (4 values, 100 ms each)
    ("msg-end", [("msg", "End")]),
    # a message that looks like the placeholders of the indicator's format: it is text and is shown as it is
    ("msg-placeholder", [("msg", "docs/{indicator}.html {elapsed} {message}")]),
    ("sleep4-msg-end", [("sleep", 420), ("msg", "End")]),
]
BODIES_THOROUGH = BODIES_QUICK + [
    ("three-msgs", [("msg", "M1"), ("sleep", 50), ("msg", "Second message"), ("msg", "M3")]),
    ("long-sleep", [("sleep", 450), ("msg", "M1")]),
    ("msg-sleep-raise", [("msg", "M1"), ("sleep", 220), ("raise", "Boom")]),
]


def make_exc(kind):
    return {"Boom": Boom("boom"), "KeyboardInterrupt": KeyboardInterrupt(), "SystemExit": SystemExit(3)}[kind]


def frame_re(messages, ansi, verbose):
    msg = "(?:%s)" % "|".join(re.escape(m) for m in messages)
    el = r" \([^()]*\)" if verbose else ""
    if ansi:
        return re.compile(r"^ (?:%s) %s%s$" % ("|".join(re.escape(v) for v in VALUES), msg, el))
    return re.compile(r"^ %s%s$" % (msg, el))


def run_one(cfg, choices):
    """Execute one schedule.  cfg = dict(body=[...], ansi=bool, interval=int, verbose=bool, fine=bool)
    Returns (points, violations, observation)."""
    import clikit.ui.components.progress_indicator as pi
    from clikit.api.io import Output
    from clikit.formatter import AnsiFormatter, PlainFormatter
    from clikit.io.output_stream import BufferedOutputStream

    s = sched.Sched(choices, trace_lines_in="progress_indicator.py" if cfg.get("fine") else None)

    class Stream(BufferedOutputStream):
        def __init__(self, tag):
            super(Stream, self).__init__()
            self.tag = tag

        def write(self, string):
            s.point("write")
            s.log.append((s.current.tid, self.tag, string))
            super(Stream, self).write(string)

    saved = sched.plant(pi, s)
    try:
        err = Output(Stream("err"), AnsiFormatter(forced=True) if cfg["ansi"] else PlainFormatter())
        other = Output(Stream("out"), PlainFormatter())
        if cfg.get("verbose"):
            err.set_verbosity(1)
        if cfg.get("quiet"):
            err.set_quiet(True)
        ind = pi.ProgressIndicator(err, interval=cfg["interval"])

        def body():
            with ind.auto("Start", "End"):
                for st in cfg["body"]:
                    if st[0] == "sleep":
                        s.sleep(st[1] / 1000.0)
                    elif st[0] == "msg":
                        ind.set_message(st[1])
                    elif st[0] == "other":
                        other.write_line(st[1])
                    elif st[0] == "raise":
                        raise make_exc(st[1])

        exc, alive = s.run_main(body)
    finally:
        sched.unplant(pi, saved)
    vs = judge(cfg, s, exc, alive)
    obs = (tuple(s.log), type(exc).__name__ if exc else None, tuple(alive))
    return s.points, vs, obs


def judge(cfg, s, exc, alive):
    vs = []
    raises = [st[1] for st in cfg["body"] if st[0] == "raise"]
    messages = ["Start", "End"] + [st[1] for st in cfg["body"] if st[0] == "msg"]
    if s.deadlock:
        return [report.viol("deadlock", "no enabled thread while some are unfinished", {})]
    if s.livelock:
        return [report.viol("livelock", "execution exceeded %d scheduling points" % s.HORIZON, {})]
    if alive:
        vs.append(report.viol("spinner-not-joined:" + (raises[0] if raises else "normal-exit"),
                              "spinner thread still alive after leaving auto() (%s)" % (raises[0] if raises else "normal exit"),
                              {}, [], alive))
    want = raises[0] if raises else None
    got = type(exc).__name__ if exc is not None else None
    if want != got:
        vs.append(report.viol("exception-changed", "body raised %s, auto() let %s out" % (want, got), {}, want, repr(exc)))
    for t in s.threads[1:]:
        if t.exc is not None:
            vs.append(report.viol("spinner-crashed:" + report.exc_site(t.exc), "spinner thread died with %r" % (t.exc,), {}))
    # replay the error stream on the emulator, write by write
    fre = frame_re(messages, cfg["ansi"], cfg.get("verbose"))
    term = Term(80)
    for k, (tid, tag, text) in enumerate(s.log):
        if tag != "err":
            continue
        term.feed(text)
        for line in term.lines():
            if line and not fre.match(line):
                vs.append(report.viol("mixed-frame" if cfg["ansi"] else "mixed-line",
                                      "after write #%d the terminal shows %r, which is not one frame" % (k, line), {},
                                      "one frame ' <indicator> <message>' per line", line))
                break
        else:
            continue
        break
    if cfg.get("quiet"):
        wrote = [t for (_tid, tag, t) in s.log if tag == "err"]
        if wrote and not vs:
            vs.append(report.viol("quiet:bytes-written", "the indicator wrote to a quiet output", {}, [], wrote[:3]))
    elif not raises and not vs:
        shown = [l for l in term.lines() if l]
        if not shown or " End" not in shown[-1][-(len(" End") + (12 if cfg.get("verbose") else 0)):] and not shown[-1].split(" (")[0].endswith(" End"):
            vs.append(report.viol("end-frame-not-last", "normal exit: last frame shown is %r" % (shown[-1] if shown else None), {}, " <indicator> End", shown[-3:]))
    return vs


def explore_cfg(cfg, bound, max_execs=None):
    outcomes = set()

    def one(choices):
        pts, vs, obs = run_one(cfg, choices)
        outcomes.add(hash(obs))
        return pts, vs

    stats, vs = sched.explore(one, bound, max_execs=max_execs)
    for v in vs:
        ch = v["case"]["choices"]
        v["case"] = {"cfg": cfg, "choices": ch}
        v["_rank"] = (sum(1 for c in ch if c), len(ch))
    vs.sort(key=lambda v: v.pop("_rank"))
    stats["distinct_outcomes"] = len(outcomes)
    return stats, vs[:20]


# ---- manual mode (no thread): E2 ------------------------------------------------------------
class ManualState(object):
    pass


class ManualSpec(object):
    replay = True
    DELTAS = [0, 40, 100, 250]

    def __init__(self, interval=100, ansi=True):
        self.interval = interval
        self.ansi = ansi

    def init(self):
        import clikit.ui.components.progress_indicator as pi
        from clikit.api.io import Output
        from clikit.formatter import AnsiFormatter, PlainFormatter
        from clikit.io.output_stream import BufferedOutputStream
        st = ManualState()
        st.s = sched.Sched(())
        st.pi = pi
        st.writes = []

        class Stream(BufferedOutputStream):
            def write(self_, string):
                st.writes.append(string)
                super(Stream, self_).write(string)

        st.out = Output(Stream(), AnsiFormatter(forced=True) if self.ansi else PlainFormatter())
        saved = sched.plant(pi, st.s)
        try:
            st.ind = pi.ProgressIndicator(st.out, interval=self.interval)
        finally:
            sched.unplant(pi, saved)
        st.started = False
        st.msg = None
        st.last_adv_draw = None  # time of start or of the last redraw caused by advance
        st.term = Term(80)
        return st

    def ops(self, st, depth):
        out = []
        for d in self.DELTAS:
            if not st.started:
                out.append(("start", d, "Start"))
            else:
                out.append(("advance", d))
                out.append(("set_message", d, "M1"))
                out.append(("set_message", d, "Longer {indicator} {elapsed} text"))  # a message is text, not a format
                out.append(("finish", d, "End", 0))
                out.append(("finish", d, "End", 1))
        return out

    def key(self, st):
        now = st.s.clock_ms
        d = dict(vars(st.ind))
        ut = d.pop("_update_time")
        d.pop("_start_time")  # only read by the {elapsed} placeholder, absent from the NORMAL format
        d.pop("_io")
        rel = None if ut is None else max(0, min(self.interval, ut - now))
        lad = None if st.last_adv_draw is None else min(self.interval, now - st.last_adv_draw)
        return (canon(d), rel, lad, st.started, st.msg, tuple(st.term.lines()), st.term.r)

    def apply(self, st, op):
        vs = []
        st.s.clock_ms += op[1]
        now = st.s.clock_ms
        n0 = len(st.writes)
        saved = sched.plant(st.pi, st.s)
        try:
            try:
                if op[0] == "start":
                    st.ind.start(op[2])
                    st.started, st.msg, st.last_adv_draw = True, op[2], now
                elif op[0] == "advance":
                    st.ind.advance()
                elif op[0] == "set_message":
                    st.ind.set_message(op[2])
                    st.msg = op[2]
                elif op[0] == "finish":
                    st.ind.finish(op[2], reset_indicator=bool(op[3]))
                    st.msg = op[2]
            except Exception as e:
                return [report.viol("crash:" + report.exc_site(e), "%r raised %r" % (op, e), None)]
        finally:
            sched.unplant(st.pi, saved)
        new = st.writes[n0:]
        drew = bool(new)
        if op[0] == "advance" and drew:
            if not self.ansi:
                vs.append(report.viol("manual-plain-advance-draws", "advance() drew on an undecorated output", None))
            elif now - st.last_adv_draw < self.interval:
                vs.append(report.viol("manual-redraw-too-soon", "advance() redrew %d ms after the previous advance redraw/start (interval %d)" % (
                    now - st.last_adv_draw, self.interval), None, self.interval, now - st.last_adv_draw))
            st.last_adv_draw = now
        fre = frame_re([st.msg], self.ansi, False)
        for w in new:
            st.term.feed(w)
        if drew:
            lines = st.term.lines()
            # finish() ends the line; an undecorated output puts every frame on a line of its own
            cur = lines[st.term.r] if (op[0] != "finish" and self.ansi) else ([l for l in lines if l] or [""])[-1]
            if self.ansi or op[0] != "advance":
                if not fre.match(cur):
                    vs.append(report.viol("manual-bad-frame", "after %r the line shows %r: not ' <indicator> <current message>'" % (op, cur), None,
                                          " <indicator> " + st.msg, cur))
        if op[0] == "finish":
            st.started = False
            st.last_adv_draw = None
        return vs


# ---- entry points ---------------------------------------------------------------------------
def replay(case):
    if "history" in case:
        spec = ManualSpec(case.get("interval", 100), case.get("ansi", True))
        return explore.replay(spec, case)
    pts, vs, obs = run_one(case["cfg"], case["choices"])
    return vs[0] if vs else None


def main():
    rep = report.Report(PID, "model_checking")
    thorough = rep.tier == "thorough"
    bodies = BODIES_THOROUGH if thorough else BODIES_QUICK
    extra_interval = [70, 130, 30, 200][rep.seed % 4]  # VERIF_SEED rotates one extra interval
    cfgs = []
    for name, body in bodies:
        for ansi in (True, False):
            for interval in (100, 50):
                cfgs.append(dict(name=name, body=body, ansi=ansi, interval=interval, verbose=False, fine=False, bound=4 if thorough else 3))
        cfgs.append(dict(name=name, body=body, ansi=True, interval=extra_interval, verbose=False, fine=False, bound=2))
        cfgs.append(dict(name=name, body=body, ansi=True, interval=100, verbose=True, fine=False, bound=2))
        # line-level scheduling points inside progress_indicator.py
        cfgs.append(dict(name=name, body=body, ansi=True, interval=100, verbose=False, fine=True, bound=2))
        if name in ("empty", "sleep", "msg-raise", "sleep-raise-kbd"):
            # a quiet error output: nothing is drawn, the life cycle of the spinner and the body's exception are the same
            cfgs.append(dict(name=name, body=body, ansi=True, interval=100, verbose=False, fine=False, quiet=True, bound=2))

    # determinism self-check: one recorded schedule replayed twice must give identical observations
    probe = dict(body=BODIES_QUICK[3][1], ansi=True, interval=100, verbose=False, fine=False)
    pts, _, obs1 = run_one(probe, [0, 0, 0, 1])
    ch = [p.chosen for p in pts]
    _, _, obs2 = run_one(probe, ch)
    _, _, obs3 = run_one(probe, ch)
    if obs2 != obs3 or obs1 != obs2:
        raise sched.EngineError("replay of one schedule is not deterministic")

    def work(cfg):
        bound = cfg.pop("bound")
        stats, vs = explore_cfg(cfg, bound)
        return cfg, bound, stats, vs

    execs = 0
    outcomes = 0
    nontrivial = 0
    for cfg, bound, stats, vs in par.pmap(work, cfgs):
        rep.merge(vs)
        execs += stats["execs"]
        outcomes += stats["distinct_outcomes"]
        nontrivial += sum(n for k, n in stats["by_preemptions"].items() if k > 0)
        key = "%s/%s/i%d%s%s" % (cfg["name"], "ansi" if cfg["ansi"] else "plain", cfg["interval"], "/verbose" if cfg["verbose"] else "", ("/lines" if cfg["fine"] else "") + ("/quiet" if cfg.get("quiet") else ""))
        rep.part(key, preemption_bound=bound, schedules=stats["execs"], by_preemptions=stats["by_preemptions"],
                 max_points=stats["max_points"], distinct_outcomes=stats["distinct_outcomes"])
    rep.sample({"cfg": probe, "choices": ch, "writes": [list(x) for x in obs2[0]][:12]})

    # manual mode
    mstates = mtrans = 0
    for interval in (100, 50):
        for ansi in (True, False):
            spec = ManualSpec(interval, ansi)
            r = explore.explore(spec, 6 if thorough else 5, split_depth=2)
            for v in r.violations:
                v["case"]["interval"] = interval
                v["case"]["ansi"] = ansi
            rep.merge(r.violations)
            rep.part("manual/i%d/%s" % (interval, "ansi" if ansi else "plain"), **r.as_dict())
            mstates += r.states
            mtrans += r.transitions
            for smp in r.samples[:1]:
                rep.sample({"manual": smp})
    rep.set("states", mstates + outcomes)
    rep.set("transitions", mtrans + execs)
    rep.set("traces_validated_against_impl", execs + mtrans)
    rep.set("schedules", execs)
    rep.set("evaluations", execs + mtrans)
    rep.set("distinct_nontrivial", nontrivial)
    rep.set("distinct_observed_outcomes", outcomes)
    rep.set("exhaustive", True)
    rep.set("rotated_interval", extra_interval)
    rep.set("rule", "automatic mode: every schedule of main x spinner with at most <bound> preemptions per configuration (scheduling points: every stream write, "
                    "sleep, Event.set/is_set, Thread.start/join; '/lines' configurations add every source line of progress_indicator.py), executed on the real "
                    "ProgressIndicator; non-trivial = schedules with >= 1 preemption; states = distinct observed outcomes (write sequences) + manual-mode states. "
                    "manual mode: BFS over start/advance/set_message/finish x clock advances {0,40,100,250} ms")
    rep.assume("threads interleave only at the scheduling points named in the rule; the terminal is the emulator in mc/term.py")
    rep.assume("a sleeping thread may be woken late (timers fire in any order at the cost of one preemption)")
    return rep.finish()
