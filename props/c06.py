"""C06 - an args format can never be built into an inconsistent state.

E2 exploration of the real ArgsFormatBuilder (plain data -> forked with deepcopy) stacked on
0-2 levels of base formats that were themselves built through the builder.  State = (builder,
reference model = the elements that were accepted, per kind, in order).  Full-vars fingerprint.

Invariants after every transition (DESIGN.md "### C06"):
 I1  a rejected single addition raises CannotAddOptionException / CannotAddArgumentException and
     leaves the fingerprint unchanged; an addition is rejected iff the reference finds a conflict.
 I2  over format + bases every long name, short name and alias identifies <= 1 element.
 I3  <= 1 multi-valued argument and it is last; no required argument after an optional one.
 I4  builder, built ArgsFormat and the reference agree on every query (both include_base values).
 I5  ArgsFormat(elements, base) accepts every reachable element list (same answers) and rejects
     elements + [e] for every e the reference rejects.
 I6  CommandConfig.build_args_format(base) obeys the same for the options/arguments part.

Decisions (what is deliberately NOT demanded):
 * set_* need not be atomic: after a set_* that raised, the reference is re-synchronised from the
   builder's own listing (which must consist of old or new elements); everything else is then
   checked against that listing.
 * get_command_options() lists an aliased command option once per long name/alias (the listing is
   the value list of the name index).  The statement does not say how often an element is listed:
   adjacent repetitions of the same object are folded before comparing.
 * get_options(include_base=True): relative order *between* levels is not demanded (own-before-base
   is what the code does and options have no positional meaning); the order inside a level is, and
   for arguments and command names the full order (base first) is demanded because it is positional.
 * a CommandOption that collides with itself (alias == own name) may be accepted or rejected.
 * a built format sharing mutable lists with a builder that is modified afterwards is not examined.
"""
import copy
import itertools

from mc import common, explore, par, report
from mc.fingerprint import canon

PID = "C06"
REPEAT_BUDGET = 300  # transitions per part that may repeat an already recorded failure before the part is cut short

# ------------------------------------------------------------------ elements
# ("o", long, short|None, mode)   mode 0 = flag, 1 = required value
# ("c", long, short|None, (aliases...))
# ("a", name, kind)               kind in r (required) o (optional) m (optional multi) rm (required multi)
# ("n", string, (aliases...))


def norm(x):
    if isinstance(x, (list, tuple)):
        return tuple(norm(v) for v in x)
    return x


def make(e):
    from clikit.api.args.format.argument import Argument
    from clikit.api.args.format.command_name import CommandName
    from clikit.api.args.format.command_option import CommandOption
    from clikit.api.args.format.option import Option
    k = e[0]
    if k == "o":
        return Option(e[1], e[2], Option.REQUIRED_VALUE if e[3] else Option.NO_VALUE)
    if k == "c":
        return CommandOption(e[1], e[2], list(e[3]))
    if k == "a":
        fl = {"r": Argument.REQUIRED, "o": Argument.OPTIONAL, "m": Argument.MULTI_VALUED,
              "rm": Argument.REQUIRED | Argument.MULTI_VALUED}[e[2]]
        return Argument(e[1], fl)
    if k == "n":
        return CommandName(e[1], list(e[2]))
    raise ValueError(e)


def sigof(o):
    """Value identity of a real element (deep copies keep it)."""
    n = type(o).__name__
    if n == "Option":
        return ("o", o.long_name, o.short_name, o.flags)
    if n == "CommandOption":
        return ("c", o.long_name, o.short_name, tuple(o.long_aliases), tuple(o.short_aliases))
    if n == "Argument":
        return ("a", o.name, o.flags)
    if n == "CommandName":
        return ("n", o.string, tuple(o.aliases))
    return ("?", repr(o))


_SIG = {}


def esig(e):
    if e not in _SIG:
        _SIG[e] = sigof(make(e))
    return _SIG[e]


def names_of(e):
    if e[0] == "o":
        return [e[1]] + ([e[2]] if e[2] else [])
    if e[0] == "c":
        return [e[1]] + ([e[2]] if e[2] else []) + list(e[3])
    return []


def self_colliding(e):
    ns = names_of(e)
    return len(ns) != len(set(ns))


def is_req(a):
    return a[2] in ("r", "rm")


def is_multi(a):
    return a[2] in ("m", "rm")


def empty_level():
    return {"n": [], "c": [], "o": [], "a": []}


def conflict(levels, e):
    """Reference: why adding e to levels[0] (own) on top of levels[1:] (bases) must be refused."""
    k = e[0]
    if k in ("o", "c"):
        used = set()
        for lv in levels:
            for x in lv["o"] + lv["c"]:
                used.update(names_of(x))
        for n in names_of(e):
            if n in used:
                return "exists:" + ("long" if len(n) > 1 else "short")
        return None
    if k == "a":
        args = [a for lv in levels for a in lv["a"]]
        if any(a[1] == e[1] for a in args):
            return "exists"
        if any(is_multi(a) for a in args):
            return "after-multi"
        if is_req(e) and any(not is_req(a) for a in args):
            return "required-after-optional"
        return None
    return None


# ------------------------------------------------------------------ query battery
OPT_NAMES = ["aa", "bb", "cc", "dd", "ee", "a", "b", "c", "d", "x"]
ARG_NAMES = ["x", "y", "z", "w", "v", "aa"]
NOSUCH = {"opt": "NoSuchOptionException", "arg": "NoSuchArgumentException"}


def expected_answers(levels):
    """All queries with the answer the listed elements imply.  levels[0] = own, then bases (nearest first).
    Returns list of (qname, method, args, include_base, expected) ; expected is ('v', value) / ('x', excname)
    / ('list', per-level lists, mode)."""
    out = []
    for ib in (True, False):
        L = levels if ib else levels[:1]
        opts = [o for lv in L for o in lv["o"]]
        copts = [c for lv in L for c in lv["c"]]
        args = [a for lv in reversed(L) for a in lv["a"]]  # base first: positional order
        cnames = [n for lv in reversed(L) for n in lv["n"]]
        for n in OPT_NAMES:
            hit = [o for o in opts if n in names_of(o)]
            out.append(("has_option", "has_option", (n,), ib, ("v", bool(hit))))
            out.append(("get_option", "get_option", (n,), ib, ("v", esig(hit[0])) if hit else ("x", NOSUCH["opt"])))
            hit = [c for c in copts if n in names_of(c)]
            out.append(("has_command_option", "has_command_option", (n,), ib, ("v", bool(hit))))
            out.append(("get_command_option", "get_command_option", (n,), ib,
                        ("v", esig(hit[0])) if hit else ("x", NOSUCH["opt"])))
        out.append(("has_options", "has_options", (), ib, ("v", bool(opts))))
        out.append(("has_command_options", "has_command_options", (), ib, ("v", bool(copts))))
        out.append(("has_command_names", "has_command_names", (), ib, ("v", bool(cnames))))
        out.append(("has_arguments", "has_arguments", (), ib, ("v", bool(args))))
        out.append(("has_required_argument", "has_required_argument", (), ib, ("v", any(is_req(a) for a in args))))
        out.append(("has_optional_argument", "has_optional_argument", (), ib, ("v", any(not is_req(a) for a in args))))
        out.append(("has_multi_valued_argument", "has_multi_valued_argument", (), ib, ("v", any(is_multi(a) for a in args))))
        out.append(("get_options", "get_options", (), ib, ("levels", [[(o[1], esig(o)) for o in lv["o"]] for lv in L])))
        out.append(("get_command_options", "get_command_options", (), ib, ("levels", [[esig(c) for c in lv["c"]] for lv in L])))
        out.append(("get_arguments", "get_arguments", (), ib, ("exact", [(a[1], esig(a)) for a in args])))
        out.append(("get_command_names", "get_command_names", (), ib, ("exact", [esig(n) for n in cnames])))
        for n in ARG_NAMES:
            hit = [a for a in args if a[1] == n]
            out.append(("has_argument(name)", "has_argument", (n,), ib, ("v", bool(hit))))
            out.append(("get_argument(name)", "get_argument", (n,), ib, ("v", esig(hit[0])) if hit else ("x", NOSUCH["arg"])))
        for p in range(len(args) + 2):
            out.append(("has_argument(pos)", "has_argument", (p,), ib, ("v", p < len(args))))
            out.append(("get_argument(pos)", "get_argument", (p,), ib,
                        ("v", esig(args[p])) if p < len(args) else ("x", NOSUCH["arg"])))
    return out


def _fold(seq):
    out = []
    for x in seq:
        if not out or out[-1] is not x:
            out.append(x)
    return out


def _observe(obj, meth, args, ib):
    fn = getattr(obj, meth)
    try:
        r = fn(*args) if ib else fn(*(args + (False,)))  # include_base=True is exercised through the default
    except Exception as e:  # noqa
        return ("x", type(e).__name__)
    if isinstance(r, bool) or r is None:
        return ("v", r)
    if meth == "get_options" or meth == "get_arguments":
        return ("l", [(k, sigof(v)) for k, v in r.items()])
    if meth == "get_command_options":
        return ("l", [sigof(v) for v in _fold(list(r))])
    if meth == "get_command_names":
        return ("l", [sigof(v) for v in r])
    return ("v", sigof(r))


def _matches(exp, got):
    if exp[0] in ("v", "x"):
        return got == exp
    if got[0] != "l":
        return False
    if exp[0] == "exact":
        return got[1] == exp[1]
    lvls = exp[1]
    flat = [x for lv in lvls for x in lv]
    if sorted(got[1], key=repr) != sorted(flat, key=repr):
        return False
    for lv in lvls:
        if [x for x in got[1] if x in lv] != lv:
            return False
    return True


def check_answers(who, obj, answers):
    """Disagreements between obj (builder or format) and the reference, the first one per query name; the
    signature names the query, not the data."""
    out = {}
    for qname, meth, args, ib, exp in answers:
        if qname in out:
            continue
        got = _observe(obj, meth, args, ib)
        if not _matches(exp, got):
            e = exp if exp[0] in ("v", "x") else [exp[0], exp[1]]
            out[qname] = report.viol("query:%s:%s" % (who, qname),
                                     "%s.%s%r include_base=%s answers %r, the listed elements imply %r" % (who, meth, args, ib, got, e),
                                     None, e, got)
    return out


def level_objects(obj):
    out = []
    while obj is not None:
        out.append(obj)
        obj = obj.base_format
    return out


def check_i2_i3(builder, fmt):
    owners = {}
    for lvl in level_objects(builder):
        els = list(lvl.get_options(False).values()) + list(lvl.get_command_options(False))
        for el in els:
            ns = [el.long_name] + ([el.short_name] if el.short_name else [])
            ns += list(getattr(el, "long_aliases", [])) + list(getattr(el, "short_aliases", []))
            for n in ns:
                owners.setdefault(n, {})[id(el)] = el
    for n in sorted(owners):
        if len(owners[n]) > 1:
            return report.viol("I2:name-identifies-two-elements:" + ("long" if len(n) > 1 else "short"),
                               "the name %r identifies %d different elements across the format and its bases" % (n, len(owners[n])),
                               None, 1, sorted((sigof(e) for e in owners[n].values()), key=repr))
    args = list(fmt.get_arguments().values())
    multi = [i for i, a in enumerate(args) if a.is_multi_valued()]
    if len(multi) > 1 or (multi and multi[0] != len(args) - 1):
        return report.viol("I3:multi-valued-not-last", "multi-valued argument(s) at %r of %d" % (multi, len(args)), None,
                           None, [sigof(a) for a in args])
    seen_opt = False
    for a in args:
        if a.is_required() and seen_opt:
            return report.viol("I3:required-after-optional", "a required argument follows an optional one", None,
                               None, [sigof(a) for a in args])
        seen_opt = seen_opt or not a.is_required()
    return None


# ------------------------------------------------------------------ the spec
KINDS = {"o": ("add_option", "set_options", "CannotAddOptionException"),
         "c": ("add_command_option", "set_command_options", "CannotAddOptionException"),
         "a": ("add_argument", "set_arguments", "CannotAddArgumentException"),
         "n": ("add_command_name", "set_command_names", None)}


class State(object):
    def __init__(self, b):
        self.b = b
        self.own = empty_level()
        self.canon = None

    def model(self):
        return tuple((k, tuple(self.own[k])) for k in "ncoa")


def build_base(recipe):
    """recipe = list of levels (nearest base first), each a list of elements; built through the real builder."""
    from clikit.api.args.format.args_format_builder import ArgsFormatBuilder
    fmt = None
    for lvl in reversed(recipe):
        b = ArgsFormatBuilder(fmt)
        for e in lvl:
            getattr(b, KINDS[e[0]][0])(make(e))
        fmt = b.format
    return fmt


def base_levels(recipe):
    out = []
    for lvl in recipe:
        d = empty_level()
        for e in lvl:
            d[e[0]].append(e)
        out.append(d)
    return out


class Spec(object):
    def __init__(self, alphabet, recipe=()):
        self.alphabet = [norm(o) for o in alphabet]
        self.recipe = norm(recipe)
        self.bases = base_levels(self.recipe)
        self.verified = set()
        self.seen_sigs = set()
        self.n_verified = 0
        self.n_rejected = 0
        self.n_nontrivial = 0
        self.n_repeats = 0
        self.base = None
        self.base_canon = None

    # engine interface ---------------------------------------------------------
    # The base format is never modified by a correct builder, so all states of one exploration share ONE base object
    # (deepcopy memo) and the fingerprint names it by a token instead of walking it on every transition.  That this
    # is sound is itself checked: verify() compares the base's own full fingerprint with the one taken at init().
    def init(self):
        from clikit.api.args.format.args_format_builder import ArgsFormatBuilder
        if self.base is None and self.recipe:
            self.base = build_base(self.recipe)
            self.base_canon = canon(self.base)
        st = State(ArgsFormatBuilder(self.base))
        st.canon = self.canon(st.b)
        return st

    def _leaf(self, o):
        if o is self.base and o is not None:
            return "shared-base"
        return None

    def canon(self, b):
        return canon(b, self._leaf)

    def fork(self, st):
        memo = {id(self.base): self.base} if self.base is not None else {}
        # (builder and the format taken from it earlier are copied TOGETHER: whatever they share stays shared)
        b2, kept2 = copy.deepcopy((st.b, getattr(st, "kept", None)), memo)
        n = State(b2)
        n.kept = kept2
        n.own = {k: list(v) for k, v in st.own.items()}
        n.canon = st.canon
        return n

    def key(self, st):
        if st.canon is None:
            st.canon = self.canon(st.b)
        return (st.canon, st.model())

    def ops(self, st, depth):
        return self.alphabet

    # transitions ------------------------------------------------------------
    def levels(self, st):
        return [st.own] + self.bases

    def apply(self, st, op):
        op = norm(op)
        vs = self._apply(st, op)
        # Walk on past a failure whose signature this process has already recorded (the first, simplest instance is the
        # one the report keeps), so that what lies behind a known defect is explored too - but only for a bounded number
        # of repeats: on a badly broken implementation the explorer must stop, not wander through corrupt states.
        for v in vs:
            if v["sig"] not in self.seen_sigs:
                self.seen_sigs.add(v["sig"])
                return [v]
        if vs:
            self.n_repeats += 1
            if self.n_repeats > REPEAT_BUDGET:
                return vs[:1]
        return []

    def apply_checks_to_root(self):
        out = []
        for v in self.verify(self.init()):
            if v["sig"] not in self.seen_sigs:
                self.seen_sigs.add(v["sig"])
                v["case"] = {"history": []}
                out.append(v)
        return out

    def _apply(self, st, op):
        from clikit.api.args import exceptions as X
        if st.canon is None:
            st.canon = self.canon(st.b)
        before = st.canon
        if op[0] == "add":
            e = op[1]
            k = e[0]
            meth, _, excname = KINDS[k]
            why = conflict(self.levels(st), e)
            try:
                getattr(st.b, meth)(make(e))
                raised = None
            except (X.CannotAddOptionException, X.CannotAddArgumentException) as exc:
                raised = exc
            except Exception as exc:  # noqa
                return [report.viol("crash:" + report.exc_site(exc), "%s(%r) raised %r" % (meth, e, exc), None)]
            st.canon = None
            if raised is None:
                st.own[k].append(e)  # the reference follows what the builder did, so that later findings are not echoes
                if why and not self_colliding(e):
                    return [report.viol("I1:%s-accepted-despite-conflict:%s" % (meth, why),
                                        "%s(%r) was accepted although the reference finds a conflict (%s) with %r" % (
                                            meth, e, why, self.levels(st)), None, "rejected: " + why, "accepted")]
            else:
                self.n_rejected += 1
                if type(raised).__name__ != excname:
                    return [report.viol("I1:%s-wrong-exception" % meth, "%s(%r) raised %r" % (meth, e, raised), None,
                                        excname, type(raised).__name__)]
                if not why and not self_colliding(e):
                    return [report.viol("I1:%s-rejected-without-conflict" % meth,
                                        "%s(%r) raised %r but nothing in %r conflicts" % (meth, e, raised, self.levels(st)),
                                        None, "accepted", repr(raised))]
                st.canon = self.canon(st.b)
                if st.canon != before:
                    return [report.viol("I1:rejected-%s-changed-builder" % meth,
                                        "%s(%r) raised %s but the builder's state changed" % (meth, e, type(raised).__name__),
                                        None, "fingerprint unchanged", "fingerprint changed")]
                v = self.check_rejected_elsewhere(st, e)
                return [v] if v else []
        elif op[0] == "set":
            k, elems = op[1], op[2]
            _, meth, excname = KINDS[k]
            trial = [dict(st.own, **{k: []})] + self.bases
            why = None
            undetermined = False
            for e in elems:
                undetermined = undetermined or self_colliding(e)
                why = conflict(trial, e)
                if why:
                    break
                trial[0][k].append(e)
            old = list(st.own[k])
            try:
                getattr(st.b, meth)(*[make(e) for e in elems])
                raised = None
            except (X.CannotAddOptionException, X.CannotAddArgumentException) as exc:
                raised = exc
            except Exception as exc:  # noqa
                return [report.viol("crash:" + report.exc_site(exc), "%s%r raised %r" % (meth, elems, exc), None)]
            st.canon = None
            if raised is None:
                st.own[k] = list(elems)
                if why and not undetermined:
                    return [report.viol("I1:%s-accepted-despite-conflict:%s" % (meth, why),
                                        "%s%r accepted although the reference finds a conflict (%s)" % (meth, elems, why),
                                        None, "rejected: " + why, "accepted")]
            else:
                # not atomic by decision: the reference follows whatever the builder lists now (old or new elements only)
                v = self.resync(st, k, old + list(elems))
                if type(raised).__name__ != excname:
                    return [report.viol("I1:%s-wrong-exception" % meth, "%s%r raised %r" % (meth, elems, raised), None,
                                        excname, type(raised).__name__)]
                if not why and not undetermined:
                    return [report.viol("I1:%s-rejected-without-conflict" % meth,
                                        "%s%r raised %r but no element conflicts" % (meth, elems, raised), None, "accepted", repr(raised))]
                if v:
                    return [v]
        else:
            raise ValueError(op)
        # a format taken from the builder EARLIER is finished: later operations on the builder do not reach it
        kept = getattr(st, "kept", None)
        if kept is not None:
            d = check_answers("earlier-format", kept[0], kept[1])
            if d:
                v = sorted(d.items())[0][1]
                return [report.viol("earlier-format-changed:" + v["sig"].split(":")[-1], "a format taken from the builder before %r changed with the builder: %s" % (op[:2], v["what"]),
                                    None, v.get("expected"), v.get("observed"))]
        return self.verify(st)

    def resync(self, st, k, candidates):
        b = st.b
        if k == "o":
            listed = list(b.get_options(False).values())
        elif k == "c":
            listed = _fold(list(b.get_command_options(False)))
        elif k == "a":
            listed = list(b.get_arguments(False).values())
        else:
            listed = list(b.get_command_names(False))
        by = {}
        for c in candidates:
            by.setdefault(esig(c), c)
        new = []
        for o in listed:
            s = sigof(o)
            if s not in by:
                return report.viol("set-left-foreign-element:" + k, "after a failed %s the builder lists %r which is neither an old nor a new element" % (
                    KINDS[k][1], s), None, sorted(by), s)
            new.append(by[s])
        st.own[k] = new
        return None

    # state invariants (evaluated once per distinct state of this process) ------------
    def verify(self, st):
        key = hash(self.key(st))
        if key in self.verified:
            return []
        self.verified.add(key)
        self.n_verified += 1
        fmt = None
        try:
            fmt = st.b.format
        except Exception as exc:  # noqa
            return [report.viol("crash:" + report.exc_site(exc), "builder.format raised %r" % (exc,), None)]
        v = check_i2_i3(st.b, fmt)
        if v:
            return [v]
        answers = expected_answers(self.levels(st))
        st.kept = (fmt, answers)
        if sum(len(v) for lv in self.levels(st) for v in lv.values()) >= 2:
            self.n_nontrivial += 1
        out = []
        ctor = self.check_ctor(st, answers)
        config = self.check_config(st)
        paths = [check_answers("builder", st.b, answers), check_answers("format", fmt, answers),
                 ctor if isinstance(ctor, dict) and "sig" not in ctor else {}, config if isinstance(config, dict) and "sig" not in config else {}]
        # the same query failing on the builder, the built format, the constructor and the config path is one
        # failure (they share the code or delegate to each other): only the first path that shows it is reported
        done = set()
        for d in paths:
            for q, v in d.items():
                if q not in done:
                    done.add(q)
                    out.append(v)
        for v in (ctor, config):
            if isinstance(v, dict) and "sig" in v:
                out.append(v)
        if self.canon(st.b) != st.canon:
            out.append(report.viol("queries-changed-builder", "querying / building the format changed the builder's state", None))
        if st.b.base_format is not self.base or (self.base is not None and canon(self.base) != self.base_canon):
            out.append(report.viol("base-format-modified", "the base format object was replaced or modified by operations on the builder", None))
        return out

    def own_elements(self, st):
        return st.own["n"] + st.own["c"] + st.own["o"] + st.own["a"]

    def check_ctor(self, st, answers):
        """I5: the element-list constructor, on the same base."""
        from clikit.api.args.format.args_format import ArgsFormat
        try:
            f = ArgsFormat([make(e) for e in self.own_elements(st)], st.b.base_format)
        except Exception as exc:  # noqa
            return report.viol("I5:ctor-refuses-reachable-elements:" + type(exc).__name__,
                               "ArgsFormat(elements, base) raised %r for an element list the builder accepted" % (exc,), None,
                               "accepted", repr(exc))
        if f.base_format is not st.b.base_format:
            return report.viol("I5:ctor-lost-base", "ArgsFormat(elements, base).base_format is not the base given", None)
        return check_answers("ctor", f, answers)

    def config_for(self, st, extra=None):
        from clikit.api.config.command_config import CommandConfig
        c = CommandConfig("cmd")
        for e in st.own["o"] + ([extra] if extra and extra[0] == "o" else []):
            o = make(e)
            c.add_option(o.long_name, o.short_name, o.flags & ~3)
        for e in st.own["a"] + ([extra] if extra and extra[0] == "a" else []):
            a = make(e)
            c.add_argument(a.name, a.flags)
        return c.build_args_format(st.b.base_format)

    def check_config(self, st):
        """I6: CommandConfig.build_args_format on the same base, for the option/argument part of the state."""
        try:
            f = self.config_for(st)
        except Exception as exc:  # noqa
            return report.viol("I6:config-refuses-reachable-elements:" + type(exc).__name__,
                               "CommandConfig.build_args_format(base) raised %r" % (exc,), None, "accepted", repr(exc))
        lv = empty_level()
        lv["n"] = [("n", "cmd", ())]
        lv["o"] = list(st.own["o"])
        lv["a"] = list(st.own["a"])
        return check_answers("config", f, expected_answers([lv] + self.bases))

    def check_rejected_elsewhere(self, st, e):
        """I5/I6 for a rejected addition: the other two construction paths refuse it as well."""
        from clikit.api.args import exceptions as X
        from clikit.api.args.format.args_format import ArgsFormat
        ok = (X.CannotAddOptionException, X.CannotAddArgumentException)
        if self_colliding(e):
            return None
        why = conflict(self.levels(st), e)
        try:
            ArgsFormat([make(x) for x in self.own_elements(st)] + [make(e)], st.b.base_format)
            own_only = conflict(self.levels(st)[:1], e)
            return report.viol("I5:ctor-accepts-conflict-%s:%s" % ("inside-element-list" if own_only else "with-base",
                                                                  "argument" if e[0] == "a" else "option"),
                               "ArgsFormat(%r + [%r], base=%r) was accepted; the builder refuses this addition (%s)" % (
                                   self.own_elements(st), e, self.bases, why), None, KINDS[e[0]][2], "accepted")
        except ok:
            pass
        except Exception as exc:  # noqa
            return report.viol("crash:" + report.exc_site(exc), "ArgsFormat(elements + [%r], base) raised %r" % (e, exc), None)
        if e[0] in ("o", "a"):
            lv = empty_level()
            lv["o"] = list(st.own["o"])
            lv["a"] = list(st.own["a"])
            why = conflict([lv] + self.bases, e)
            if why:
                try:
                    self.config_for(st, e)
                    return report.viol("I6:config-accepts-conflict:%s" % ("argument" if e[0] == "a" else "option"),
                                       "CommandConfig with %r + [%r] built a format on base %r (%s)" % (lv, e, self.bases, why),
                                       None, KINDS[e[0]][2], "accepted")
                except ok:
                    pass
                except Exception as exc:  # noqa
                    return report.viol("crash:" + report.exc_site(exc), "CommandConfig + %r raised %r" % (e, exc), None)
        return None


# ------------------------------------------------------------------ alphabets
def opt_pool():
    return [("o", l, sh, m) for l in ("aa", "bb") for sh in (None, "a", "b") for m in (0, 1)]


def copt_pool():
    return [("c", l, sh, al) for l in ("aa", "bb") for sh in (None, "a", "b") for al in ((), ("cc",), ("b",), ("aa",))]


def arg_pool(names=("x", "y")):
    return [("a", n, k) for n in names for k in ("r", "o", "m", "rm")]


def name_pool():
    return [("n", "n1", ()), ("n", "n2", ("n1",))]


SET_POOLS = {
    "o": [("o", "aa", "a", 0), ("o", "aa", None, 1), ("o", "bb", "b", 0), ("o", "bb", "a", 1)],
    "c": [("c", "aa", "a", ("cc",)), ("c", "bb", None, ("b",)), ("c", "bb", "b", ()), ("c", "cc", None, ("aa",))],
    "a": [("a", "x", "r"), ("a", "x", "o"), ("a", "y", "r"), ("a", "y", "m")],
    "n": [("n", "n1", ()), ("n", "n2", ("n1",))],
}
ARG3_SET_POOL = [("a", "x", "r"), ("a", "x", "o"), ("a", "y", "r"), ("a", "y", "o"), ("a", "z", "m"), ("a", "z", "rm")]
# VERIF_SEED rotates ONE extra addition into the focused alphabets, on top of the fixed pools
EXTRAS = [("o", "dd", "a", 0), ("o", "dd", "d", 1), ("c", "dd", None, ("a",)), ("c", "dd", "b", ("d",))]


def set_ops(kinds="ocan", pools=SET_POOLS):
    out = []
    for k in kinds:
        for n in (0, 1, 2):
            for tup in itertools.product(pools[k], repeat=n):
                out.append(("set", k, tup))
    return out


def alphabet(name, extra=None):
    """full    = every addition of the four pools + set_* with every 0-2 tuple of the four set pools (116 ops)
    nonames = full without the command-name operations (the only operations that are never refused, i.e. the only
              unbounded dimension): this graph is finite and is explored until it closes
    options = option + command-option operations (+ rotated extra);  args = argument operations over three names;
    names   = command-name operations + one option + one argument"""
    adds = [("add", e) for e in opt_pool() + copt_pool() + arg_pool() + name_pool()]
    if name == "full":
        return adds + set_ops()
    if name == "nonames":
        return [o for o in adds if o[1][0] != "n"] + set_ops("oca")
    if name == "options":
        ex = [("add", norm(extra))] if extra else []
        return [("add", e) for e in opt_pool() + copt_pool()] + ex + set_ops("oc")
    if name == "args":
        return [("add", e) for e in arg_pool(("x", "y", "z"))] + set_ops("a", {"a": ARG3_SET_POOL}) + [("add", ("o", "aa", "a", 0))]
    if name == "names":
        return [("add", e) for e in name_pool()] + set_ops("n") + [("add", ("o", "aa", "a", 0)), ("add", ("a", "x", "r"))]
    raise ValueError(name)


# base formats: every level is a reachable state (built through the real builder); nearest base first
BASES = {
    "none": [],
    "opt": [[("o", "aa", "a", 0)]],
    "copt": [[("c", "bb", "b", ("cc",))]],
    "arg-required": [[("a", "w", "r")]],
    "arg-optional": [[("a", "x", "o")]],
    "arg-multi": [[("a", "w", "m")]],
    "mixed": [[("n", "n1", ()), ("o", "bb", None, 1), ("c", "cc", "a", ()), ("a", "x", "r")]],
    "opt/copt": [[("o", "aa", "a", 0)], [("c", "cc", None, ("c",))]],
    "arg/arg": [[("a", "w", "o")], [("n", "n2", ("n1",)), ("a", "v", "r")]],
    "arg-required/arg-required": [[("a", "w", "r")], [("a", "x", "r")]],
    "empty/opt+arg": [[], [("o", "bb", "b", 1), ("a", "w", "r")]],
}


OPTION_BASES = ("none", "opt", "copt", "mixed", "opt/copt", "empty/opt+arg")  # bases that differ in their options
ARG_BASES = ("none", "arg-required", "arg-optional", "arg-multi", "mixed", "arg/arg", "arg-required/arg-required",
             "empty/opt+arg")  # bases that differ in their arguments


def plan(tier):
    """(alphabet, base, depth bound, dedup).  Depth 99 = until the graph closes (asserted in main)."""
    runs = []
    for b in OPTION_BASES:
        runs.append(("options", b, 99, True))
    for b in ARG_BASES:
        runs.append(("args", b, 99, True))
    if tier == "thorough":
        for b in BASES:
            runs.append(("nonames", b, 99, True))
            runs.append(("full", b, 3, True))
        for b in ("mixed", "opt/copt", "empty/opt+arg"):
            runs.append(("full", b, 4, True))
        for b in ("none", "mixed", "arg/arg"):
            runs.append(("names", b, 7, True))
        runs.append(("full", "mixed", 2, False))
        runs.append(("options", "none", 3, False))
    else:
        for b in BASES:
            runs.append(("full", b, 3 if b in ("mixed", "opt/copt", "copt", "empty/opt+arg") else 2, True))
        for b in ("mixed", "opt/copt"):
            runs.append(("nonames", b, 99, True))
        for b in ("none", "mixed"):
            runs.append(("names", b, 5, True))
        runs.append(("options", "opt", 2, False))
    return runs


def _spec_for(case):
    return Spec(alphabet(case.get("alphabet", "full"), case.get("extra")), case.get("base", []))


def replay(case):
    """Re-executes the recorded history on a fresh builder; reports the recorded failure if it still occurs, else
    the first other failure on the way (the explorer walks on past failures it has already recorded)."""
    spec = _spec_for(case)
    st = spec.init()
    first = None
    for v in spec.verify(st):
        if v["sig"] == case.get("sig"):
            return v
        first = first or v
    for op in case["history"]:
        for v in spec._apply(st, norm(op)):
            if v["sig"] == case.get("sig"):
                return v
            first = first or v
    return first


def _simplicity(v):
    c = v["case"]
    n_base = sum(len(lv) for lv in c.get("base", []))
    n_ops = sum(max(1, len(op[2])) if op[0] == "set" else 1 for op in c["history"])
    n_set = sum(1 for op in c["history"] if op[0] == "set")
    return (n_base + n_ops, len(c.get("base", [])), n_set, len(c["history"]))


def _run_part(p):
    alpha, base, depth, dedup, extra = p
    spec = Spec(alphabet(alpha, extra), BASES[base])
    # the explorer evaluates the oracle on transitions only: the initial state (empty builder on the base) is judged here
    root_vs = spec.apply_checks_to_root()
    r = explore.explore(spec, depth, split_depth=0, dedup=dedup, workers=1)
    r.violations[:0] = root_vs
    vs = []
    for v in r.violations[:20]:
        v["case"].update(alphabet=alpha, base=BASES[base], sig=v["sig"])
        if extra and alpha == "options":
            v["case"]["extra"] = extra
        vs.append(v)
    return dict(r.as_dict(), violations=vs, samples=r.samples[:1], alphabet_size=len(spec.alphabet),
                verified=spec.n_verified, nontrivial=spec.n_nontrivial, rejected=spec.n_rejected,
                cut_short_by_failures=spec.n_repeats > REPEAT_BUDGET, n_violations=len(r.violations))


def main():
    rep = report.Report(PID, "model_checking")
    extra = EXTRAS[rep.seed % len(EXTRAS)]
    parts = [p + (extra,) for p in plan(rep.tier)]
    # every part is explored serially with full deduplication (the graphs are small and strongly connected, so
    # splitting one graph over workers would make every worker explore all of it); the parts run in parallel,
    # most expensive first
    cost = {"nonames": 0, "full": 1, "options": 2, "names": 3, "args": 4}
    order = sorted(range(len(parts)), key=lambda i: (cost[parts[i][0]], -parts[i][2], i))
    results = par.pmap(_run_part, [parts[i] for i in order])
    tot = dict(states=0, transitions=0, verified=0, nontrivial=0, rejected=0)
    closed, unclosed = [], []
    allv = []
    cut = []
    for i, r in zip(order, results):
        alpha, base, depth, dedup, _ = parts[i]
        name = "%s@%s%s%s" % (alpha, base, "" if depth == 99 else ":depth%d" % depth, "" if dedup else ":nodedup")
        allv.extend(r.pop("violations"))
        for smp in r.pop("samples"):
            rep.sample({"part": name, "history": smp}, cap=6)
        rep.part(name, depth_bound=depth, base=BASES[base], dedup=dedup, **r)
        for k in tot:
            tot[k] += r[k]
        if dedup:
            # a part that hit failures may have been left early by the explorer: it is not claimed to have closed
            (closed if r["closed"] and not r["n_violations"] else unclosed).append(name)
        if r["cut_short_by_failures"]:
            cut.append(name)
        if depth == 99 and not r["closed"] and not r["n_violations"]:
            rep.violation(report.viol("engine:graph-did-not-close", "part %s was expected to close" % name, {"part": name}))
    # simplest case first across parts; a query that fails on the builder is not reported again for the paths behind it
    allv.sort(key=_simplicity)
    rank = {"builder": 0, "format": 1, "ctor": 2, "config": 3}
    best = {}
    for v in allv:
        p = v["sig"].split(":")
        if p[0] == "query":
            best[p[2]] = min(best.get(p[2], 9), rank[p[1]])
    for v in allv:
        p = v["sig"].split(":")
        if p[0] == "query" and rank[p[1]] != best[p[2]]:
            continue
        rep.violation(v)
    rep.set("states", tot["states"])
    rep.set("transitions", tot["transitions"])
    rep.set("traces_validated_against_impl", tot["transitions"])
    rep.set("evaluations", tot["transitions"])
    rep.set("states_with_all_invariants_evaluated", tot["verified"])
    rep.set("distinct_nontrivial", tot["nontrivial"])
    rep.set("rejected_additions_checked", tot["rejected"])
    rep.set("closed_parts", closed)
    rep.set("depth_bounded_parts", unclosed)
    rep.set("rotated_extra_element", extra)
    rep.set("parts_cut_short_by_failures", cut)
    rep.set("exhaustive", not cut)
    rep.set("rule", "per part: every operation sequence over the part's alphabet on the part's base format, up to the depth bound or "
                    "(closed parts) of any length, executed on the real ArgsFormatBuilder; I1 on every transition; I2-I6 (builder, built "
                    "format, ArgsFormat(elements, base), CommandConfig.build_args_format, each against the reference on every query) once "
                    "per distinct state (full vars() fingerprint + reference model); distinct_nontrivial = those states holding >= 2 "
                    "elements over format + bases (something can collide or be mis-ordered)")
    rep.assume("set_* need not be atomic; after a failed set_* the reference follows the builder's own listing")
    rep.assume("repeated listing of an aliased command option by get_command_options is folded, not judged")
    rep.assume("the base format object is shared by all states of a part; verified unchanged in every distinct state")
    return rep.finish()
