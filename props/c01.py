"""C01 - parsing a well-formed command line recovers exactly the intended values.

E1, bounded-exhaustive: formats from catalogues x ALL assignments over small typed domains x ALL spellings of each
assignment (props/_parsegen.py states when a token list is a spelling), each line parsed by a fresh
DefaultArgsParser in strict AND lenient mode on the real code; every view of the returned Args is compared with the
assignment the line was generated from (oracle known by construction, type-strict).

Space (each part is enumerated completely; quick / thorough):
  A every option kind alone (59 kinds: value mode x type x nullable x short name x default) in 3 / 5 contexts of command names
    and arguments, 3 / 5 values per option (+ `null`; single-valued boolean options: all 8 accepted words), multi-valued
    options with up to 2 values (thorough: also 3);
  B all 64 ordered pairs of the 8 structural kinds (flag/required/optional/multi x short name) in two contexts, 2 values per
    option (incl. a value starting with '-'), plus every pair involving a typed kind; repeated multi options;
  C every legal argument shape required* optional* [multi | required-multi] with <= 2 / 3 single-valued arguments, all-string or
    exactly one typed argument, x {no, one, two command names (alias, omitted suffix)} x {no option, flag + optional-value
    option}, 2 / 3 values per argument (incl. dash-leading ones that force a `--` tail, words equal to a command name);
  D one format (2 names, 2 options, 2 / 3 arguments) split between base format and format in all 36 / 48 ways, each also with an
    empty level in between (a three-level chain);
  E odd but legal names (case-sensitive shorts, `cmd11` argument, names equal to values) + the VERIF_SEED value;
  T all 64 ordered triples of the short-named structural kinds (thorough: all 512 triples of the 8 kinds, and the 64 in a
    context with a command name and a multi-valued argument);
  S all 7 positional word shapes (plain, -N, --foo, -f, '', `--`, '-') at every position of [required, multi] and [multi]
    arguments (multi-values up to 2 / 3 long): what may stand behind the `--` separator, including a second `--`.
(`--tier smoke` is a development aid, not a claimed bound.)

Demanded (statement): arguments(False)/options(False) are exactly the given elements ("nothing else set");
arguments(True)/options(True), option(long), option(short), argument(name), argument(position) report the given
value or the declared default; values have the declared Python type; multi-values in line order;
is_option_set(long) / is_argument_set(name).
Deliberately NOT demanded (statement silent; see DESIGN.md 4): is_*_set by short name / position; the value of a bare
optional-value option whose default is None (C02 covers it as exception containment); empty-string option values;
empty or dash-leading positionals in front of `--`; `-n=v`; repeated flags; command options.
"""
import itertools
import json

from mc import common, par, report
from props import _parsegen as G

PID = "C01"
MAX_PER_SIG = 1


# ------------------------------------------------------------------------------------------------
# the space, as a list of parts; each part = list of (spec, assignment parameters)
# ------------------------------------------------------------------------------------------------
def _typed_vectors(shape, types=("int", "float", "bool")):
    """all-string, or exactly one non-string argument (conversion is per argument name, so one at a time
    reaches every (position, type) pair)"""
    n = len(shape)
    out = [["string"] * n]
    for i in range(n):
        for ty in types:
            out.append(["string"] * i + [ty] + ["string"] * (n - i - 1))
    return out


def _akinds(shape, tv, nullable_types=("bool", "float")):
    return [G.arg_kind(m, ty, ty in nullable_types, "typed" if m in ("opt", "multi") else None) for m, ty in zip(shape, tv)]


STRUCT = [G.opt_kind("flag"), G.opt_kind("flag", short=False), G.opt_kind("req"), G.opt_kind("req", short=False),
          G.opt_kind("opt"), G.opt_kind("opt", short=False), G.opt_kind("multi"), G.opt_kind("multi", short=False)]
TYPED = [G.opt_kind("req", "int"), G.opt_kind("opt", "bool", True), G.opt_kind("multi", "float", True)]
SHORTED = [G.opt_kind("flag"), G.opt_kind("req"), G.opt_kind("opt"), G.opt_kind("multi")]


def parts(tier, seed=0):
    q = tier != "thorough"
    P = []
    R, O, M, RM = G.arg_kind("req"), G.arg_kind("opt", default="typed"), G.arg_kind("multi"), G.arg_kind("reqmulti")
    if tier == "smoke":  # development aid only (not a claimed bound): ~60 k lines
        p = dict(dom_n=3, arg_dom_n=1, multi_len=2, arg_multi_len=1, with_null=True)
        a = [(G.mk_spec(G.NAMES0, [k], [R]), p) for k in G.all_option_kinds()[::3]]
        p = dict(dom_n=1, arg_dom_n=1, multi_len=1, arg_multi_len=1)
        a += [(G.mk_spec(G.NAMES0, [k1, k2], [R]), p) for k1 in SHORTED for k2 in SHORTED]
        a += [(G.mk_spec(G.NAMES2, [G.opt_kind("opt")], _akinds(sh, ["string"] * len(sh))), dict(p, arg_dom_n=2, arg_multi_len=2, arg_extra=["add"]))
              for sh in G.arg_shapes(1)]
        return [("smoke", a)]

    # A: every option kind alone (value mode x type x nullable x short presence x default), full value domain
    a = []
    ctxs = [(G.NAMES0, []), (G.NAMES1, [R]), (G.NAMES0, [O, M])]
    if not q:
        ctxs += [(G.NAMES2, [R, O]), (G.NAMES1, [RM])]
    for k in G.all_option_kinds():
        for nm, ak in ctxs:
            a.append((G.mk_spec(nm, [k], ak), dict(dom_n=3 if q else 5, arg_dom_n=1, multi_len=2, arg_multi_len=2, with_null=True)))
        if not q and k[0] == "multi":  # three repetitions of a multi-valued option
            a.append((G.mk_spec(G.NAMES0, [k], [R]), dict(dom_n=1, arg_dom_n=1, multi_len=3, arg_multi_len=1)))
    P.append(("A:each-option-kind-alone", a))

    # B: all ordered pairs of structural kinds: grouping, value lookahead next to another option, orderings
    b = []
    for k1 in STRUCT:
        for k2 in STRUCT:
            b.append((G.mk_spec(G.NAMES0, [k1, k2], [R]), dict(dom_n=2, arg_dom_n=1, multi_len=1 if q else 2, arg_multi_len=1)))
            b.append((G.mk_spec(G.NAMES1, [k1, k2], [R, M]),
                      dict(dom_n=2, arg_dom_n=1, multi_len=1 if q else 2, arg_multi_len=1)))
            if q and "multi" in (k1[0], k2[0]):  # repeated multi-valued options next to another option
                b.append((G.mk_spec(G.NAMES0, [k1, k2], [R]), dict(dom_n=1, arg_dom_n=1, multi_len=2, arg_multi_len=1)))
    # ... and every pair that involves a typed kind
    for k1 in STRUCT + TYPED:
        for k2 in STRUCT + TYPED:
            if k1 in TYPED or k2 in TYPED:
                b.append((G.mk_spec(G.NAMES0, [k1, k2], [R]), dict(dom_n=1 if q else 2, arg_dom_n=1, multi_len=1 if q else 2, arg_multi_len=1)))
    P.append(("B:option-pairs", b))

    # C: every legal argument shape with types, command names (spelled / aliased / suffix omitted), `--` tails
    c = []
    for shape in G.arg_shapes(2 if q else 3):
        for tv in _typed_vectors(shape):
            aks = _akinds(shape, tv)
            plain = all(t == "string" for t in tv)
            for nm in (G.NAMES0, G.NAMES1, G.NAMES2):
                # for all-string shapes the argument domain also holds a word that IS a command name / alias of the format
                # (legal in front of `--` only when that name is spelled, behind `--` always)
                ex = ([] if not plain or not nm else ["add"] if nm is G.NAMES2 else ["sv"])
                singles = len([m for m in shape if "multi" not in m])
                nd = 3 if (not q and singles <= 2) else 2  # values per argument
                c.append((G.mk_spec(nm, [], aks), dict(dom_n=1, arg_dom_n=nd, multi_len=1, arg_multi_len=2, arg_extra=ex)))
                if plain or not q or nm is G.NAMES0:
                    c.append((G.mk_spec(nm, [G.opt_kind("flag"), G.opt_kind("opt")], aks),
                              dict(dom_n=1, arg_dom_n=1 if q or not plain else 2, multi_len=1, arg_multi_len=2)))
    P.append(("C:argument-shapes", c))

    # D: one format split between a base format and the derived format in all ways
    d = []
    okinds = [G.opt_kind("flag"), G.opt_kind("req", "int")]
    aks = [R, G.arg_kind("opt", "int", False, "typed")] + ([] if q else [M])
    for nb in range(3):
        for mask in itertools.product((False, True), repeat=2):
            for na in range(len(aks) + 1):
                d.append((G.mk_spec(G.NAMES2, okinds, aks, [nb, list(mask), na]),
                          dict(dom_n=1, arg_dom_n=1, multi_len=1, arg_multi_len=1)))
                # ... and the same with a level that defines nothing between the base and the derived format
                d.append((G.mk_spec(G.NAMES2, okinds, aks, [nb, list(mask), na, 1]),
                          dict(dom_n=1, arg_dom_n=1, multi_len=1, arg_multi_len=1)))
    P.append(("D:base-split", d))

    # E: unusual but legal names (case-sensitive shorts, hyphen/digit long names, an argument called like the parser's
    # internal command-name slot, a command name equal to an argument value)
    e = []
    sp = {"names": [["srv", ["sv"]]], "split": None,
          "opts": [["no-ansi", "f", "flag", "string", False, None], ["opt-2x", "F", "req", "string", False, None]],
          "args": [["cmd11", "req", "string", False, None], ["cmd12", "opt", "int", False, 7]]}
    e.append((sp, dict(dom_n=2, arg_dom_n=2, multi_len=1, arg_multi_len=1)))
    sp = {"names": [["a:b", ["x"]], ["add", ["a"]]], "split": [1, [True], 0],
          "opts": [["verbose", "v", "opt", "string", False, "vv"]],
          "args": [["name", "opt", "string", False, "add"], ["rest", "multi", "string", False, ["srv"]]]}
    e.append((sp, dict(dom_n=2, arg_dom_n=1, multi_len=1, arg_multi_len=2)))
    extra = ["été", "a\"b", "it's", "back\\slash", "tab\there", "*"][seed % 6]
    sp = {"names": [], "split": None, "opts": [["foo", "f", "req", "string", False, None]],
          "args": [["x", "req", "string", False, None]], "_extra_value": extra}
    e.append((sp, dict(dom_n=1, arg_dom_n=1, multi_len=1, arg_multi_len=1)))
    P.append(("E:odd-names+seed-value", e))

    # T: all ordered triples of short-named structural kinds (three-letter groups, three options around one positional)
    t = []
    for ks in itertools.product(SHORTED, repeat=3):
        t.append((G.mk_spec(G.NAMES0, list(ks), [R]), dict(dom_n=1, arg_dom_n=1, multi_len=1, arg_multi_len=1)))
    if not q:
        for ks in itertools.product(STRUCT, repeat=3):
            t.append((G.mk_spec(G.NAMES0, list(ks), [R]), dict(dom_n=1, arg_dom_n=1, multi_len=1, arg_multi_len=1)))
        for ks in itertools.product(SHORTED, repeat=3):
            t.append((G.mk_spec(G.NAMES1, list(ks), [R, M]), dict(dom_n=1, arg_dom_n=1, multi_len=1, arg_multi_len=1)))
    P.append(("T:option-triples", t))

    # S: the whole positional word domain (option-looking words, the empty word, a lone dash and a second `--`: all legal
    # behind the separator) in every position of a required + multi-valued argument pair and of a lone multi-valued one
    s = [(G.mk_spec(G.NAMES0, [G.opt_kind("flag")], [R, M]), dict(dom_n=1, arg_dom_n=7, multi_len=1, arg_multi_len=2)),
         (G.mk_spec(G.NAMES1, [], [M]), dict(dom_n=1, arg_dom_n=7, multi_len=1, arg_multi_len=2 if q else 3))]
    P.append(("S:separator-tail-words", s))
    return P


def _assignments(spec, params):
    asgs = G.assignments({k: v for k, v in spec.items() if not k.startswith("_")}, **params)
    ex = spec.get("_extra_value")
    if ex:  # VERIF_SEED rotates ONE extra value into the domain (on top of the fixed core)
        asgs.append({"opts": [["val", [[ex, ex]]]], "args": [[[ex, ex]]]})
    return asgs


# ------------------------------------------------------------------------------------------------
# judging one line
# ------------------------------------------------------------------------------------------------
def _plain(x):
    if isinstance(x, dict) and len(x) == 1 and next(iter(x)) in ("bool", "int", "float"):
        k, v = next(iter(x.items()))
        return float(v) if k == "float" else v
    if isinstance(x, list):
        return [_plain(v) for v in x]
    return x


def _val_kind(e, o):
    """coarse class of a value mismatch (part of the signature): order / type / value"""
    if isinstance(e, list) and isinstance(o, list):
        if sorted(map(repr, e)) == sorted(map(repr, o)):
            return "order"
        if len(e) == len(o):
            for a, b in zip(e, o):
                if a != b:
                    return _val_kind(a, b)
        return "value"
    try:
        pe, po = _plain(e), _plain(o)
        if not isinstance(pe, list) and not isinstance(po, list) and pe is not None and po is not None and \
                (pe == po or str(pe) == str(po)):
            return "type"
    except Exception:  # noqa
        pass
    return "value"


def _diff_kind(exp, obs):
    """views are {name: value} (or a list for the positional view); -> raised / extra / missing / order / type / value"""
    if isinstance(obs, dict) and "raised" in obs:
        return "raised"
    if isinstance(exp, list):
        exp = dict(enumerate(exp))
        obs = dict(enumerate(obs)) if isinstance(obs, list) else obs
    if not isinstance(obs, dict):
        return "value"
    if set(obs) - set(exp):
        return "extra"
    if set(exp) - set(obs):
        return "missing"
    for k in exp:
        if exp[k] != obs[k]:
            return _val_kind(exp[k], obs[k])
    return "value"


def judge(fmt, spec, asg, tokens, exp):
    """-> list of violations (at most one per signature) for this line"""
    from clikit.api.args.exceptions import CannotParseArgsException, NoSuchOptionException

    from clikit.args.argv_args import ArgvArgs
    from clikit.args.default_args_parser import DefaultArgsParser

    vs = []
    seen = set()
    strict_bad = set()
    raw = ArgvArgs(["prog"] + list(tokens))  # ONE command-line object, parsed in both modes (each time by a fresh parser)
    for lenient in (False, True):
        mode = "lenient" if lenient else "strict"
        case = {"spec": spec, "asg": asg, "tokens": tokens}
        try:
            args = DefaultArgsParser().parse(raw, fmt, lenient)
        except Exception as e:  # noqa
            cls = "rejected" if isinstance(e, (CannotParseArgsException, NoSuchOptionException, ValueError)) else "crash"
            sig = "%s:%s" % (cls, report.exc_site(e))
            if sig not in seen:
                seen.add(sig)
                vs.append(report.viol(sig, "%s parse of a well-formed line raised %s: %s" % (mode, type(e).__name__, e),
                                      dict(case, focus="parse", sig=sig), "returns the assignment", "%s: %s" % (type(e).__name__, e)))
            continue
        obs, errs = G.observe(args, spec)
        if obs == exp:
            continue
        err_of = dict(errs)
        fams = set()
        for view in G.VIEWS:
            if obs[view] == exp[view]:
                continue
            if view in err_of:
                sig = "crash:" + report.exc_site(err_of[view])
            else:
                kind = _diff_kind(exp[view], obs[view])
                # one failure, one signature: the same kind of difference showing through several views of the same
                # family (options / arguments) is reported once, under the first view that shows it
                fam = ("opt" if "option" in view else "arg", kind, lenient)
                if fam in fams:
                    if not lenient:
                        strict_bad.add(view)
                    continue
                fams.add(fam)
                sig = "wrong:%s:%s" % (view, kind)
                if lenient and view not in strict_bad:
                    sig += ":lenient-only"
            if not lenient:
                strict_bad.add(view)
            if sig in seen:
                continue
            seen.add(sig)
            vs.append(report.viol(sig, "%s parse: %s differs from the assignment the line spells" % (mode, view),
                                  dict(case, focus=view, sig=sig), exp[view], obs[view]))
    return vs


def replay(case):
    spec = {k: v for k, v in case["spec"].items() if not k.startswith("_")}
    fmt = G.build_format(spec)
    exp = G.expected_views(spec, case["asg"])
    vs = judge(fmt, spec, case["asg"], case["tokens"], exp)
    for v in vs:
        if v["sig"] == case.get("sig"):
            return v
    for v in vs:
        if v["case"].get("focus") == case.get("focus"):
            return v
    return None


# ------------------------------------------------------------------------------------------------
# worker: one format (or one shard of its assignments)
# ------------------------------------------------------------------------------------------------
def run_item(item):
    pi, fi, spec, params, shard, nshards = item
    clean = {k: v for k, v in spec.items() if not k.startswith("_")}
    fmt = G.build_format(clean)
    res = {"lines": 0, "nontrivial": 0, "asg": 0, "feat": {}, "viol": {}, "sample": None}
    feat = res["feat"]
    best_sample = 0
    for ai, asg in enumerate(_assignments(spec, params)):
        if ai % nshards != shard:
            continue
        res["asg"] += 1
        exp = G.expected_views(clean, asg)
        seen = set()
        for toks, roles in G.spellings(clean, asg):
            key = tuple(toks)
            if key in seen:
                continue
            seen.add(key)
            res["lines"] += 1
            n_opt, n_pos = G.line_features(roles)
            if n_opt and n_pos:
                res["nontrivial"] += 1
            for r in roles:
                feat[r[0]] = feat.get(r[0], 0) + 1
            score = min(n_opt, 2) + min(n_pos, 2)
            if score > best_sample:
                best_sample = score
                res["sample"] = {"score": score, "tokens": toks, "options": exp["options(False)"], "arguments": exp["arguments(False)"]}
            for v in judge(fmt, clean, asg, toks, exp):
                rank = [len(toks), sum(len(t) for t in toks), pi, fi, ai]
                old = res["viol"].get(v["sig"])
                if old is None or rank < old[0]:
                    res["viol"][v["sig"]] = (rank, v)
    return res


def main():
    rep = report.Report(PID, "exploration")
    ps = parts(rep.tier, rep.seed)
    items = []
    seen_specs = set()
    nformats = {}
    for pi, (pname, lst) in enumerate(ps):
        for fi, (spec, params) in enumerate(lst):
            key = G.spec_key(spec) + json.dumps(params, sort_keys=True)
            if key in seen_specs:
                continue
            seen_specs.add(key)
            nformats[pname] = nformats.get(pname, 0) + 1
            nasg = len(_assignments(spec, params))
            nsh = min(16, max(1, nasg // 8))  # big formats are dealt to several workers by assignment index
            for sh in range(nsh):
                items.append((pi, fi, spec, params, sh, nsh))
    # schedule the (probably) biggest items first; results are merged by item, so the order has no influence on them
    order = sorted(range(len(items)), key=lambda i: -(len(items[i][2]["opts"]) * 4 + len(items[i][2]["args"]) + len(items[i][2]["names"])))
    res_sched = par.pmap(run_item, [items[i] for i in order])
    results = [None] * len(items)
    for i, r in zip(order, res_sched):
        results[i] = r
    tot = {"lines": 0, "nontrivial": 0, "asg": 0}
    feat = {}
    per_part = {}
    best = {}
    sampled = {}
    for it, r in zip(items, results):
        pname = ps[it[0]][0]
        pp = per_part.setdefault(pname, {"formats": nformats[pname], "assignments": 0, "lines": 0, "nontrivial": 0})
        for k in tot:
            tot[k] += r[k]
        pp["assignments"] += r["asg"]
        pp["lines"] += r["lines"]
        pp["nontrivial"] += r["nontrivial"]
        for k, v in r["feat"].items():
            feat[k] = feat.get(k, 0) + v
        for sig, (rank, v) in r["viol"].items():
            if sig not in best or rank < best[sig][0]:
                best[sig] = (rank, v)
        if r["sample"] and r["sample"]["score"] > sampled.get(pname, (0, None))[0]:  # one written-out case per part
            sampled[pname] = (r["sample"]["score"], dict(r["sample"], part=pname))
    for sig in sorted(best, key=lambda s: best[s][0]):
        rep.violation(best[sig][1])
    for pname in per_part:
        if pname in sampled:
            smp = sampled[pname][1]
            smp.pop("score")
            rep.sample(smp, cap=8)
    for pname, pp in per_part.items():
        rep.part(pname, **pp)
    rep.set("formats", sum(nformats.values()))
    rep.set("assignments", tot["asg"])
    rep.set("lines", tot["lines"])
    rep.set("evaluations", 2 * tot["lines"])
    rep.set("distinct_nontrivial", tot["nontrivial"])
    rep.set("token_roles", feat)
    rep.set("exhaustive", True)
    rep.set("rule", "evaluations = parses (every distinct (format, line) once strict and once lenient, all views compared); "
                    "distinct_nontrivial = distinct (format, token line) pairs that contain at least one option token AND at "
                    "least one positional (command name, argument value or `--` tail value), counted after de-duplication "
                    "per assignment; token_roles counts how often each spelling device occurred (LE --n=v, LS --n v, "
                    "GA -nv, GS -n v, G short flags/groups, LB/GB bare optional value, N command names, T tail values)")
    rep.assume("a line is a spelling of an assignment exactly under the rules listed at the top of props/_parsegen.py")
    rep.assume("every parse uses a fresh DefaultArgsParser (parser reuse is C05)")
    rep.assume("bare optional-value options are generated only when the option declares a non-None default; the result must be that default")
    rep.assume("VERIF_SEED rotates one extra string value (%r) into part E" % ["été", "a\"b", "it's", "back\\slash", "tab\there", "*"][rep.seed % 6])
    return rep.finish()
