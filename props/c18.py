"""C18 - questions return only valid answers, count attempts exactly and terminate.

E2 over the dialogue TREE (explicit-state over dialogue histories, no dedup: a tree has no merges).
A node is a script prefix (list of typed lines).  The real question is run on prefix + end-of-input
through an input stream that counts reads; a node gets children (one per answer of the alphabet) only
if the run consumed the whole prefix and asked again.  Every run is judged by a reference validator
written from the property statement, walking the consumed entries one by one.

Environment: the `subprocess` name seen by clikit.ui.components.question is replaced by a stub whose
call/check_output/... raise FileNotFoundError ("no stty reachable"): `_has_stty_available()` answers
False and the line-reading path `_read_from_input` is taken deterministically, without a fork.
Termination is decided by a READ BUDGET, never by wall-clock: the (len(script)+3)-th read of the input
stream raises a private BudgetExceeded (a BaseException, so that no `except Exception` inside clikit can
swallow it).  A second budget on writes to the error stream catches loops that never read.

What the oracle demands (all from the statement):
  * a returned answer is a member of the choices (multi-select: a list of members);
  * a typed entry that is an exact, unique choice value, or a displayed index 0..n-1, is accepted and
    yields that choice (index and value interchangeable; when the index string is itself a choice the
    statement is silent which one wins: either is accepted);
  * negative, out-of-range, unknown entries, and an empty line without a default are rejected;
  * an empty line stands for the configured default;
  * every rejected entry costs exactly one read (= one attempt) and one error line: the error output is
    exactly  PROMPT (ERRORLINE PROMPT)*  with #prompts == #reads; with N attempts the question raises
    after exactly N rejected entries (the last error is the raised exception; printing it as well is
    tolerated), never earlier, never later;
  * at end of input the question stops within the read budget (it must not ask forever); a value
    returned there must still be a member.
Deliberately NOT demanded (statement silent; see also the final report):
  * what an ambiguous value (entry [a,a], typed `a`) yields: rejected or `a`, both accepted;
  * case-insensitive matching (typed `A` for [a,b]): rejected or `a`;
  * blank parts in a multi-select list (`0,,1`): rejected or the non-blank parts;
  * order / multiplicity of a multi-select result (only: a list, all members, every typed part represented);
  * the exception class / message of a failure, the wording of error lines;
  * value-before-index precedence when an index string is itself a choice;
  * defaults that do not denote a displayed index (the prompt cannot even be rendered): not enumerated;
  * re-asking at end of input while a finite attempt budget lasts (each such re-ask must still print one
    error line and stay inside the read budget);
  * whether a non-interactive choice question returns the configured default string or the choice it denotes.
"""
import itertools
import re

from mc import common, par, report

PID = "C18"

# "\x1f": a typed line that consists of a control character (Unicode, but not ASCII, white space): an entry like any
# other invalid one, not an empty line
ALPHABET = ["", "0", "1", "9", "-1", "a", "A", "b", "x", "0,1", "a, b", "0,,1", "foo bar", "\x1f"]
# VERIF_SEED rotates ONE extra answer into the alphabet (the core above is always covered)
EXTRA_ANSWERS = ["2", "baz", "1,0", "B", "a,a"]
CHOICE_LISTS = [
    ["a"],
    ["a", "b"],
    ["a", "a"],
    ["1", "0"],
    ["A", "a"],
    ["foo bar", "baz"],
    ["", "b"],  # a member that is the empty string (reachable by its index only)
    ["a", "b", "c", "d", "e"],
]
ATTEMPTS = [None, 1, 2, 3]
DEFAULTS = [None, "0", "1", "0,1"]

CONFIRM_PATTERNS = [None, "(?i)^(j|y)", "^(yes|ja)$"]  # None = the class default "(?i)^y"
CONFIRM_DEFAULT_PATTERN = "(?i)^y"
CONFIRM_ANSWERS = ["", "y", "yes", "Y", "n", "no", "x", "j"]
EXTRA_CONFIRM = ["YES", "ja", "nope", "0", "yy"]

QUESTION_TEXT = "Pick"


class BudgetExceeded(BaseException):
    """Private: raised by the counting streams; BaseException so that clikit cannot swallow it."""

    def __init__(self, which):
        BaseException.__init__(self, which)
        self.which = which


# ----------------------------------------------------------------------------------------------
# environment: no stty reachable
# ----------------------------------------------------------------------------------------------
_STUBBED = [False]


class _NoSubprocess(object):
    """Stands in for the `subprocess` module inside question.py."""
    PIPE = -1
    STDOUT = -2
    DEVNULL = -3
    calls = 0

    class CalledProcessError(Exception):
        pass

    def _no(self, *a, **k):
        _NoSubprocess.calls += 1
        raise FileNotFoundError(2, "no stty reachable (verif stub)")

    call = check_call = check_output = run = Popen = getoutput = getstatusoutput = _no


def install_stty_stub():
    """Replace, from outside, every reference to subprocess (module or its functions) in the globals of
    the clikit question modules.  Works for `import subprocess` and `from subprocess import call` alike."""
    if _STUBBED[0]:
        return
    import subprocess as real
    import sys
    import clikit.ui.components.question as qmod  # noqa
    import clikit.ui.components.choice_question  # noqa
    import clikit.ui.components.confirmation_question  # noqa

    stub = _NoSubprocess()
    real_fns = {}
    for n in ("call", "check_call", "check_output", "run", "Popen", "getoutput", "getstatusoutput"):
        real_fns[id(getattr(real, n))] = n
    for name, mod in list(sys.modules.items()):
        if not name.startswith("clikit.ui.components") or mod is None:
            continue
        for g, v in list(vars(mod).items()):
            if v is real:
                setattr(mod, g, stub)
            elif id(v) in real_fns and getattr(real, real_fns[id(v)]) is v:
                setattr(mod, g, stub._no)
    # self-probe: the check must not run blind (or fork a real stty)
    q = qmod.Question("probe")
    before = _NoSubprocess.calls
    if q._has_stty_available() is not False or _NoSubprocess.calls == before:
        raise RuntimeError("engine error: stty stub not effective in clikit.ui.components.question")
    _STUBBED[0] = True


# ----------------------------------------------------------------------------------------------
# running one dialogue on the real code
# ----------------------------------------------------------------------------------------------
_CLS = {}


def _classes():
    if _CLS:
        return _CLS
    from clikit.api.io import IO, Input, Output
    from clikit.formatter import PlainFormatter
    from clikit.io.input_stream import StringInputStream
    from clikit.io.output_stream import BufferedOutputStream

    class CountingInput(StringInputStream):
        def __init__(self, text, budget):
            StringInputStream.__init__(self, text)
            self.reads = 0
            self.budget = budget

        def _tick(self):
            self.reads += 1
            if self.reads > self.budget:
                raise BudgetExceeded("read")

        def read(self, length):
            self._tick()
            return StringInputStream.read(self, length)

        def read_line(self, length=None):
            self._tick()
            return StringInputStream.read_line(self, length=length)

    class CountingOutput(BufferedOutputStream):
        def __init__(self, budget):
            BufferedOutputStream.__init__(self)
            self.writes = 0
            self.budget = budget

        def write(self, string):
            self.writes += 1
            if self.writes > self.budget:
                raise BudgetExceeded("write")
            return BufferedOutputStream.write(self, string)

    _CLS.update(IO=IO, Input=Input, Output=Output, PlainFormatter=PlainFormatter,
                CountingInput=CountingInput, CountingOutput=CountingOutput)
    return _CLS


def make_io(script, interactive=True, pending=None, via="io"):
    """IO over counting streams.  Read budget len(script)+2; write budget generous (a loop that never reads)."""
    c = _classes()
    text = "".join(l + "\n" for l in script) if pending is None else pending
    k = len(script)
    inp = c["CountingInput"](text, k + 2)
    fmt = c["PlainFormatter"]()
    out = c["CountingOutput"](16 * (k + 4))
    err = c["CountingOutput"](16 * (k + 4))
    io = c["IO"](c["Input"](inp), c["Output"](out, fmt), c["Output"](err, fmt))
    if via == "section-before":
        # the section is taken first, interaction is switched off on the I/O afterwards (an application that opens its
        # sections before it handles --no-interaction): the section is the same console, it must not interact either
        sec = io.section()
        if not interactive:
            io.set_interactive(False)
        io = sec
    elif not interactive:
        io.set_interactive(False)
        if via == "section-after":
            io = io.section()
        elif via == "stream-swapped":
            # interaction is switched off first, the input stream is replaced afterwards (a redirected input attached late):
            # the I/O is still non-interactive
            inp = c["CountingInput"](text, k + 2)
            io.input.set_stream(inp)
    return io, inp, out, err


def ask(q, script, interactive=True, pending=None, via="io"):
    """-> observation dict (JSON-able)"""
    io, inp, out, err = make_io(script, interactive, pending, via)
    try:
        val = q.ask(io)
        outcome, detail = "return", val
    except BudgetExceeded as e:
        outcome, detail = "budget", e.which
    except Exception as e:
        outcome, detail = "raise", "%s: %s" % (type(e).__name__, e)
    return {"outcome": outcome, "detail": detail, "reads": inp.reads, "err": err.fetch(), "out": out.fetch()}


def make_choice(cfg, attempts="cfg"):
    from clikit.ui.components import ChoiceQuestion
    q = ChoiceQuestion(QUESTION_TEXT, list(cfg["choices"]), cfg["default"])
    if cfg["multi"]:
        q.set_multi_select(True)
    a = cfg["attempts"] if attempts == "cfg" else attempts
    if a is not None:
        q.set_max_attempts(a)
    return q


_PROMPTS = {}


def prompt_of(cfg):
    """The prompt text of this configuration, taken from the implementation through the public API:
    one attempt, empty input -> exactly one prompt is written, then the question gives up."""
    key = (tuple(cfg["choices"]), cfg["multi"], cfg["default"])
    if key not in _PROMPTS:
        o = ask(make_choice(cfg, attempts=1), [])
        _PROMPTS[key] = o["err"]
    return _PROMPTS[key]


# ----------------------------------------------------------------------------------------------
# reference validator (from the statement)
# ----------------------------------------------------------------------------------------------
VALID, INVALID, OPEN = "valid", "invalid", "open"
_INDEX = re.compile(r"^[0-9]+$")


def ref_part(choices, s):
    """One typed name/index -> (verdict, allowed set of members)."""
    n = choices.count(s)
    is_index = bool(_INDEX.match(s)) and int(s) < len(choices)
    if n:
        allowed = {s}
        if is_index:
            allowed.add(choices[int(s)])  # index string is itself a choice: statement silent which wins
        return (OPEN if n > 1 else VALID), allowed  # n > 1: ambiguous value, statement silent
    if is_index:
        return VALID, {choices[int(s)]}
    folded = {c for c in choices if c.lower() == s.lower()}
    if folded:
        return OPEN, folded  # differs in case only: statement silent
    return INVALID, set()


def ref_entry(cfg, entry):
    """entry = the line after trimming and default substitution (None = empty line, no default)
    -> (verdict, [allowed set per typed part])"""
    if entry is None:
        return INVALID, []
    if not cfg["multi"]:
        v, allowed = ref_part(cfg["choices"], entry)
        return v, [allowed]
    open_ = False
    alloweds = []
    for p in (x.strip() for x in entry.split(",")):
        if p == "":
            open_ = True  # blank part: statement silent (reject, or ignore it)
            if "" in cfg["choices"]:
                alloweds.append({""})  # ... or take it for the member that is the empty string
            continue
        v, allowed = ref_part(cfg["choices"], p)
        if v == INVALID:
            return INVALID, []
        if v == OPEN:
            open_ = True
        alloweds.append(allowed)
    if not alloweds:
        return INVALID, []
    return (OPEN if open_ else VALID), alloweds


_BLANKS = " \t\n\r\x0b\x0c"  # what a typed line is trimmed of: ASCII white space (the line is read as bytes)


def effective(cfg, line):
    s = line.strip(_BLANKS)
    return s if s != "" else cfg["default"]


def kind_of(cfg, line):
    """Coarse class of a typed line, used in signatures only."""
    s = line.strip(_BLANKS)
    if s == "":
        return "default" if cfg["default"] is not None else "empty"
    parts = [p.strip() for p in s.split(",")] if cfg["multi"] else [s]
    if any(" " in p and p in cfg["choices"] for p in parts):
        return "spaced-value"
    if len(parts) > 1:
        return "list"
    if s in cfg["choices"]:
        return "value"
    if _INDEX.match(s):
        return "index" if int(s) < len(cfg["choices"]) else "out-of-range"
    if re.match(r"^-[0-9]+$", s):
        return "negative"
    return "unknown"


def value_ok(cfg, value, alloweds):
    """-> None or a short reason"""
    ch = cfg["choices"]
    if cfg["multi"]:
        if not isinstance(value, list):
            return "not-a-list"
        if any(v not in ch for v in value):
            return "nonmember"
        if alloweds is None:
            return None
        union = set().union(*alloweds) if alloweds else set()
        if any(v not in union for v in value):
            return "wrong-value"
        if any(not (a & set(value)) for a in alloweds):
            return "wrong-value"
        return None
    if isinstance(value, (list, tuple, dict, set)) or value not in ch:
        return "nonmember"
    if alloweds and value not in alloweds[0]:
        return "wrong-value"
    return None


def parse_err(err, prompt):
    """error output must be PROMPT (ERRORLINE PROMPT)* [ERRORLINE] -> (asks, printed, trailing) or None"""
    if not prompt:
        return None
    segs = err.split(prompt)
    if segs[0] != "":
        return None
    asks = len(segs) - 1
    if asks < 1:
        return None
    for m in segs[1:-1]:
        if len(m) < 2 or not m.endswith("\n") or m.count("\n") != 1:
            return None
    last = segs[-1]
    if last and (len(last) < 2 or not last.endswith("\n") or last.count("\n") != 1):
        return None
    return asks, len(segs) - 2 + (1 if last else 0), bool(last)


def check_node(cfg, script, obs):
    """Judge one run.  -> (violation | None, n_rejected_by_impl)"""
    mode = "multi" if cfg["multi"] else "single"
    case = dict(cfg, kind="choice", script=list(script))
    k = len(script)
    r = obs["reads"]
    outcome = obs["outcome"]
    N = cfg["attempts"]

    def V(sig, what, expected=None):
        return report.viol(sig, "%s | choices=%r %s default=%r attempts=%r script=%r" % (
            what, cfg["choices"], mode, cfg["default"], N, list(script)), case, expected,
            {"outcome": outcome, "detail": obs["detail"], "reads": r, "err": obs["err"][-300:]})

    if outcome == "budget" and obs["detail"] == "write":
        return V("nonterm:write-budget", "the question keeps writing without reading (no progress)"), 0
    if obs["out"] != "":
        return V("stdout-written", "a question wrote to the standard output"), 0
    # 1. the blanket guarantee
    if outcome == "return":
        why = value_ok(cfg, obs["detail"], None)
        if why:
            return V("%s:%s" % (why, mode), "returned %r which is not %s" % (
                obs["detail"], "a list of members" if cfg["multi"] else "a member of the choices")), 0
    # 2. walk the consumed entries
    consumed = min(r, k)
    rejected = 0
    for i in range(consumed):
        line = script[i]
        verdict, alloweds = ref_entry(cfg, effective(cfg, line))
        last = (i == r - 1)
        if last and outcome == "return":
            if verdict == INVALID:
                return V("accepted-invalid:%s:%s" % (mode, kind_of(cfg, line)),
                         "entry %r is not a choice or a displayed index but was accepted as %r" % (line, obs["detail"]),
                         "rejected"), rejected
            why = value_ok(cfg, obs["detail"], alloweds)
            if why:
                return V("%s:%s" % (why, mode), "entry %r returned %r" % (line, obs["detail"]),
                         [sorted(a) for a in alloweds]), rejected
            break
        # the implementation rejected this entry (it asked again, or failed)
        if verdict == VALID:
            return V("rejected-valid:%s:%s" % (mode, kind_of(cfg, line)),
                     "entry %r denotes %r (index and value must be interchangeable) but was rejected" % (
                         line, [sorted(a) for a in alloweds]), [sorted(a) for a in alloweds]), rejected
        rejected += 1
        if N is not None and rejected == N:
            if not last:
                return V("attempts:asked-beyond-limit", "asked again after %d invalid entries although %d attempts are configured" % (
                    rejected, N), "failure after exactly %d invalid entries" % N), rejected
            break  # failed exactly here (outcome is 'raise': r <= k excludes the budget)
        if last and outcome == "raise":
            return V("attempts:failed-early", "gave up after %d invalid entr%s, configured attempts: %r" % (
                rejected, "y" if rejected == 1 else "ies", N), "ask again"), rejected
    else:
        # every line of the script was consumed and rejected, attempts remain: end of input
        if r > k or k == 0:
            if outcome == "budget":
                return V("nonterm:eof-reask", "end of input does not stop the question: more than len(script)+2 = %d reads" % (k + 2),
                         "gives up at end of input"), rejected
            # 'return' at end of input: already checked to be a member; 'raise': gave up. Both terminate.
    # 3. accounting on the error stream: PROMPT (ERROR PROMPT)*, one prompt per read
    if outcome != "budget":
        p = parse_err(obs["err"], prompt_of(cfg))
        if p is None:
            return V("errors:structure", "error output is not PROMPT (ERRORLINE PROMPT)*", None), rejected
        asks, printed, trailing = p
        if asks != r:
            return V("accounting:prompts-vs-reads", "%d prompts for %d reads" % (asks, r), r), rejected
        if trailing and outcome != "raise":
            return V("errors:count", "an error line follows the last prompt although the question did not fail", asks - 1), rejected
        # printed == asks-1 (+1 tolerated when failing): with asks == reads this is
        # '#error lines == #invalid entries consumed' (the raised exception carries the last one)
    return None, rejected


# ----------------------------------------------------------------------------------------------
# the dialogue tree of one configuration
# ----------------------------------------------------------------------------------------------
def configs():
    out = []
    for ch in CHOICE_LISTS:
        for multi in (False, True):
            for d in DEFAULTS:
                if d == "1" and len(ch) < 2:
                    continue  # not a displayed index: the prompt cannot be rendered (not enumerated)
                if d == "0,1" and (not multi or len(ch) < 2):
                    continue  # a list default applies to multi-select only
                for a in ATTEMPTS:
                    out.append({"choices": ch, "multi": multi, "default": d, "attempts": a})
    # simplest first: unlimited attempts first so that the minimal end-of-input case is reported
    return out


def explore_tree(cfg, alphabet, max_depth, vio_cap=20):
    """Breadth-first over script prefixes.  -> dict of counts, violations, samples"""
    res = {"nodes": 0, "edges": 0, "runs": 0, "nontrivial": 0, "with_rejected": 0, "max_depth": 0, "cut": 0, "leaves": 0,
           "eof_nodes": 0, "viol": [], "samples": [], "outcomes": {"return": 0, "raise": 0, "budget": 0}}
    frontier = [()]
    depth = 0
    while frontier:
        nxt = []
        for script in frontier:
            obs = ask(make_choice(cfg), script)
            res["runs"] += 1
            res["nodes"] += 1
            res["outcomes"][obs["outcome"]] += 1
            v, rejected = check_node(cfg, script, obs)
            if rejected:
                res["with_rejected"] += 1
                if obs["reads"] <= len(script) and obs["outcome"] in ("return", "raise"):
                    res["nontrivial"] += 1  # retried at least once AND decided inside the script
            if v:
                if len(res["viol"]) < vio_cap:
                    res["viol"].append(v)
                if v["sig"] != "nonterm:eof-reask":
                    continue  # do not build on a broken node (except the end-of-input loop: keep exploring)
            asked_again = obs["reads"] > len(script)
            if asked_again:
                res["eof_nodes"] += 1
                if depth < max_depth:
                    for a in alphabet:
                        nxt.append(script + (a,))
                    res["edges"] += len(alphabet)
                else:
                    res["cut"] += 1
            else:
                res["leaves"] += 1
                if len(res["samples"]) < 1 and depth >= 2:
                    res["samples"].append({"cfg": cfg, "script": list(script), "outcome": obs["outcome"], "detail": obs["detail"]})
        if frontier:
            res["max_depth"] = depth
        frontier = nxt
        depth += 1
    return res


def interchange_scripts(cfg):
    """One-line scripts outside the alphabet: every index, every value, and in multi-select every
    ordered pair written by index, by value and mixed (with and without blanks around the comma)."""
    ch = cfg["choices"]
    out = []
    for i, c in enumerate(ch):
        out += [str(i), c, " %s " % c, " %d " % i]
    if cfg["multi"]:
        for i, j in itertools.product(range(len(ch)), repeat=2):
            out += ["%d,%d" % (i, j), "%s,%s" % (ch[i], ch[j]), "%d, %s" % (i, ch[j]), "%s ,%d" % (ch[i], j)]
    seen = []
    for s in out:
        if s not in seen:
            seen.append(s)
    return [(s,) for s in seen]


def reuse_check(cfg, alphabet, vio_cap=3):
    """The same Question object asked twice must behave like a fresh one (attempt accounting is per ask)."""
    scripts = [()] + [(a,) for a in alphabet]
    vs = []
    runs = 0
    fresh = {}
    for s in scripts:
        fresh[s] = ask(make_choice(cfg), s)
        runs += 1
    for s1 in scripts:
        for s2 in scripts:
            q = make_choice(cfg)
            ask(q, s1)
            o2 = ask(q, s2)
            runs += 2
            f = fresh[s2]
            if (o2["outcome"], o2["detail"], o2["reads"], o2["err"]) != (f["outcome"], f["detail"], f["reads"], f["err"]):
                if len(vs) < vio_cap:
                    case = dict(cfg, kind="reuse", script=list(s1), script2=list(s2))
                    vs.append(report.viol("reuse:second-ask-differs",
                                          "the same question object asked a second time behaves differently from a fresh one | "
                                          "choices=%r multi=%r default=%r attempts=%r first=%r second=%r" % (
                                              cfg["choices"], cfg["multi"], cfg["default"], cfg["attempts"], list(s1), list(s2)),
                                          case, {k: f[k] for k in ("outcome", "detail", "reads")},
                                          {k: o2[k] for k in ("outcome", "detail", "reads")}))
    return vs, runs


def io_reuse_check(cfg, alphabet, vio_cap=3):
    """One I/O object serves two dialogues: the first runs into the end of the input (or ends early), then new lines are
    fed to the same input stream (set / append, what BufferedIO.set_input / append_input do) and a fresh question is asked
    on it: it must behave as on a fresh I/O holding those lines."""
    c = _classes()
    scripts = [()] + [(a,) for a in alphabet]
    # first dialogues that may leave typed lines unread (two lines, the first one with a character of several bytes)
    firsts = scripts + [(a, b) for a in ("Zo\u00eb \u2603", "x") for b in ("1", "a")]
    vs = []
    runs = 0
    fresh = {}

    def fresh_of(s):
        if s not in fresh:
            fresh[s] = ask(make_choice(cfg), s)
        return fresh[s]

    for s in scripts:
        fresh_of(s)
        runs += 1
    for s1 in firsts:
        for s2 in scripts:
            for how in ("set", "append"):
                io, inp, out, err = make_io(s1)
                try:
                    make_choice(cfg).ask(io)
                except BudgetExceeded:
                    continue  # the first dialogue itself is broken: reported by the tree exploration
                except Exception:
                    pass
                inp.budget = 10 ** 9  # the second dialogue gets a budget of its own
                # "append" keeps what the first dialogue left unread (every read_line took one typed line while there were any)
                left = tuple(s1[min(inp.reads, len(s1)):]) if how == "append" else ()
                reads0 = inp.reads
                inp.budget = reads0 + len(left) + len(s2) + 2
                err.clear()
                err.writes = 0
                getattr(inp, how)("".join(l + "\n" for l in s2))
                try:
                    val = make_choice(cfg).ask(io)
                    o2 = ("return", val)
                except BudgetExceeded as e:
                    o2 = ("budget", e.which)
                except Exception as e:
                    o2 = ("raise", "%s: %s" % (type(e).__name__, e))
                runs += 2
                f = fresh_of(left + s2)
                got = (o2[0], o2[1], inp.reads - reads0, err.fetch())
                if got != (f["outcome"], f["detail"], f["reads"], f["err"]):
                    if len(vs) < vio_cap:
                        case = dict(cfg, kind="io-reuse", script=list(s1), script2=list(s2), how=how)
                        vs.append(report.viol("io-reuse:second-dialogue-differs:" + how,
                                              "a question asked on an I/O object that served an earlier dialogue (input re-fed with %s) behaves "
                                              "differently from a fresh I/O | choices=%r multi=%r default=%r attempts=%r first=%r second=%r" % (
                                                  how, cfg["choices"], cfg["multi"], cfg["default"], cfg["attempts"], list(s1), list(s2)),
                                              case, [f["outcome"], f["detail"], f["reads"]], list(got[:3])))
    return vs, runs


def stream_share_check(cfg, alphabet, vio_cap=3):
    """Two I/O objects in a row over ONE underlying (seekable) byte stream - two commands of one process reading the same
    redirected standard input: the second dialogue must go on with the lines the first one left, exactly as if one I/O object
    had served both."""
    import io as _io
    from clikit.io.input_stream.stream_input_stream import StreamInputStream
    c = _classes()

    class CountingBytes(_io.BytesIO):
        budget = 0
        reads = 0

        def readline(self, *a):
            self.reads += 1
            if self.reads > self.budget:
                raise BudgetExceeded("read")
            return _io.BytesIO.readline(self, *a)

    def one(q, io):
        try:
            return ["return", q.ask(io)]
        except BudgetExceeded as e:
            return ["budget", e.which]
        except Exception as e:
            return ["raise", "%s: %s" % (type(e).__name__, e)]

    def dialogue(s1, s2, two):
        stream = CountingBytes("".join(l + "\n" for l in s1 + s2).encode("utf-8"))
        stream.budget = len(s1) + len(s2) + 6
        fmt = c["PlainFormatter"]()

        def mk():
            return c["IO"](c["Input"](StreamInputStream(stream)), c["Output"](c["CountingOutput"](400), fmt), c["Output"](c["CountingOutput"](400), fmt))
        io1 = mk()
        r1 = one(make_choice(cfg), io1)
        r2 = one(make_choice(cfg), mk() if two else io1)
        return [r1, r2, stream.reads]

    scripts = [()] + [(a,) for a in alphabet] + [(a, b) for a in alphabet[:3] for b in alphabet[:3]]
    vs = []
    runs = 0
    for s1 in scripts:
        for s2 in scripts[:1 + len(alphabet)]:
            ref, got = dialogue(s1, s2, False), dialogue(s1, s2, True)
            runs += 4
            if ref != got and len(vs) < vio_cap:
                case = dict(cfg, kind="stream-share", script=list(s1), script2=list(s2))
                vs.append(report.viol("io-share:second-io-on-one-stream-differs",
                                      "two dialogues on two I/O objects over one input stream differ from the same two dialogues on one I/O "
                                      "object | choices=%r multi=%r default=%r attempts=%r lines=%r" % (
                                          cfg["choices"], cfg["multi"], cfg["default"], cfg["attempts"], list(s1 + s2)),
                                      case, ref, got))
    return vs, runs


# ----------------------------------------------------------------------------------------------
# confirmation questions
# ----------------------------------------------------------------------------------------------
def confirm_case(pattern, default, answer):
    """-> violation or None"""
    from clikit.ui.components import ConfirmationQuestion
    case = {"kind": "confirm", "pattern": pattern, "default": default, "answer": answer}
    q = ConfirmationQuestion("Sure?", default) if pattern is None else ConfirmationQuestion("Sure?", default, pattern)
    script = [] if answer is None else [answer]
    obs = ask(q, script)
    shown = {k: obs[k] for k in ("outcome", "detail", "reads")}
    if answer is None:
        # end of input: must stop within the budget (raising or returning, the statement does not say which)
        if obs["outcome"] == "budget":
            return report.viol("confirm:nonterm:eof", "confirmation does not stop at end of input", case, "gives up", shown)
        return None
    pat = CONFIRM_DEFAULT_PATTERN if pattern is None else pattern
    typed = answer.strip(_BLANKS)
    exp = default if typed == "" else (re.match(pat, typed) is not None)
    if obs["outcome"] != "return":
        return report.viol("confirm:no-answer", "confirmation %r default=%r answer %r did not return" % (pat, default, answer), case, exp, shown)
    if bool(obs["detail"]) != exp:
        sig = "confirm:default-on-empty" if typed == "" else "confirm:pattern"
        return report.viol(sig, "confirmation pattern %r default=%r: answer %r gave %r, expected %r" % (
            pat, default, answer, obs["detail"], exp), case, exp, shown)
    if obs["reads"] != 1:
        return report.viol("confirm:reads", "confirmation consumed %d lines for one answer" % obs["reads"], case, 1, shown)
    if obs["out"] != "":
        return report.viol("stdout-written", "a question wrote to the standard output", case, "", shown)
    return None


def confirm_cases(extra):
    out = []
    for p in CONFIRM_PATTERNS:
        for d in (True, False):
            for a in [None] + CONFIRM_ANSWERS + [extra]:
                out.append((p, d, a))
    return out


# ----------------------------------------------------------------------------------------------
# interaction off
# ----------------------------------------------------------------------------------------------
def _never(_):
    raise ValueError("never valid")


def noninteractive_specs():
    """JSON-able descriptions of every question kind."""
    out = []
    for d in (None, "dflt", ""):
        for validator in (False, True):
            for att in (None, 1):
                out.append({"kind": "nonint", "q": "question", "default": d, "validator": validator, "attempts": att})
    for cfg in configs():
        out.append(dict(cfg, kind="nonint", q="choice"))
    for p in CONFIRM_PATTERNS:
        for d in (True, False):
            out.append({"kind": "nonint", "q": "confirm", "pattern": p, "default": d})
    # the same on a section of the I/O, taken before / after interaction was switched off
    return out + [dict(o, via=via) for via in ("section-before", "section-after", "stream-swapped") for o in out]


def build_nonint(spec):
    from clikit.ui.components import ConfirmationQuestion, Question
    if spec["q"] == "question":
        q = Question("What?", spec["default"])
        if spec["validator"]:
            q.set_validator(_never)
        if spec["attempts"] is not None:
            q.set_max_attempts(spec["attempts"])
        return q
    if spec["q"] == "choice":
        return make_choice(spec)
    if spec["pattern"] is None:
        return ConfirmationQuestion("Sure?", spec["default"])
    return ConfirmationQuestion("Sure?", spec["default"], spec["pattern"])


def nonint_case(spec):
    q = build_nonint(spec)
    # input is available ("x" would be an answer) but must not be touched
    obs = ask(q, ["x", "y"], interactive=False, via=spec.get("via", "io"))
    shown = {k: obs[k] for k in ("outcome", "detail", "reads", "err", "out")}
    if obs["outcome"] != "return":
        return report.viol("nonint:no-default:" + spec["q"], "non-interactive %s question did not return" % spec["q"], spec, spec["default"], shown)
    if obs["reads"] != 0:
        return report.viol("nonint:read:" + spec["q"], "non-interactive %s question read from the input" % spec["q"], spec, 0, shown)
    if obs["err"] != "" or obs["out"] != "":
        return report.viol("nonint:wrote:" + spec["q"], "non-interactive %s question wrote %r" % (spec["q"], obs["err"] + obs["out"]), spec, "", shown)
    d = spec["default"]
    if spec["q"] == "choice" and d is not None:
        # "its default": the configured default, or (statement silent) the choice(s) that default denotes
        denoted = [spec["choices"][int(x)] for x in d.split(",")]
        if obs["detail"] == (denoted if spec["multi"] else denoted[0]):
            return None
    if obs["detail"] != d or type(obs["detail"]) is not type(d):
        return report.viol("nonint:value:" + spec["q"], "non-interactive %s question returned %r, default is %r" % (
            spec["q"], obs["detail"], d), spec, d, shown)
    return None


# ----------------------------------------------------------------------------------------------
# replay / main
# ----------------------------------------------------------------------------------------------
def _cfg_of(case):
    return {"choices": list(case["choices"]), "multi": bool(case["multi"]), "default": case["default"], "attempts": case["attempts"]}


def replay(case):
    install_stty_stub()
    kind = case.get("kind")
    if kind == "choice":
        cfg = _cfg_of(case)
        script = tuple(case["script"])
        v, _ = check_node(cfg, script, ask(make_choice(cfg), script))
        return v
    if kind == "reuse":
        cfg = _cfg_of(case)
        q = make_choice(cfg)
        ask(q, tuple(case["script"]))
        o2 = ask(q, tuple(case["script2"]))
        f = ask(make_choice(cfg), tuple(case["script2"]))
        if (o2["outcome"], o2["detail"], o2["reads"], o2["err"]) != (f["outcome"], f["detail"], f["reads"], f["err"]):
            return report.viol("reuse:second-ask-differs", "second ask on the same object differs from a fresh one", case,
                               {k: f[k] for k in ("outcome", "detail", "reads")}, {k: o2[k] for k in ("outcome", "detail", "reads")})
        return None
    if kind == "io-reuse":
        cfg = _cfg_of(case)
        vs, _ = io_reuse_check(cfg, sorted(set(case["script"]) | set(case["script2"])), vio_cap=1000)
        for v in vs:
            if v["case"]["script"] == case["script"] and v["case"]["script2"] == case["script2"] and v["case"]["how"] == case["how"]:
                return v
        return None
    if kind == "stream-share":
        cfg = _cfg_of(case)
        vs, _ = stream_share_check(cfg, sorted(set(case["script"]) | set(case["script2"])), vio_cap=1000)
        for v in vs:
            if v["case"]["script"] == case["script"] and v["case"]["script2"] == case["script2"]:
                return v
        return None
    if kind == "confirm":
        return confirm_case(case["pattern"], case["default"], case["answer"])
    if kind == "nonint":
        return nonint_case(case)
    raise ValueError("unknown case kind %r" % kind)


def main():
    rep = report.Report(PID, "model_checking")
    install_stty_stub()
    thorough = rep.tier == "thorough"
    depth = 4 if thorough else 3
    extra = EXTRA_ANSWERS[rep.seed % len(EXTRA_ANSWERS)]
    alphabet = ALPHABET + [extra]
    cextra = EXTRA_CONFIRM[rep.seed % len(EXTRA_CONFIRM)]
    cfgs = configs()

    def work(share):
        calls0 = _NoSubprocess.calls
        tot = {"nodes": 0, "edges": 0, "runs": 0, "nontrivial": 0, "with_rejected": 0, "stty_calls": 0, "max_depth": 0, "cut": 0, "leaves": 0, "eof_nodes": 0,
               "inter_runs": 0, "reuse_runs": 0, "return": 0, "raise": 0, "budget": 0}
        vs = []
        samples = []
        for cfg in share:
            _PROMPTS.clear()  # one probe per configuration: counts do not depend on how work is dealt to processes
            r = explore_tree(cfg, alphabet, depth)
            for k_ in ("nodes", "edges", "runs", "nontrivial", "with_rejected", "cut", "leaves", "eof_nodes"):
                tot[k_] += r[k_]
            for k_ in ("return", "raise", "budget"):
                tot[k_] += r["outcomes"][k_]
            tot["max_depth"] = max(tot["max_depth"], r["max_depth"])
            vs.extend(r["viol"])
            samples.extend(r["samples"])
            # interchangeability scripts outside the alphabet (same oracle)
            for s in interchange_scripts(cfg):
                v, _ = check_node(cfg, s, ask(make_choice(cfg), s))
                tot["inter_runs"] += 1
                if v:
                    vs.append(v)
            rv, n = reuse_check(cfg, alphabet)
            tot["reuse_runs"] += n
            rv2, n2 = io_reuse_check(cfg, alphabet)
            tot["reuse_runs"] += n2
            rv3, n3 = stream_share_check(cfg, alphabet)
            tot["reuse_runs"] += n3
            rv = rv + rv2 + rv3
            vs.extend(rv)
        tot["stty_calls"] = _NoSubprocess.calls - calls0
        # keep the first few per signature only (the Report keeps the first anyway)
        seen = {}
        for v in vs:
            seen.setdefault(v["sig"], v)
        return tot, list(seen.values())[:20], samples[:2]

    total = None
    shares = [[c] for c in cfgs]  # one configuration per work item, results come back in configuration order
    for tot, vs, samples in par.pmap(work, shares):
        rep.merge(vs)
        if total is None:
            total = dict(tot)
        else:
            for k_, v_ in tot.items():
                total[k_] = max(total[k_], v_) if k_ == "max_depth" else total[k_] + v_
        for s in samples:
            rep.sample(s, cap=5)
    rep.part("choice_tree", configurations=len(cfgs), alphabet=alphabet, depth_bound=depth, nodes=total["nodes"],
             edges=total["edges"], max_depth=total["max_depth"], unexpanded_at_bound=total["cut"],
             terminated_nodes=total["leaves"], asked_again_nodes=total["eof_nodes"],
             outcomes={k_: total[k_] for k_ in ("return", "raise", "budget")},
             nodes_with_rejected_entry=total["with_rejected"], decided_after_retry=total["nontrivial"])
    rep.part("interchange", runs=total["inter_runs"], what="every index / value / pair (by index, by value, mixed) of every configuration")
    rep.part("reuse", runs=total["reuse_runs"], what="same question object asked twice, scripts of <= 1 line, second ask == fresh object")

    # confirmation
    cc = confirm_cases(cextra)
    nviol = 0
    for (p, d, a) in cc:
        v = confirm_case(p, d, a)
        if v:
            rep.violation(v)
            nviol += 1
    rep.part("confirmation", cases=len(cc), patterns=[CONFIRM_DEFAULT_PATTERN if p is None else p for p in CONFIRM_PATTERNS],
             answers=CONFIRM_ANSWERS + [cextra, "<end of input>"], defaults=[True, False])
    rep.sample({"confirm": cc[3]})

    # interaction off
    ni = noninteractive_specs()
    for spec in ni:
        v = nonint_case(spec)
        if v:
            rep.violation(v)
    rep.part("non_interactive", cases=len(ni), kinds=["Question (with/without validator, attempts)", "ChoiceQuestion (every configuration)", "ConfirmationQuestion"])
    rep.sample({"non_interactive": ni[0]})

    evaluations = total["runs"] + total["inter_runs"] + total["reuse_runs"] + len(cc) + len(ni)
    rep.set("evaluations", evaluations)
    rep.set("states", total["nodes"])
    rep.set("transitions", total["edges"])
    rep.set("traces_validated_against_impl", evaluations)
    rep.set("distinct_nontrivial", total["nontrivial"])
    rep.set("max_depth", total["max_depth"])
    rep.set("exhaustive", True)
    rep.set("rotated_answer", extra)
    rep.set("rotated_confirmation_answer", cextra)
    rep.set("stty_stub_calls", total["stty_calls"])
    rep.set("rule", "dialogue tree per configuration (choice list x single/multi x default x attempts): every script over the answer "
                    "alphabet up to the depth bound that the implementation can reach (a prefix is extended only if the run consumed it "
                    "and asked again), each run on prefix + end of input; non-trivial = distinct (configuration, script) nodes in which "
                    "the implementation rejected at least one entry and then reached a decision inside the script (an accepted answer after "
                    "a retry, or failure by the attempt limit); termination by a read budget of len(script)+2")
    rep.assume("no stty reachable: subprocess inside clikit.ui.components.question replaced by a stub raising FileNotFoundError (self-probed)")
    rep.assume("termination verdicts come from read/write budgets on the streams, never from wall-clock")
    rep.assume("negative and out-of-range numbers are invalid entries; an empty line stands for the default")
    rep.assume("open corners accepted either way: ambiguous values, case-only differences, blank list parts, index string that is itself a choice, "
               "order of a multi-select result, exception class/message, re-asking at end of input within a finite attempt budget")
    return rep.finish()
