"""C12 - listeners run by priority then registration order until propagation stops.

E2 exploration of the real EventDispatcher (plain data -> forked with deepcopy).
State = (dispatcher, reference list of registrations).  Full-vars fingerprint.
"""
import copy

from mc import common, explore, report
from mc.fingerprint import canon

PID = "C12"
LOG = []


class L(object):
    """A listener: records its call, optionally stops propagation.  Equality by tag so that a
    deep-copied dispatcher still recognises it in get_listener_priority."""

    def __init__(self, tag, stops):
        self.tag = tag
        self.stops = stops

    def __call__(self, event, event_name, dispatcher):
        LOG.append((self.tag, event_name, dispatcher))
        if self.stops:
            event.stop_propagation()

    def __eq__(self, other):
        return isinstance(other, L) and other.tag == self.tag

    def __hash__(self):
        return hash(self.tag)

    def __repr__(self):
        return "L%d%s" % (self.tag, "!" if self.stops else "")


class RL(L):
    """A listener that, the first time it is called, registers one more (plain) listener for the event being dispatched."""

    def __init__(self, tag):
        L.__init__(self, tag, False)
        self.armed = True

    def __call__(self, event, event_name, dispatcher):
        L.__call__(self, event, event_name, dispatcher)
        if self.armed:
            self.armed = False
            dispatcher.add_listener(event_name, L(1000 + self.tag, False), 0)


def _sub_event():
    from clikit.api.event.event import Event

    class HaltEvent(Event):
        """An event class of the application's own: it keeps the 'stopped' state its own way (the accessors are the interface)."""

        def __init__(self):
            Event.__init__(self)
            self._halted = False

        def stop_propagation(self):
            self._halted = True

        def is_propagation_stopped(self):
            return self._halted

    return HaltEvent()


def _leaf(o):
    if isinstance(o, RL):
        return ("RL", o.tag, o.armed)
    if isinstance(o, L):
        return ("L", o.tag, o.stops)
    return None


class State(object):
    def __init__(self, d):
        self.d = d
        self.regs = []  # (event, priority, stops, tag)


class Spec(object):
    def __init__(self, events, foreign, priorities, stop_kinds, query_ops=True, readd=False):
        self.readd = readd
        self.priorities = list(priorities)
        self.events = events
        self.foreign = foreign
        self.adds = [("add", e, p, s) for e in events for p in priorities for s in stop_kinds]
        # "dispatch": the caller passes its own Event; "dispatch0": no event given (the dispatcher creates one)
        self.disp = [("dispatch", e) for e in events + foreign] + [("dispatch0", e) for e in events]
        # queries as *operations* of the history (a query must not change what later dispatches do): on a registered event,
        # on an event nobody registers for, and without an event
        self.qops = ([("get_listeners", e) for e in events[:1]] + [("get_listeners_all",)] +
                     [("has_listeners", e) for e in events[:1] + foreign] + [("has_listeners", None)] +
                     [("get_listener_priority", e) for e in events[:1] + foreign]) if query_ops else []

    def init(self):
        from clikit.api.event.event_dispatcher import EventDispatcher
        return State(EventDispatcher())

    def fork(self, st):
        n = State(copy.deepcopy(st.d))
        n.regs = list(st.regs)
        n.armed = set(getattr(st, "armed", ()))
        n.rl = set(getattr(st, "rl", ()))
        return n

    def key(self, st):
        return (canon(st.d, _leaf), tuple(st.regs))

    def ops(self, st, depth):
        out = self.adds + self.disp + self.qops
        if self.readd:
            # a dispatch with an event object of a subclass that keeps its own 'stopped' state; a listener that registers
            # another listener while it is being called
            out = out + [("dispatchS", e) for e in self.events[:1]] + [("add_rl", e, p) for e in self.events[:1] for p in self.priorities[:2]]
        if self.readd and st is not None:
            # the listener object of the first registration for an event is registered once more, under another priority
            for e in self.events[:1]:
                mine = [r for r in st.regs if r[0] == e and r[3] not in getattr(st, "rl", ())]
                if mine and len(mine) < 3:
                    out = out + [("readd", e, p) for p in self.priorities if p != mine[0][1]]
        return out

    # reference ------------------------------------------------------------------
    def expected_order(self, st, e):
        regs = [(i, r) for i, r in enumerate(st.regs) if r[0] == e]
        return [r for i, r in sorted(regs, key=lambda ir: (-ir[1][1], ir[0]))]  # priority, then registration order

    def apply(self, st, op):
        from clikit.api.event.event import Event
        vs = []
        if op[0] == "add":
            _, e, p, s = op
            tag = len(st.regs)
            st.d.add_listener(e, L(tag, bool(s)), p)
            st.regs.append((e, p, bool(s), tag))
        elif op[0] == "readd":
            _, e, p = op
            first = [r for r in st.regs if r[0] == e and r[3] not in getattr(st, "rl", ())][0]
            st.d.add_listener(e, L(first[3], first[2]), p)
            st.regs.append((e, p, first[2], first[3]))
        elif op[0] == "add_rl":
            _, e, p = op
            tag = len(st.regs)
            st.d.add_listener(e, RL(tag), p)
            st.regs.append((e, p, False, tag))
            st.armed = set(getattr(st, "armed", ())) | {tag}
            st.rl = set(getattr(st, "rl", ())) | {tag}
        elif op[0] in ("dispatch", "dispatch0", "dispatchS"):
            e = op[1]
            del LOG[:]
            if op[0] == "dispatch":
                ev = Event()
                ret = st.d.dispatch(e, ev)
            elif op[0] == "dispatchS":
                ev = _sub_event()
                ret = st.d.dispatch(e, ev)
            else:
                ret = ev = st.d.dispatch(e)
            got = list(LOG)
            del LOG[:]
            # listeners registered DURING this dispatch (by a listener being called): whether they already take part in it is
            # not demanded - they are set aside here and belong to the registrations from now on
            fired = [g[0] for g in got if g[0] in getattr(st, "armed", ())]
            late = set(1000 + t for t in fired)
            got = [g for g in got if g[0] not in late]
            exp = []
            for r in self.expected_order(st, e):
                exp.append(r[3])
                if r[2]:
                    break
            got_tags = [g[0] for g in got]
            for t in fired:
                st.armed = set(st.armed) - {t}
                st.regs.append((e, 0, False, 1000 + t))
            if got_tags != exp:
                if sorted(got_tags) == sorted(exp):
                    kind = "dispatch-order"
                elif any(t not in [r[3] for r in st.regs if r[0] == e] for t in got_tags):
                    kind = "foreign-listener-called"
                elif len(got_tags) != len(set(got_tags)):
                    kind = "listener-called-twice"
                elif set(exp) < set(got_tags):
                    kind = "called-after-stop"
                else:
                    kind = "listener-not-called"
                vs.append(report.viol(kind, "dispatch(%r) called listeners %r, reference says %r" % (e, got_tags, exp),
                                      None, exp, got_tags))
            elif any(g[1] != e or g[2] is not st.d for g in got):
                vs.append(report.viol("listener-args", "listener not called with (event, name, dispatcher)", None))
            elif ret is not ev or not isinstance(ret, Event):
                vs.append(report.viol("dispatch-return", "dispatch does not return the event it was given / an Event", None))
            elif ret.is_propagation_stopped() != any(r[2] for r in self.expected_order(st, e)):
                vs.append(report.viol("dispatch-stopped-flag", "returned event's stopped flag does not match the listeners that ran", None))
        elif op[0] == "get_listeners":
            st.d.get_listeners(op[1])
        elif op[0] == "get_listeners_all":
            st.d.get_listeners()
        elif op[0] == "has_listeners":
            st.d.has_listeners(op[1])
        elif op[0] == "get_listener_priority":
            st.d.get_listener_priority(op[1], L(0, False))
        if not vs:
            vs = self.queries(st)
        return vs

    def queries(self, st):
        """Observe every query on a copy, so that observation never perturbs the explored state."""
        d = copy.deepcopy(st.d)
        vs = []
        allev = self.events + self.foreign
        for e in allev:
            exp = [r[3] for r in self.expected_order(st, e)]
            if d.has_listeners(e) != bool(exp):
                vs.append(report.viol("query-has_listeners", "has_listeners(%r) wrong" % e, None, bool(exp), d.has_listeners(e)))
        if d.has_listeners() != bool(st.regs):
            vs.append(report.viol("query-has_listeners", "has_listeners() wrong", None, bool(st.regs), d.has_listeners()))
        for e in allev:
            for (ev, p, s, tag) in st.regs:
                if sum(1 for r in st.regs if r[3] == tag) > 1:
                    continue  # registered twice: which of its priorities is reported is not defined
                got = d.get_listener_priority(e, L(tag, s))
                exp = p if ev == e else None
                if got != exp:
                    vs.append(report.viol("query-get_listener_priority",
                                          "get_listener_priority(%r, L%d) = %r, expected %r" % (e, tag, got, exp), None, exp, got))
            if d.get_listener_priority(e, L(999, False)) is not None:
                vs.append(report.viol("query-get_listener_priority", "priority reported for an unregistered listener", None))
        d2 = copy.deepcopy(st.d)
        for e in allev:
            exp = [r[3] for r in self.expected_order(st, e)]
            got = [l.tag for l in d.get_listeners(e)]
            if got != exp:
                vs.append(report.viol("query-get_listeners", "get_listeners(%r) = %r, expected %r" % (e, got, exp), None, exp, got))
        alld = d2.get_listeners()
        for e in allev:
            exp = [r[3] for r in self.expected_order(st, e)]
            got = [l.tag for l in alld.get(e, [])]
            if got != exp:
                vs.append(report.viol("query-get_listeners", "get_listeners()[%r] = %r, expected %r" % (e, got, exp), None, exp, got))
        return vs[:1]


FULL = dict(events=["a", "b"], foreign=["c"], priorities=[-1, 0, 5], stop_kinds=[0, 1])
CORE = dict(events=["a", "b"], foreign=["c"], priorities=[0, 5], stop_kinds=[0, 1])
REDUCED = dict(events=["a"], foreign=["c"], priorities=[0, 5], stop_kinds=[0, 1])


def _spec_for(case):
    if case.get("alphabet") == "reduced-readd":
        return Spec(readd=True, **dict(REDUCED, priorities=[0, 5, 3, -7, 100, 1]))
    return Spec(**(REDUCED if case.get("alphabet") == "reduced" else FULL))


def replay(case):
    return explore.replay(_spec_for(case), case)


def main():
    rep = report.Report(PID, "model_checking")
    t = rep.tier
    extra_prio = [3, -7, 100, 1][rep.seed % 4]  # VERIF_SEED rotates one extra priority into the reduced alphabet
    runs = []
    red = dict(REDUCED, priorities=[0, 5, extra_prio])
    if t == "thorough":
        runs.append(("full", Spec(**FULL), 5, 2, True))
        runs.append(("core", Spec(**CORE), 6, 2, True))
        runs.append(("reduced", Spec(**red), 8, 2, True))
        runs.append(("full-nodedup", Spec(**FULL), 4, 1, False))
        runs.append(("reduced-readd", Spec(readd=True, **red), 7, 2, True))
    else:
        runs.append(("full", Spec(**FULL), 4, 2, True))
        runs.append(("core", Spec(**CORE), 5, 2, True))
        runs.append(("reduced", Spec(**red), 6, 2, True))
        runs.append(("full-nodedup", Spec(**FULL), 3, 1, False))
        # the same listener object registered again under another priority (one callable, several registrations)
        runs.append(("reduced-readd", Spec(readd=True, **red), 5, 2, True))
    tot_s = tot_t = 0
    for name, spec, depth, split, dedup in runs:
        r = explore.explore(spec, depth, split_depth=split, dedup=dedup)
        for v in r.violations:
            v["case"]["alphabet"] = name if name in ("reduced", "reduced-readd") else "full"
            if name == "reduced":
                # replay uses the core reduced alphabet; histories with the rotated priority replay fine too
                pass
        rep.merge(r.violations)
        rep.part(name, depth=depth, alphabet_size=len(spec.ops(None, 0)), dedup=dedup, **r.as_dict())
        tot_s += r.states
        tot_t += r.transitions
        for s in r.samples[:2]:
            rep.sample({"run": name, "history": s})
    rep.set("states", tot_s)
    rep.set("transitions", tot_t)
    rep.set("traces_validated_against_impl", tot_t)
    rep.set("exhaustive", True)
    rep.set("rotated_priority", extra_prio)
    rep.set("rule", "every sequence of ops up to the stated depth per part, executed on the real EventDispatcher; "
                    "state = full vars() fingerprint + registration list; oracle = reference stable sort + stop cut, all queries in every state")
    rep.assume("listener equality is by registration tag (needed so deep copies are recognised)")
    return rep.finish()
