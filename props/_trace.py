"""Shared by C04 and C20: the message alphabet, the 'style markup aside' normal form, SGR stripping,
scratch directories and loading of generated modules.  No clikit import at module level."""
import importlib.util
import itertools
import linecache
import os
import re
import shutil
import tempfile

# fragment alphabet fixed by DESIGN.md (C04 / C20)
FRAGMENTS = ["x", "é", "\n", "<", ">", "<b>", "</b>", "<info>", "</info>", "</>", "<fg=red>", "\\", "\0"]


def messages(max_fragments):
    """All messages of <= max_fragments fragments, simplest (shortest) first, each distinct string once."""
    seen = set()
    for n in range(0, max_fragments + 1):
        for combo in itertools.product(FRAGMENTS, repeat=n):
            m = "".join(combo)
            if m not in seen:
                seen.add(m)
                yield m


_SGR = re.compile("\x1b\\[[0-9;]*m")


def strip_sgr(s):
    return _SGR.sub("", s)


# What pastel (the formatter behind clikit) regards as a style tag: <name>, </name>, </>
_TAG = re.compile(r"(?is)<(?:[a-z][a-z0-9,_=;-]*|/(?:[a-z][a-z0-9,_=;-]*)?)>")
_ESC = re.compile(r"\\+(?=<)")


def nstar(s):
    """'Style markup aside': the text that is left when every tag-like substring and every escaping
    backslash (a backslash run directly before '<') is removed, repeated to a fixpoint.

    The statement demands the message 'style markup aside'.  It does not say whether markup inside a
    message is to be interpreted (tags vanish, '\\<' shows as '<') or shown literally (after escaping).
    Both renderings, and any number of formatter passes, have the same nstar() as the message itself,
    because each formatter pass only ever removes tag-like substrings and backslashes before '<'.
    So the oracle compares nstar(shown line) with nstar(message line): it accepts every treatment of
    markup and still demands all text that is not markup (letters, newlines, lone '<' '>' and
    backslashes that escape nothing)."""
    while True:
        t = _TAG.sub("", _ESC.sub("", s))
        if t == s:
            return s
        s = t


def message_shown(plain_text, message):
    """True iff the lines of `message` appear as consecutive lines of plain_text, indentation and
    style markup aside (see nstar)."""
    want = [nstar(l).strip(" ") for l in message.split("\n")]
    have = [nstar(l).strip(" ") for l in plain_text.split("\n")]
    k = len(want)
    for j in range(0, len(have) - k + 1):
        if have[j:j + k] == want:
            return True
    return False


def classify_message(message):
    """Sub-signature for a message that is not shown: names the simplest feature that explains it."""
    if message.endswith("\\"):
        return "trailing-backslash"
    if "\\" in message:
        return "backslash"
    if "<" in message or ">" in message:
        return "angle"
    return "plain"


class Scratch(object):
    """A per-run scratch directory under /tmp, removed at the end."""

    def __init__(self, prefix):
        self.dir = tempfile.mkdtemp(prefix=prefix + "-", dir="/tmp")
        self.n = 0

    def write(self, name, source, encoding="utf-8"):
        p = os.path.join(self.dir, name)
        with open(p, "wb") as f:
            f.write(source.encode(encoding))
        return p

    def load(self, name, source, delete=False):
        """Write <name>.py, import it under a unique module name; optionally delete the file afterwards."""
        p = self.write(name + ".py", source)
        self.n += 1
        modname = "_verif_gen_%s_%d" % (name, self.n)
        spec = importlib.util.spec_from_file_location(modname, p)
        mod = importlib.util.module_from_spec(spec)
        spec.loader.exec_module(mod)
        if delete:
            os.unlink(p)
            linecache.checkcache(p)
        return mod

    def close(self):
        shutil.rmtree(self.dir, ignore_errors=True)


def clear_trace_caches():
    """Caches that outlive one rendering (class-level snippet cache = subject of C17; crashtest's file
    content cache; linecache).  Cleared between cases so that results do not depend on case order."""
    linecache.clearcache()
    try:
        from clikit.ui.components.exception_trace import ExceptionTrace
        ExceptionTrace._FRAME_SNIPPET_CACHE.clear()
    except Exception:
        pass
    try:
        from crashtest.frame import Frame
        Frame._content_cache.clear()
    except Exception:
        pass


def crash_site(exc):
    """Signature fragment for an exception that escaped the renderer: class + the (up to two) innermost functions of
    ui/components/exception_trace.py on the stack, e.g. 'ValueError@_render_exception>_render_line'.  This names the
    rendering step that failed plus the first two words of the
    exception text; it is the same for the ANSI and the plain formatter (report.exc_site would name the
    formatter method instead and split one defect into several signatures).  Falls back to report.exc_site."""
    from mc import report
    names = []
    tb = exc.__traceback__
    while tb is not None:
        fn = tb.tb_frame.f_code.co_filename
        if fn.endswith(os.path.join("ui", "components", "exception_trace.py")):
            names.append(tb.tb_frame.f_code.co_name)
        tb = tb.tb_next
    slug = "-".join(re.findall(r"[A-Za-z0-9]+", str(exc))[:2]).lower()
    if not names:
        return report.exc_site(exc)
    return "%s@%s:%s" % (type(exc).__name__, ">".join(names[-2:]), slug)
