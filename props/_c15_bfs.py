"""Level-synchronous variant of mc/explore.py for replay-style specs (used by props/c15.py).

Same spec contract as mc.explore (init / ops / apply / key, states rebuilt by replaying the history), same
verdicts, but deduplication is GLOBAL per level: the parent keeps the set of fingerprints, the frontier of every
level is dealt round-robin to forked workers (mc.par.pmap) which execute all successors on fresh real objects and
return (op, fingerprint) per transition; the parent merges the answers in frontier order, so

  * states and transitions are exact and do not depend on how the work was split (mc.explore re-explores states that
    are reachable from several shares - measured 2.2x the transitions at depth 6, growing with depth),
  * the search is strictly breadth first over the whole graph: the first violation per signature is a shortest one.

A state in which the oracle reported a violation is not expanded.  The search stops after the level in which the
number of collected violations reaches `vio_cap`.
"""
from mc import explore as _ex
from mc import par

PER_SIG_PER_WORKER = 3  # every signature survives the cap; the parent keeps the shortest per signature


class Result(_ex.Result):
    def __init__(self):
        _ex.Result.__init__(self)
        self.levels = []  # per depth: [transitions, new states]

    def as_dict(self):
        d = _ex.Result.as_dict(self)
        d["per_level_transitions_newstates"] = self.levels
        return d


def _jsonable_hist(h):
    return [list(o) if isinstance(o, tuple) else o for o in h]


def _expand(spec, hists):
    """Worker: all successors of the given histories.  Returns (rows, violations); rows[i] = list of
    (op, fingerprint-hash or None when the oracle failed) for hists[i], in ops() order."""
    rows = []
    vios = []
    nsig = {}
    for h in hists:
        base = _ex.rebuild(spec, h)
        depth = len(h)
        row = []
        first = True
        for op in spec.ops(base, depth):
            st = base if first else _ex.rebuild(spec, h)  # `base` is consumed by its first successor
            first = False
            vs = spec.apply(st, op)
            if vs:
                row.append((op, None))
                for v in vs:
                    nsig[v["sig"]] = nsig.get(v["sig"], 0) + 1
                    if nsig[v["sig"]] <= PER_SIG_PER_WORKER:
                        v["case"] = {"history": _jsonable_hist(h + (op,))}
                        vios.append(v)
                continue
            row.append((op, hash(spec.key(st))))
        rows.append(row)
    return rows, vios


def explore(spec, max_depth, dedup=True, workers=None, vio_cap=40, keep_keys=False):
    res = Result()
    root = spec.init()
    seen = {hash(spec.key(root))}
    res.states = 1
    frontier = [()]
    for depth in range(max_depth):
        if not frontier:
            break
        n = workers or par.common.ncpu()
        nshares = max(1, min(len(frontier), n * 4))
        shares = par.chunks(frontier, nshares)  # share k holds frontier[k::nshares]
        outs = par.pmap(lambda share: _expand(spec, share), shares, workers=workers)
        nxt = []
        t_level = s_level = 0
        for i, h in enumerate(frontier):  # merge in frontier order: deterministic, independent of the split
            rows, _ = outs[i % nshares]
            for op, k in rows[i // nshares]:
                res.transitions += 1
                t_level += 1
                if k is None:
                    continue
                if dedup:
                    if k in seen:
                        continue
                seen.add(k)
                res.states += 1
                s_level += 1
                nh = h + (op,)
                nxt.append(nh)
                if depth + 1 == max_depth and len(res.samples) < 4:
                    res.samples.append(_jsonable_hist(nh))
        for _, vios in outs:
            res.violations.extend(vios)
        res.levels.append([t_level, s_level])
        if nxt:
            res.max_depth = depth + 1
        frontier = nxt
        if len(res.violations) >= vio_cap:
            break
    res.cut = len(frontier)  # states at the bound (or at the early stop) that were not expanded
    # breadth-first order of the violations: shortest history first, then a fixed order
    res.violations.sort(key=lambda v: (len(v["case"]["history"]), repr(v["case"]["history"])))
    if keep_keys:
        res.keys = seen
    return res
