"""C03 - the resolver selects the deepest command named by the leading tokens.

E1, bounded exhaustive: every labelled command tree of the stated space is built on the real
ApplicationConfig / CommandConfig / ConsoleApplication, every command line of the stated line space is
resolved with Application.resolve_command(), and the outcome is compared with a reference resolver
written from the property statement (ref_resolve, ~25 lines).  Independently of the reference, three
metamorphic relations are evaluated on the implementation's own outcomes inside each tree (alias for
name on the path, appending an option that the selected command declares, appending a '--' tail the
selected command has room for).  Lines whose first token names no command are additionally pushed
through Application.run() with recording handlers: no handler may run, the status must be an error
status and the report must name the token.

TREE SPACE.  Ordered forests in preorder (parent vector), depth <= 3, fan-out <= 3 on every level
(application level included).  Node i is called n<i>; label = kind x profile,
  kind    in {plain, aliased (alias a<i>), default, anonymous, hidden, disabled, default+hidden}
  profile in {N: takes nothing, A: one optional argument x<i> + one flag option --o<i> / -<short>}.
  quick   : ALL labelled trees with <= 3 nodes (14 126) + all 4-node trees with <= 2 nodes whose label is
            not (plain, N) (12 804)
  thorough: ALL labelled trees with <= 4 nodes (475 118) + all 5-node trees with <= 2 non-(plain,N)
            nodes (49 168)
The full 14^n labelling of the largest size is out of reach (15 M five-node trees, 0.4 ms each just to
build); the cut is a stated restriction of the space, not a claim of equivalence.  No isomorphism
pruning is applied at all: names are assigned by preorder position, so two enumerated trees are never
renamings of each other, and sibling order is kept because it decides between competing defaults.

LINE SPACE per tree (W = every name and alias in the tree, also of anonymous / disabled nodes, plus one
unknown word U; P = every spelling, names or aliases, of every path of enabled named commands, "" included):
  leads     P  +  P x W  +  P x {U} x W  +  P x {U U U}            (length <= 4)
            for trees with <= 2 nodes additionally ALL of W^<=4 (thorough) / W^<=3 (quick)
  followed by one of: nothing | a declared option of the tree (long form; short form too in thorough for
            trees <= 3 nodes) | the unknown option --zz | an option and then one more word of W
  followed by one of: nothing | "--" | "--" and one command name of the tree or U.
  How much of these products a tree gets depends on its size (policy() / lines_for(): levels 3..0); the
  products are complete for trees <= 3 nodes, leaner for bigger trees.  Below level 3 the lines the statement
  is silent about (next paragraph) are not executed at all - no verdict could come from them.
  The line generator uses the model of the tree (which words are children of which command) to lay out the
  products; the verdicts come from ref_resolve() and from the implementation's own outcomes.

WHAT IS DEMANDED (from the statement), see ref_resolve():
  * walk the longest prefix of the leading non-option tokens that names a path of commands (name or
    alias); continue into that command's default sub-command - with several defaults the first one that
    can take the remaining positional words, anchors: "first parsable, else first";
  * no leading token -> the application's default command (same rule among several);
  * first token names no command -> CannotResolveCommandException naming the token, no handler run;
  * alias spelling, an appended option the selected command declares, and a '--' tail do not change it.
    "Can take the words" is known by construction (number of profile-A commands on the chain, arguments are
    inherited from parent commands), it is NOT asked of the real parser (DESIGN.md suggested asking it): a parser
    that mis-judges parsability misleads the resolver, and that is exactly how two of the three defects found
    here show (findings/c03_*.md).
DECISIONS about corners the statement is silent on (not asserted; such lines are executed and counted as
`unasserted` only for trees <= 2 nodes):
  * a line that no candidate can parse (too many words): which error is raised is C01/C02's subject;
  * an option that the command selected *without it* does not declare (unknown option, or an option that
    only a competing default declares): the statement speaks of "adding options", not of invalid ones;
  * no leading token and no default command at all;
  * an option followed by a word that names the implicit default itself ("n0 --o0 n1", n1 default of n0):
    whether that word is the command name or an argument is the resolver comment's "cannot know" case.
DECISIONS taken as the statement's meaning (asserted):
  * a disabled command and everything below it is not part of the tree (tests/test_console_aplication.py
    test_get_commands_excludes_disabled_commands); its name is an unknown word;
  * an anonymous command cannot be named (that is what anonymous means); its name is an unknown word;
  * hidden has no influence on resolution;
  * "continuing into that command's default sub-command" is one step (the default's own defaults are not
    entered), exactly as written;
  * a word that names a sub-command is the sub-command even when the parent could take it as an
    argument (longest prefix that names a path);
  * words after '--' are arguments only: "n0 -- n1" hands n1 to n0's default as an argument and n1's
    spelling must not matter for the choice among competing defaults.
"""
import itertools

from mc import common, par, report

PID = "C03"
KINDS = ("plain", "aliased", "default", "anonymous", "hidden", "disabled", "default+hidden")
PLAIN, ALIASED, DEFAULT, ANON, HIDDEN, DISABLED, DEFHID = range(7)
PROFILES = ("N", "A")
LABELS = [(k, p) for k in range(7) for p in range(2)]  # (plain, N) first
NAMES = ["n%d" % i for i in range(6)]
ALIASES = ["a%d" % i for i in range(6)]
ARGS = ["x%d" % i for i in range(6)]
OPTS = ["o%d" % i for i in range(6)]
SHORTS = "pqrstu"
UNKNOWN_WORDS = ["zz", "qq", "n9"]  # VERIF_SEED rotates the spelling of the one unknown word
UNKNOWN_OPT = "--zz"
MAX_DEPTH, MAX_FAN = 3, 3
PARSE_ERRORS = ("CannotParseArgsException", "NoSuchOptionException")


# ---------------------------------------------------------------------------------------------
# tree space
# ---------------------------------------------------------------------------------------------
def shapes(n):
    """All parent vectors (preorder, -1 = application level) with depth <= 3 and fan-out <= 3."""
    out = []

    def rec(parents, depth):
        i = len(parents)
        if i == n:
            out.append(tuple(parents))
            return
        cands, j = [-1], i - 1
        while j != -1:  # a new preorder node hangs below a node of the right-most path
            cands.append(j)
            j = parents[j]
        for p in sorted(cands):
            d = 1 if p == -1 else depth[p] + 1
            if d > MAX_DEPTH or sum(1 for q in parents if q == p) >= MAX_FAN:
                continue
            rec(parents + [p], depth + [d])

    rec([], [])
    return sorted(out, key=lambda s: (max(_depths(s)), s))


def _depths(shape):
    d = []
    for p in shape:
        d.append(1 if p == -1 else d[p] + 1)
    return d


def trees(n, max_special):
    """Labelled trees of n nodes, simplest first: fewer non-(plain,N) nodes first."""
    special = LABELS[1:]
    for j in range(0, min(n, max_special) + 1):
        for sh in shapes(n):
            for subset in itertools.combinations(range(n), j):
                for labs in itertools.product(special, repeat=j):
                    lab = [LABELS[0]] * n
                    for pos, l in zip(subset, labs):
                        lab[pos] = l
                    yield tuple((sh[i], lab[i][0], lab[i][1]) for i in range(n))


def tree_space(tier):
    """[(n, max_special)] in enumeration order."""
    if tier == "thorough":
        return [(1, 1), (2, 2), (3, 3), (4, 4), (5, 2)]
    return [(1, 1), (2, 2), (3, 3), (4, 2)]


def all_trees(tier):
    import os
    dev_max = int(os.environ.get("C03_MAX_NODES", "0") or 0)  # development only; evidence then says exhaustive=false
    for n, ms in tree_space(tier):
        if dev_max and n > dev_max:
            break
        for t in trees(n, ms):
            yield t


# ---------------------------------------------------------------------------------------------
# the model of a tree (plain data derived from the labels) and the reference resolver
# ---------------------------------------------------------------------------------------------
class Model(object):
    def __init__(self, tree, unknown):
        n = len(tree)
        self.tree, self.n, self.unknown = tree, n, unknown
        self.parent = [t[0] for t in tree]
        self.kind = [t[1] for t in tree]
        self.prof = [t[2] for t in tree]
        self.kids = dict((p, []) for p in range(-1, n))
        self.present, self.chain, self.cap, self.opts, self.full = [], [], [], [], []
        for i in range(n):
            p = self.parent[i]
            self.kids[p].append(i)
            self.present.append(self.kind[i] != DISABLED and (p < 0 or self.present[p]))
            self.chain.append((self.chain[p] if p >= 0 else []) + [i])
            self.cap.append(sum(1 for j in self.chain[i] if self.prof[j]))
            self.opts.append(frozenset(OPTS[j] for j in self.chain[i] if self.prof[j]))
            self.full.append(" ".join(NAMES[j] for j in self.chain[i]))
        self.words_of = [[NAMES[i]] + ([ALIASES[i]] if self.kind[i] == ALIASED else []) for i in range(n)]
        self.match, self.defaults = {}, {}
        for p in range(-1, n):
            live = [c for c in self.kids[p] if self.present[c]]
            self.match[p] = dict((w, c) for c in live if self.kind[c] != ANON for w in self.words_of[c])
            self.defaults[p] = [c for c in live if self.kind[c] in (DEFAULT, ANON, DEFHID)]
        self.words = [w for i in range(n) for w in self.words_of[i]] + [unknown]
        self.canon = dict((ALIASES[i], NAMES[i]) for i in range(n))
        self.short2long = dict(("-" + SHORTS[i], OPTS[i]) for i in range(n))
        self.cache = {}  # line -> expectation (pure function of the model, computed once)

    def walk(self, lead):
        cur, k = -1, 0
        for w in lead:
            nxt = self.match[cur].get(w)
            if nxt is None:
                break
            cur, k = nxt, k + 1
        return cur, k

    def opt_name(self, token):
        return self.short2long.get(token) or token.lstrip("-")


def ref_resolve(m, lead, extra, opt):
    """The property statement as a function.  lead = leading non-option words, extra = words after the
    first option and after '--' (arguments by definition), opt = long name of the one option or None.
    -> (verdict, node, argument words)"""
    cur, k = m.walk(lead)  # longest prefix naming a path of commands (name or alias)
    if cur == -1 and lead:
        return ("undefined", None, None)  # first token names no command
    cands = m.defaults[cur] or ([cur] if cur != -1 else [])  # default sub-commands, else the command itself
    if not cands:
        return ("nodefault", None, None)  # silent: no token and no default command
    args = list(lead[k:]) + list(extra)
    fit = [c for c in cands if len(args) <= m.cap[c]]  # "first parsable" = first that can take the words
    if not fit:
        return ("unparsable", cands[0], None)  # silent: which parse error is C01/C02's business
    sel = fit[0]
    if opt is not None and opt not in m.opts[sel]:
        return ("option-corner", sel, None)  # silent: option the selected command does not declare
    return ("selected", sel, args)


# ---------------------------------------------------------------------------------------------
# the real application for a tree
# ---------------------------------------------------------------------------------------------
class Rec(object):
    """Recording handler (not callable: Config.handler would call a callable as a factory)."""

    def __init__(self, i, log):
        self.i, self.log = i, log

    def handle(self, args, io, command):
        self.log.append(self.i)
        return 0


def build(tree):
    from clikit import ConsoleApplication
    from clikit.api.args.format import Argument
    from clikit.api.config import ApplicationConfig, CommandConfig
    from clikit.api.io import IO, Input, Output
    from clikit.resolver import DefaultResolver

    log = []
    cfg = ApplicationConfig("app")
    cfg.set_catch_exceptions(False)
    cfg.set_terminate_after_run(False)
    cfg.set_command_resolver(DefaultResolver())
    cfg.set_io_factory(lambda app, args, i, o, e: IO(Input(i), Output(o), Output(e)))
    cfgs = []
    no_aliases = []  # ONE list object handed to every command as its initial aliases (a loop over a common base list)
    for i, (p, kind, prof) in enumerate(tree):
        c = CommandConfig(NAMES[i])
        c.set_aliases(no_aliases)
        if kind == ALIASED:
            c.add_alias(ALIASES[i])
        if kind in (DEFAULT, DEFHID):
            if i % 2:
                c.anonymous()  # first declared anonymous, then re-declared a (named) default command: the last word counts
            c.default()
        if kind == ANON:
            c.anonymous()
        if kind in (HIDDEN, DEFHID):
            c.hide()
        if kind == DISABLED:
            c.disable()
        if prof:
            c.add_argument(ARGS[i], Argument.OPTIONAL)
            c.add_option(OPTS[i], SHORTS[i])
        c.set_handler(Rec(i, log))
        cfgs.append(c)
        if p < 0:
            cfg.add_command_config(c)
        else:
            cfgs[p].add_sub_command_config(c)
    return ConsoleApplication(cfg), cfg, log


def observe(app, tokens):
    from clikit.args import ArgvArgs

    try:
        rc = app.resolve_command(ArgvArgs(["prog"] + list(tokens)))
    except Exception as e:  # noqa
        return ("exc", type(e).__name__, e)
    return ("sel", rc.command.full_name, rc)


def run_line(app, cfg, log, tokens, catch):
    from clikit.args import ArgvArgs
    from clikit.io.input_stream import StringInputStream
    from clikit.io.output_stream import BufferedOutputStream

    del log[:]
    out, err = BufferedOutputStream(), BufferedOutputStream()
    cfg.set_catch_exceptions(catch)
    try:
        try:
            status = app.run(ArgvArgs(["prog"] + list(tokens)), StringInputStream(""), out, err)
        except Exception as e:  # noqa
            return ("raised", type(e).__name__, list(log), str(e))
    finally:
        cfg.set_catch_exceptions(False)
    return ("status", status, list(log), out.fetch() + err.fetch())


# ---------------------------------------------------------------------------------------------
# line space
# ---------------------------------------------------------------------------------------------
def spelled_paths(m):
    """-> [(node or -1, [spellings]), ...]; every path of enabled named commands, '' first."""
    out = [(-1, [()])]

    def rec(p, prefixes):
        for c in m.kids[p]:
            if not m.present[c] or m.kind[c] == ANON:
                continue
            sp = [pre + (w,) for pre in prefixes for w in m.words_of[c]]
            out.append((c, sp))
            rec(c, sp)

    rec(-1, [()])
    return out


def policy(tier, n, special):
    """How rich the line set of an n-node tree with `special` non-(plain,N) nodes is: bigger trees get leaner
    products (see lines_for).  The thorough line set of a tree always contains its quick line set."""
    thorough = tier == "thorough"
    if n <= 2:
        return dict(level=3, full_words=4 if thorough else 3, silent=True, shorts=thorough)
    if n == 3:
        return dict(level=2, full_words=0, silent=False, shorts=thorough)
    return dict(level=1 if special <= 2 else 0, full_words=0, silent=False, shorts=False)


def lines_for(m, tier):
    """Ordered, duplicate-free list of lines (lead, optpart, tail), simplest first.

    level 3 (<= 2 nodes)  every product below in full, plus all of W^<=k, silent-corner lines kept
    level 2 (3 nodes)     every spelling gets the variants; all options, all names as tail words
    level 1 (>= 4 nodes, <= 2 special nodes)
                          variants on the all-names / all-aliases spellings only; options of the candidates'
                          chains + the unknown one; tail words = children of the reached command, n0, U
    level 0 (4 nodes, >= 3 special nodes; thorough only)
                          as level 1 without option x tail products and without variants on <path> <word> leads
                          other than <path> U
    A lead whose first token names no command gets (below level 3) only: nothing, one declared option, the
    unknown option, one tail.  Lines the statement is silent about (module docstring) are dropped below level 3.
    """
    pol = policy(tier, m.n, sum(1 for i in range(m.n) if (m.kind[i], m.prof[i]) != (PLAIN, 0)))
    level = pol["level"]
    n, W, U = m.n, m.words, m.unknown
    names = [NAMES[i] for i in range(n)]
    live_opts = ["--" + OPTS[i] for i in range(n) if m.prof[i] and m.present[i]]
    shorts = ["-" + SHORTS[i] for i in range(n) if m.prof[i] and m.present[i]] if pol["shorts"] else []
    seen, out = set(), []

    def emit(lead, optpart=(), tail=()):
        key = (lead, optpart, tail)
        if key not in seen:
            seen.add(key)
            if pol["silent"] or expectation(m, key)[0] in ("selected", "undefined"):
                out.append(key)

    def opts_for(cur):
        if level >= 2:
            return live_opts + [UNKNOWN_OPT] + shorts
        cands = m.defaults[cur] or ([cur] if cur != -1 else [])
        rel = sorted(set("--" + o for c in cands for o in m.opts[c]))
        return rel + [UNKNOWN_OPT]

    def tailwords_for(cur):
        # behind '--' also a sub-command name written like an option: it is an argument value all the same
        dashed = ["--" + NAMES[c] for c in m.kids[cur]][:2]
        if level >= 2:
            return names + [U] + dashed
        kid = [NAMES[c] for c in m.kids[cur]]
        return kid + [x for x in names[:1] if x not in kid] + [U] + dashed

    def variants(lead, cur, rich):
        emit(lead)
        opts, tw = opts_for(cur), tailwords_for(cur)
        if cur == -1 and lead and level < 3:
            # the first token names no command: one declared option, the unknown option, one tail
            for o in (live_opts[:1] + [UNKNOWN_OPT]):
                emit(lead, (o,))
            emit(lead, (), ("--", names[0]))
            return
        for o in opts:
            emit(lead, (o,))
        emit(lead, (), ("--",))
        for w in tw:
            emit(lead, (), ("--", w))
        if not rich:
            return
        # an option and then a word (a command name after an option is an argument)
        post = W if level >= 2 else [w_ for c in m.kids[cur] for w_ in m.words_of[c]] + [U]
        for o in (opts if level >= 3 else opts[:1] + [UNKNOWN_OPT]):
            for w in post:
                emit(lead, (o, w))
        if level >= 1:
            for o in (opts if level >= 2 else opts[:1]):
                for w in tw:
                    emit(lead, (o,), ("--", w))

    paths = spelled_paths(m)

    def main(sps):
        return sps if level >= 2 else [sps[0], sps[-1]]

    # 1. the paths themselves in every spelling; variants on the main spellings
    for cur, sps in paths:
        for sp in sps:
            emit(sp)
        for sp in main(sps):
            variants(sp, cur, True)
    # 2. path + one more word: every spelling x every word; variants on the main spellings
    for cur, sps in paths:
        for sp in sps:
            if len(sp) + 1 <= 4:
                for w in W:
                    emit(sp + (w,))
        for sp in main(sps):
            if len(sp) + 1 <= 4:
                for w in W:
                    if w in m.match[cur]:
                        continue  # that is a longer path, handled there
                    if w == U or level >= 1:
                        variants(sp + (w,), cur, w == U and level >= 2)
    # 3. path + U + any word, path + U U U
    for cur, sps in paths:
        for sp in main(sps):
            if len(sp) + 2 <= 4:
                for w in W:
                    lead = sp + (U, w)
                    if level >= 2:
                        variants(lead, cur, False)
                    else:
                        emit(lead)
                        for o in opts_for(cur)[:2]:
                            emit(lead, (o,))
                        emit(lead, (), ("--", U))
            if len(sp) + 3 <= 4:
                variants(sp + (U, U, U), cur, False)
    # 4. small trees: every word sequence up to the length bound
    for ln in range(1, pol["full_words"] + 1):
        for lead in itertools.product(W, repeat=ln):
            emit(lead)
            for o in live_opts + [UNKNOWN_OPT]:
                emit(lead, (o,))
            emit(lead, (), ("--", names[0]))
    out.sort(key=lambda l: len(l[0]) + len(l[1]) + len(l[2]))
    return out


# ---------------------------------------------------------------------------------------------
# judging one line
# ---------------------------------------------------------------------------------------------
def split(m, line):
    lead, optpart, tail = line
    tokens = list(lead) + list(optpart) + list(tail)
    extra = list(optpart[1:]) + list(tail[1:])
    opt = m.opt_name(optpart[0]) if optpart else None
    return tokens, extra, opt


def expectation(m, line):
    e = m.cache.get(line)
    if e is None:
        e = m.cache[line] = _expectation(m, line)
    return e


def _expectation(m, line):
    lead, optpart, tail = line
    tokens, extra, opt = split(m, line)
    verdict, node, args = ref_resolve(m, lead, extra, opt)
    if verdict == "selected" and len(optpart) > 1:
        # silent corner: "<path> --opt <word>" where <word> names an implicit named default candidate
        cur, k = m.walk(lead)
        if k == len(lead) and any(optpart[1] in m.words_of[c] for c in m.defaults[cur] if m.kind[c] != ANON):
            verdict = "post-option-corner"
    return verdict, node, args


def expected_args(m, node, args, opt):
    slots = [ARGS[j] for j in m.chain[node] if m.prof[j]]
    a = dict((s, None) for s in slots)
    for s, v in zip(slots, args):
        a[s] = v
    o = dict((OPTS[j], OPTS[j] == opt) for j in m.chain[node] if m.prof[j])
    return a, o


def judge(m, line, obs):
    """-> None (holds / unasserted) or (sigbase, what, expected, observed)"""
    verdict, node, args = expectation(m, line)
    kind, name, payload = obs
    if verdict not in ("undefined", "selected"):
        return None  # silent corner: nothing is demanded, not even the kind of error
    if kind == "exc" and name not in PARSE_ERRORS and name != "CannotResolveCommandException":
        # an exception that is none of clikit's own ends the resolution where a command was due
        return ("crash:" + report.exc_site(payload), "resolve_command raised %r where %s was due" % (
            payload, "the undefined-command report" if verdict == "undefined" else repr(m.full[node])), verdict, name)
    if verdict == "undefined":
        first = line[0][0]
        if kind == "sel":
            return ("undefined-first-token:command-selected", "first token %r names no command but %r was selected" % (first, name),
                    "CannotResolveCommandException", name)
        if name != "CannotResolveCommandException":
            return ("undefined-first-token:" + name, "first token %r names no command; raised %s" % (first, name),
                    "CannotResolveCommandException", name)
        if ('"%s"' % first) not in str(payload):
            return ("undefined-first-token:not-named-in-report", "the report does not name the token %r: %s" % (first, payload),
                    first, str(payload))
        return None
    want = m.full[node]
    if kind == "exc":
        if name == "CannotResolveCommandException":
            sig = "selection:reported-undefined"
        elif name == "NoSuchOptionException" and line[1]:
            sig = "selection:declared-option-rejected"
        else:
            sig = "selection:" + name
        return (sig, "expected %r, raised %s: %s" % (want, name, payload), want, name)
    if name != want:
        return ("selection:" + relation(m, line, node, name), "expected %r, selected %r" % (want, name), want, name)
    ea, eo = expected_args(m, node, args, m.opt_name(line[1][0]) if line[1] else None)
    rc = payload
    try:
        oa, oo = dict(rc.args.arguments()), dict(rc.args.options())
    except Exception as e:  # noqa
        return ("crash:" + report.exc_site(e), "reading the parsed args raised %r" % (e,), [ea, eo], repr(e))
    if oa != ea:
        return ("args:arguments", "selected %r but arguments differ" % want, ea, oa)
    if oo != eo:
        return ("args:options", "selected %r but options differ" % want, eo, oo)
    return None


def relation(m, line, node, observed_name):
    """Name the kind of wrong selection (stable predicate on the pair expected/observed)."""
    by_name = dict((m.full[i], i) for i in range(m.n))
    o = by_name.get(observed_name)
    if o is None:
        return "unknown-command"
    if o in m.chain[node][:-1]:
        cur, k = m.walk(line[0])
        if o == cur and len(m.chain[node]) == len(m.chain[o]) + 1 and m.parent[node] == o:
            return "default-sub-command-not-entered"
        return "walk-stopped-early"
    if node in m.chain[o][:-1]:
        return "walk-too-deep"
    if m.parent[o] == m.parent[node]:
        both_default = all(x in m.defaults[m.parent[node]] for x in (o, node))
        if both_default:
            return "default-choice:%s-chosen" % ("earlier" if o < node else "later")
        return "sibling-chosen"
    return "other-command"


def corner(m, line, sigbase):
    """Predicate on the case that separates two mechanisms which can produce the same kind of wrong outcome."""
    lead, optpart, tail = line
    cur, k = m.walk(lead)
    cands = m.defaults[cur]
    if sigbase.startswith("selection:declared-option-rejected") and optpart:
        verdict, node, _ = expectation(m, line)
        opt = m.opt_name(optpart[0])
        if node in cands and any(opt not in m.opts[c] for c in cands[:cands.index(node)]):
            return ":earlier-default-lacks-option"
    if sigbase.startswith(("selection:default-choice", "args:arguments")) and len(tail) > 1 and len(optpart) < 2:
        if k == len(lead) and any(tail[1] in m.words_of[c] for c in cands if m.kind[c] != ANON):
            return ":tail-word-names-default"
    return ""


def reductions(m, line):
    """(feature, simpler line) pairs: the line with one feature (alias spelling of the path, post-option word,
    option, tail) removed; the metamorphic relations compare the outcomes of the two."""
    lead, optpart, tail = line
    out = []
    cur, k = m.walk(lead)
    canon = tuple(m.canon.get(w, w) if i < k else w for i, w in enumerate(lead))
    if canon != lead:
        out.append(("alias", (canon, optpart, tail)))
    if len(optpart) > 1:
        out.append(("post", (lead, optpart[:1], tail)))
    if optpart:
        out.append(("opt", (lead, (), tail)))
    if tail:
        out.append(("tail", (lead, optpart, ())))
    return out


# ---------------------------------------------------------------------------------------------
# one tree
# ---------------------------------------------------------------------------------------------
def check_tree(tree, tier, unknown, cap=20, run_checks=True):
    """-> (counts dict, [violation, ...]) for one tree (at most `cap` violations, simplest line first)."""
    m = Model(tree, unknown)
    app, cfg, log = build(tree)
    lines = lines_for(m, tier)
    cnt = dict(lines=0, asserted=0, nontrivial=0, unasserted=0, runs=0, meta_alias=0, meta_option=0, meta_tail=0,
               undefined=0, selected=0)
    viols = []
    outcome = {}

    def add(sigbase, what, line, check, expected, observed, other=None):
        flags = corner(m, line, sigbase) if check == "oracle" else ""
        if len(viols) < cap:
            case = {"tree": [list(t) for t in tree], "line": [list(x) for x in line], "check": check, "unknown": unknown,
                    "tier": tier}
            if other is not None:
                case["base"] = [list(x) for x in other]
            viols.append(report.viol(sigbase + flags, "%s | tree %s | line %r" % (what, describe(tree), " ".join(split(m, line)[0])),
                                     case, expected, observed))

    for line in lines:
        tokens, extra, opt = split(m, line)
        obs = observe(app, tokens)
        outcome[line] = obs
        cnt["lines"] += 1
        verdict = expectation(m, line)[0]
        bad = judge(m, line, obs)
        if verdict in ("undefined", "selected"):
            cnt["asserted"] += 1
            cnt[verdict] += 1
            if nontrivial(m, line, verdict):
                cnt["nontrivial"] += 1
        else:
            cnt["unasserted"] += 1
        if bad:
            add(bad[0], bad[1], line, "oracle", bad[2], bad[3])
        # nothing may run for an undefined command; the selected handler and only it runs otherwise
        if run_checks and not bad and (verdict in ("undefined", "selected") and ((not line[1] and not line[2]) or (m.n <= 2 and verdict == "undefined"))):
            cnt["runs"] += 2 if verdict == "undefined" else 1  # undefined: once catching exceptions, once not
            r = judge_run(m, app, cfg, log, line, verdict, expectation(m, line)[1])
            if r:
                add(r[0], r[1], line, "run", r[2], r[3])
    # metamorphic relations on the implementation's own outcomes
    for line in lines:
        obs = outcome[line]
        for feat, simpler in reductions(m, line):
            base = outcome.get(simpler)
            if base is None:
                continue
            applies, r = relation_holds(m, feat, line, obs, simpler, base)
            if applies:
                cnt["meta_" + {"opt": "option"}.get(feat, feat)] += 1
            if r:
                add(r[0], r[1], line, "meta:" + feat, r[2], r[3], other=simpler)
    return cnt, viols


def relation_holds(m, feat, line, obs, simpler, base):
    """One metamorphic relation between the outcome of `line` and of its simpler form.
    -> (relation applies, None or (sig, what, expected, observed))"""
    lead, optpart, tail = line
    same = (obs[0], obs[1]) == (base[0], base[1])
    sig = None
    if feat == "alias":
        sig, what = "meta:alias-changes-outcome", "replacing names on the path by aliases changed the outcome"
    elif feat == "opt" and len(optpart) == 1 and base[0] == "sel":
        try:
            declared = base[2].command.args_format.has_option(m.opt_name(optpart[0]))
        except Exception:  # noqa
            declared = False
        if declared:
            sig, what = "meta:declared-option-changes-selection", "appending an option the selected command declares changed the selection"
    elif feat == "tail" and base[0] == "sel":
        try:
            free = sum(1 for v in base[2].args.arguments().values() if v is None)
        except Exception:  # noqa
            free = 0
        if free >= len(tail) - 1:
            sig, what = "meta:tail-changes-selection", "appending a '--' tail the selected command has room for changed the selection"
    if sig is None:
        return False, None
    if same:
        return True, None
    what += ": %r -> %s, %r -> %s" % (" ".join(tokens_of(m, simpler)), base[1], " ".join(tokens_of(m, line)), obs[1])
    return True, (sig, what, [base[0], base[1]], [obs[0], obs[1]])


def tokens_of(m, line):
    return split(m, line)[0]


def judge_run(m, app, cfg, log, line, verdict, node):
    tokens = tokens_of(m, line)
    if verdict == "undefined":
        for catch in (True, False):
            r = run_line(app, cfg, log, tokens, catch)
            if r[2]:
                return ("run:handler-ran-for-undefined-command", "run() of a line whose first token names no command ran handler(s) %r" % (r[2],), [], r[2])
            if catch:
                if r[0] != "status":
                    return ("run:undefined-not-reported", "run() with exception catching raised %s" % r[1], "error status", r[1])
                if not isinstance(r[1], int) or not 1 <= r[1] <= 255:
                    return ("run:undefined-status", "run() returned %r for an undefined command" % (r[1],), "1..255", r[1])
                if ('"%s"' % line[0][0]) not in r[3]:
                    return ("run:undefined-not-reported", "the error output does not name the token", line[0][0], r[3])
            elif r[0] != "raised" or r[1] != "CannotResolveCommandException":
                return ("run:undefined-not-reported", "run() without exception catching: %r" % (r[:2],), "CannotResolveCommandException", r[:2])
        return None
    r = run_line(app, cfg, log, tokens, False)
    if r[2] != [node]:
        return ("run:wrong-handler", "run() ran handlers %r, expected [%d]" % (r[2], node), [node], r[2])
    return None


def nontrivial(m, line, verdict):
    lead, optpart, tail = line
    cur, k = m.walk(lead)
    if verdict == "undefined":
        return len(lead) + len(optpart) + len(tail) >= 2
    return k >= 1 and (k >= 2 or bool(m.defaults[cur]) or any(w in m.canon for w in lead[:k]) or bool(optpart) or bool(tail))


def describe(tree):
    return "[" + ", ".join("%s<%s:%s/%s" % (NAMES[i], "app" if p < 0 else NAMES[p], KINDS[k], PROFILES[pr])
                           for i, (p, k, pr) in enumerate(tree)) + "]"


# ---------------------------------------------------------------------------------------------
# replay / main
# ---------------------------------------------------------------------------------------------
# ---------------------------------------------------------------------------------------------
# one sub-command CONFIGURATION OBJECT attached to several parent commands (a shared `list` / `show` sub-command)
# ---------------------------------------------------------------------------------------------
def shared_worlds():
    """(parent profiles, kind of the shared sub-command, its profile): 2 or 3 parents, every profile vector, the parents with
    index 1 aliased"""
    for npar in (2, 3):
        for pprof in itertools.product((0, 1), repeat=npar):
            for kind in (PLAIN, ALIASED, DEFAULT):
                for sprof in (0, 1):
                    yield (tuple(pprof), kind, sprof)


def build_shared(world):
    from clikit import ConsoleApplication
    from clikit.api.args.format import Argument
    from clikit.api.config import ApplicationConfig, CommandConfig
    from clikit.api.io import IO, Input, Output
    from clikit.resolver import DefaultResolver

    pprof, kind, sprof = world
    cfg = ApplicationConfig("app")
    cfg.set_catch_exceptions(False)
    cfg.set_terminate_after_run(False)
    cfg.set_command_resolver(DefaultResolver())
    cfg.set_io_factory(lambda app, args, i, o, e: IO(Input(i), Output(o), Output(e)))
    sub = CommandConfig("sh")
    if kind == ALIASED:
        sub.add_alias("sa")
    if kind == DEFAULT:
        sub.default()
    if sprof:
        sub.add_argument("xs", Argument.OPTIONAL)
        sub.add_option("os", "w")
    sub.set_handler(Rec("sh", []))
    for i, prof in enumerate(pprof):
        c = CommandConfig(NAMES[i])
        if i == 1:
            c.add_alias(ALIASES[i])
        if prof:
            c.add_argument(ARGS[i], Argument.OPTIONAL)
            c.add_option(OPTS[i], SHORTS[i])
        c.set_handler(Rec(i, []))
        c.add_sub_command_config(sub)
        cfg.add_command_config(c)
    return ConsoleApplication(cfg)


def shared_lines(world):
    """-> [(tokens, expected full name, expected arguments(False))]: every parent by name (and alias) x {parent alone, sub-command
    by name / alias} x as many words as the two argument slots take x {no option, the sub-command's option, a parent's option}"""
    pprof, kind, sprof = world
    out = []
    for i, prof in enumerate(pprof):
        for pw in [NAMES[i]] + ([ALIASES[i]] if i == 1 else []):
            subs = [None, "sh"] + (["sa"] if kind == ALIASED else [])
            for sw in subs:
                into = sw is not None or kind == DEFAULT
                slots = ([ARGS[i]] if prof else []) + (["xs"] if (into and sprof) else [])
                for nwords in range(len(slots) + 1):
                    words = ["v%d" % k for k in range(nwords)]
                    opts = [[]] + ([["--os"]] if (into and sprof) else []) + ([["--" + OPTS[i]]] if prof else [])
                    for o in opts:
                        toks = [pw] + ([sw] if sw else []) + words + o
                        name = NAMES[i] + (" sh" if into else "")
                        out.append((toks, name, dict(zip(slots, words))))
                        if words and not o:
                            out.append(([pw] + ([sw] if sw else []) + words[:-1] + ["--", words[-1]], name, dict(zip(slots, words))))
    return out


def check_shared(world):
    app = build_shared(world)
    vs = []
    n = 0
    for toks, name, args in shared_lines(world):
        n += 1
        obs = observe(app, toks)
        case = {"check": "shared", "world": [list(world[0]), world[1], world[2]], "tokens": toks}
        what = "one sub-command configuration object under %d parents (profiles %r, sub-command %s/%s) | line %r" % (
            len(world[0]), list(world[0]), KINDS[world[1]], "A" if world[2] else "N", " ".join(toks))
        if obs[0] == "exc":
            vs.append(report.viol("shared-config:selection:" + obs[1], "expected %r, raised %s: %s | %s" % (name, obs[1], obs[2], what),
                                  case, name, "%s: %s" % (obs[1], obs[2])))
        elif obs[1] != name:
            vs.append(report.viol("shared-config:selection", "expected %r, selected %r | %s" % (name, obs[1], what), case, name, obs[1]))
        else:
            got = dict(obs[2].args.arguments(False))
            if got != args:
                vs.append(report.viol("shared-config:args", "selected %r but arguments differ | %s" % (name, what), case, args, got))
        if len(vs) >= 5:
            break
    return n, vs


def replay_shared(case):
    world = (tuple(case["world"][0]), case["world"][1], case["world"][2])
    app = build_shared(world)
    for toks, name, args in shared_lines(world):
        if toks == case["tokens"]:
            obs = observe(app, toks)
            if obs[0] == "exc":
                return report.viol("shared-config:selection:" + obs[1], "expected %r, raised %s: %s" % (name, obs[1], obs[2]), case, name, repr(obs[2]))
            if obs[1] != name:
                return report.viol("shared-config:selection", "expected %r, selected %r" % (name, obs[1]), case, name, obs[1])
            got = dict(obs[2].args.arguments(False))
            if got != args:
                return report.viol("shared-config:args", "selected %r but arguments differ" % name, case, args, got)
    return None


# ---------------------------------------------------------------------------------------------
# two command lines resolved at the same time on ONE application (E3, mc/sched.py)
# ---------------------------------------------------------------------------------------------
CONC_TREE = ((-1, PLAIN, 0), (0, DEFAULT, 1), (0, DEFAULT, 1))   # n0 with two default sub-commands n1, n2 (one argument each)
CONC_PAIRS = [(("n0", "v"), ("n0", "v", "w", "x")), (("n0", "n2", "v"), ("n0", "v")), (("n0",), ("n0", "n1", "--o1"))]


def _outcome_of(obs):
    if obs[0] == "exc":
        return ["exc", obs[1]]
    return ["sel", obs[1], dict(obs[2].args.arguments(False)), dict(obs[2].args.options(False))]


def concurrent_resolutions(only=None):
    """every interleaving (source lines of default_args_parser.py, <= 1 preemption) of two resolve_command() calls on one
    application: each gives what it gives alone.  -> (schedules, violations)"""
    from mc import sched
    execs, allv = 0, []
    for pi_, pair in enumerate(CONC_PAIRS):
        if only is not None and pi_ != only[0]:
            continue
        alone = build(CONC_TREE)[0]
        want = [_outcome_of(observe(alone, t)) for t in pair]

        def run(ch):
            app = build(CONC_TREE)[0]
            s_, got, exc, alive = sched.run_pair(ch, [lambda t=t: _outcome_of(observe(app, t)) for t in pair], "args/default_args_parser.py", horizon=20000)
            case = {"check": "concurrent", "pair": pi_, "choices": [p.chosen for p in s_.points]}
            vs = []
            crashed = [t.exc for t in s_.threads[1:3] if t.exc is not None]
            if s_.deadlock or s_.livelock or exc is not None or alive or crashed:
                vs.append(report.viol("concurrent:stuck-or-crash", "two concurrent resolutions did not both finish: %r" % (
                    [s_.deadlock, s_.livelock, repr(exc), alive, [repr(c) for c in crashed]],), case))
            elif got != want:
                vs.append(report.viol("concurrent:resolution-differs", "a command line resolved while another thread resolves another line on the same "
                                      "application gives another outcome than alone | lines %r" % (pair,), case, want, got))
            return s_.points, vs

        if only is not None:
            return 1, run(only[1])[1]
        st, vs = sched.explore(run, 1)
        execs += st["execs"]
        allv.extend(vs[:1])
    return execs, allv


def replay(case):
    """Re-execute exactly the recorded line (and, for a metamorphic relation, its recorded simpler form)."""
    if case.get("check") == "concurrent":
        vs = concurrent_resolutions((case["pair"], case.get("choices") or []))[1]
        return vs[0] if vs else None
    if case.get("check") == "shared":
        return replay_shared(case)
    tree = tuple(tuple(t) for t in case["tree"])
    line = tuple(tuple(x) for x in case["line"])
    m = Model(tree, case.get("unknown", UNKNOWN_WORDS[0]))
    app, cfg, log = build(tree)
    check = case["check"]
    what = "tree %s | line %r" % (describe(tree), " ".join(tokens_of(m, line)))
    obs = observe(app, tokens_of(m, line))
    if check == "oracle":
        bad = judge(m, line, obs)
        if bad:
            return report.viol(bad[0] + corner(m, line, bad[0]), bad[1] + " | " + what, case, bad[2], bad[3])
    elif check == "run":
        verdict, node, _ = expectation(m, line)
        if verdict in ("undefined", "selected"):
            r = judge_run(m, app, cfg, log, line, verdict, node)
            if r:
                return report.viol(r[0], r[1] + " | " + what, case, r[2], r[3])
    elif check.startswith("meta:"):
        simpler = tuple(tuple(x) for x in case["base"])
        base = observe(app, tokens_of(m, simpler))
        applies, r = relation_holds(m, check[5:], line, obs, simpler, base)
        if r:
            return report.viol(r[0], r[1] + " | " + what, case, r[2], r[3])
    return None


def main():
    rep = report.Report(PID, "exploration")
    tier = rep.tier
    unknown = UNKNOWN_WORDS[rep.seed % len(UNKNOWN_WORDS)]
    nshare = common.ncpu() * 8

    def work(k):
        tot, vs, per_n, samples = {}, [], {}, []
        for idx, tree in enumerate(all_trees(tier)):
            if idx % nshare != k:
                continue
            cnt, viols = check_tree(tree, tier, unknown)
            for key, v in cnt.items():
                tot[key] = tot.get(key, 0) + v
            pn = per_n.setdefault(len(tree), dict(trees=0, lines=0))
            pn["trees"] += 1
            pn["lines"] += cnt["lines"]
            have = set(v["sig"] for r, v in vs)
            for j, v in enumerate(viols):
                if v["sig"] not in have:  # first per sig per worker, ranked by global tree index
                    have.add(v["sig"])
                    vs.append(((idx, j), v))
        return tot, vs, per_n

    results = par.pmap(work, range(nshare))
    tot, per_n, ranked = {}, {}, []
    for t, vs, pn in results:
        for key, v in t.items():
            tot[key] = tot.get(key, 0) + v
        for n, d in pn.items():
            e = per_n.setdefault(n, dict(trees=0, lines=0))
            e["trees"] += d["trees"]
            e["lines"] += d["lines"]
        ranked.extend(vs)
    ranked.sort(key=lambda rv: rv[0])
    for r, v in ranked:
        rep.violation(v)
    sh_lines = 0
    worlds = list(shared_worlds())
    for w in worlds:
        n, vs = check_shared(w)
        sh_lines += n
        for v in vs:
            rep.violation(v)
    rep.part("shared_sub_command_config", worlds=len(worlds), lines=sh_lines,
             what="one CommandConfig object attached as sub-command to 2-3 parents (every profile vector; plain / aliased / default; "
                  "with and without an argument + option of its own): every parent by name and alias x sub-command named or entered "
                  "as default x words for the argument slots x options x '--' tail; selection and arguments known by construction")
    nsched, cv = concurrent_resolutions()
    for v in cv:
        rep.violation(v)
    rep.part("concurrent_resolutions", schedules=nsched, pairs=len(CONC_PAIRS), preemption_bound=1,
             granularity="source lines of args/default_args_parser.py",
             what="two resolve_command() calls on one application (a command with two default sub-commands) at the same time")
    rep.set("evaluations", tot.get("lines", 0) + tot.get("runs", 0) + sh_lines + nsched)
    rep.set("resolves", tot.get("lines", 0))
    rep.set("runs", tot.get("runs", 0))
    rep.set("trees", sum(d["trees"] for d in per_n.values()))
    rep.set("asserted", tot.get("asserted", 0))
    rep.set("unasserted", tot.get("unasserted", 0))
    rep.set("asserted_undefined", tot.get("undefined", 0))
    rep.set("asserted_selected", tot.get("selected", 0))
    rep.set("distinct_nontrivial", tot.get("nontrivial", 0))
    rep.set("metamorphic_alias_pairs", tot.get("meta_alias", 0))
    rep.set("metamorphic_option_pairs", tot.get("meta_option", 0))
    rep.set("metamorphic_tail_pairs", tot.get("meta_tail", 0))
    import os
    rep.set("exhaustive", not os.environ.get("C03_MAX_NODES"))
    rep.set("unknown_word", unknown)
    rep.set("tree_space", ["%d nodes: <=%d non-(plain,N) labels" % ns for ns in tree_space(tier)])
    for n in sorted(per_n):
        rep.part("trees_%d_nodes" % n, **per_n[n])
    rep.set("rule", "every (tree, line) pair of the stated space is a distinct case (names are positional, lines are de-duplicated per tree); "
                    "non-trivial = asserted line that either names no command with its first token and has >= 2 tokens, or walks >= 1 command "
                    "and (walks >= 2 levels, or enters a default sub-command, or spells the path with an alias, or carries an option or a '--' tail)")
    ex = list(itertools.islice(all_trees(tier), 3000, 3003))
    for t in ex:
        m = Model(t, unknown)
        ls = lines_for(m, tier)
        rep.sample({"tree": describe(t), "lines": len(ls), "some": [" ".join(tokens_of(m, l)) for l in ls[:: max(1, len(ls) // 5)][:5]]})
    rep.assume("disabled = not part of the tree; anonymous = cannot be named; hidden = no influence on resolution")
    rep.assume("'first parsable' default = first default (in configuration order) that can take the remaining positional words; "
               "lines no candidate can take, options the command selected without them does not declare, and 'no token, no default' are not asserted")
    rep.assume("continuing into the default sub-command is one step (as written), the default's own defaults are not entered")
    rep.assume("5-node (thorough) / 4-node (quick) trees are restricted to <= 2 nodes with a label other than (plain, N); smaller trees carry all 14^n labellings")
    return rep.finish()
