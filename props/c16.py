"""C16 - a progress bar always shows a truthful, well-formed frame and ends at 100%.

E2 (explicit-state BFS, mc/explore.py; states are rebuilt by replaying the history on fresh objects) over the
public operations of the real clikit ProgressBar under a virtual clock (mc/clock.py), every byte the bar
emits being seen write by write (with the virtual time of the write) through a recording OutputStream and
interpreted on a terminal emulator (mc/term.py).

Operation = (clock advance in ticks, name, argument); the clock advance happens first, then the call:
    start() | start(5) | advance(1) | advance(3) | set_progress(p), p in {0, max//2, max, max+2, -1}
    | display | clear | finish | set_message(short | long | <b>tagged</b>: a style-set tag, not one the Pastel library knows by itself)  (formats with %message%)
    x clock advance in {0, 10, 50, 200, 2000} ticks of 1/1024 s (0, 9.8 ms, 48.8 ms, 195 ms, 1.95 s)
The virtual clock counts in ticks of 2**-10 s from the epoch 2**20 s, not in milliseconds: every clock reading and
every difference of two readings is then an exact double, so what the bar computes from the clock is a function of
the tick difference alone.  With decimal milliseconds it is not: (T0+0.15)-(T0+0.05) and (T0+0.10)-T0 differ in the
last bits and fall on different sides of `< 0.1`, i.e. the absolute time would be part of the state (the first
version of this check used milliseconds; its no-dedup cross-check exposed exactly that at depth 4).  With ticks no sum
of advances equals a threshold (0.1 s = 102.4 ticks, 1 s = 1024 ticks, all advances are multiples of 10 ticks).
Configuration = (max, bar width, format, verbosity, min seconds between redraws, output kind).
Output kinds: "ansi" Output(AnsiFormatter(forced=True)), "plain" Output(PlainFormatter()), "section"
(a SectionOutput of a forced-ANSI output, COLUMNS=20, a sentinel row above), "quiet" / "quiet-plain" /
"quiet-section" (the same three after set_quiet(True)), "section-pair" (the bar in the upper of two sections of one
ANSI output; the lower section holds a neighbour bar - max 50, bar width 20, a 33-column frame that wraps on the 20-column
terminal - and 'the neighbour advances' is one more operation of the history; after every operation the screen must show
the sentinel row, the latest frame of the bar under test and the latest frame of the neighbour), "plain-section" (a section
of a plain output: judged as plain), "io:ansi-out/plain-err" / "io:plain-out/ansi-err" (the bar is constructed from an IO whose
outputs differ; it draws on the error output and is judged as plain / ANSI accordingly; nothing may reach the standard output).
Formats: "default" (what the bar picks for the output's verbosity: normal / verbose / very verbose / debug and
their _nomax variants), "msg" (one line with %message%), "two" (two lines, %message% on the second); the custom
formats come in a variant without %max%/%percent% for configurations whose maximum is 0 (= unknown).

What is enumerated (plan(); every part is complete for its alphabet and depth, the numbers go to the evidence):
    broad        the configuration product x all operations x all clock advances, depth 2
    broad-3      (thorough) a covering subset of it, depth 3
    layout, layout-deep, layout-zero
                 the message formats on ansi/plain/section with clock advances {0, 200 ticks} (throttled / drawn)
                 or none, all operations, depth 3..5 (thorough 4..7)
    timing, timing-b
                 start/advance/set_progress(max)/display/finish x all clock advances, depth 4 (thorough 6 for
                 max 3, 5 for max 10 and the unknown max)
    timing-elapsed (thorough) the same on formats with %elapsed%, exact clock differences, depth 4
    ramp         deterministic long histories: every set_progress(s), s in 0..max+2, as a one-operation history;
                 start, advance(k) ... past the maximum, finish for k in {1,3} x each clock advance; three-operation
                 histories around finish; max in {0,1,3,10,50,200} in both tiers
    xcheck       cross-checks of the deduplication (see below)
No part can close: the maximum grows with every advance beyond it and the bar counts its writes, so the state
graph is infinite.  broad, ramp and xcheck run first; the deeper parts run only if those are silent.

Oracle (only what the statement demands; see "not demanded" below):
* every operation's bytes have the shape of at most one frame for that output kind
    ansi     \\r [ESC[<n>A] frame            (SGR allowed inside the frame, nothing else)
    section  [ESC[<n>A ESC[0J] frame \\n
    plain    [\\n] frame                      no \\r, no ESC at all
    quiet    nothing
* the frame (SGR stripped, trailing padding blanks allowed) matches its format line by line; then
    bar segment: exactly bar_width visible characters
    current shown == bar.get_progress(), max shown == bar.get_max_steps(), 0 <= current <= max (max > 0)
    percent shown == floor(100*current/max)  (integer arithmetic; max > 0)
    with a known max the bar segment is completely filled iff current == max ("truthful"; the exact number
    of filled cells below the maximum is NOT demanded)
* get_progress()/get_max_steps() follow the reference model pinned by the repo tests: start resets to 0
  (and sets max), progress below 0 is clamped to 0, progress above a known max grows the max, finish
  moves to the max (an unknown max becomes the current step)
* a frame written by advance/set_progress that does not reach the maximum comes no sooner than the configured
  min interval after the previous write (tick difference / 1024 < min interval, exact arithmetic)
* reaching a known maximum (advance/set_progress) writes a frame; finish writes a frame on the overwriting
  outputs; after finish the last frame written shows current == max (and max, 100 % where the format shows them)
* ansi: after every write the emulator screen is exactly the latest frame (clear: blank)
  section: sentinel row + the latest frame wrapped at 20 columns, nothing else
  plain: no control codes, and a frame never starts on a line that already holds text
  quiet: nothing reaches the stream

Conventions settled by reading progress_bar.py, NOT demanded (statement silent):
* max == 0 means "no maximum known".  Then step == max only at step 0 and the code draws regardless of the
  throttle (set_progress(0) twice within the min interval draws twice).  The throttle is therefore only
  asserted for frames with get_progress() != get_max_steps(); "reaching the maximum draws" only for max > 0.
* start(0) on a bar whose format shows the max would print "1/0"; start(max') is explored with max' = 5 only.
* finish on a plain output that already stands at the maximum writes nothing (pinned by
  test_non_decorated_output: no double 100 % line).  Demanded instead: the last frame written shows the
  final state.  finish on a plain, never drawn bar with max 0 / step 0 writes nothing at all: not asserted.
* An unset %message% stays literally "%message%" in the frame: accepted.
* The first draw of a two-line format moves the cursor one row up (ESC[1A) although nothing was drawn yet
  (pinned by test_multiline_format); on the emulator the cursor starts at row 0 and the move is clamped.
  What it does to the line above the bar is not asserted for the plain ANSI output.
* Padding blanks are part of the frame as written: on a section output narrower than the padded line they
  may produce a blank row inside a two-line frame; accepted (not residue of an earlier frame).
* %elapsed% / %estimated% texts are parsed but their values are not checked.
* Not demanded: that throttled-out steps are redrawn later (max interval), step-period redraws,
  the exact fill of the bar below the maximum, where the cursor ends, get_progress_percent().

State fingerprint (dedup).  canon() of the bar's complete vars() - no attribute name is hard-coded; the stream
and the formatter are leaves - in which every number that is a clock reading (>= the virtual epoch) is
replaced by `now - field` in ticks, CAPPED at 1024 ticks (1 s), plus the emulator (rows, cursor), the reference model,
`now - previous write` (same cap) and the fields shown by the last frame.
Soundness of the cap: the bar reads the clock only as `time.time() - field`.  For the last-write field the
result is compared with the min interval (<= 0.1 s) and the max interval (1 s), my oracle compares it with the
min interval; all are threshold tests with thresholds <= 1 s, the clock never goes back and a write resets
the field to `now`, so two states that differ only in a difference >= 1 s take the same branch now and
after every further advance.  The start-time field is read only by %elapsed%/%estimated%/%remaining%; for
formats without these placeholders it is dead.  Formats WITH time placeholders print a function of the
absolute difference (thresholds up to days): those configurations are explored with exact, uncapped
differences (cap=None), which is a full state, at the smaller depth that affords.
The "uncapped" cross-check part re-runs capped parts with exact differences and must give the same verdict;
the "nodedup" part enumerates every history without merging at a smaller depth.
Merging can only prune: every reported violation comes from a real execution of its recorded history.
"""
import os
import re

from mc import clock, common, explore, par, report
from mc.fingerprint import canon
from mc.term import Term, Unsupported, strip_sgr, wrap_rows

PID = "C16"
T0 = 1048576.0  # 2**20 s: readings T0 + k * 2**-10 are exact doubles, and so are their differences
TICK = 1.0 / 1024
COLS = 20
SENTINEL = "=SENTRY"
BIGW = 400  # emulator width for the plain ANSI output: no frame of the alphabet wraps
NEWMAX = 5
CAP_TICKS = 1024  # 1 s = the largest threshold the redraw decision compares with
CLOCKS = (0, 10, 50, 200, 2000)
MSG = {"short": "go", "long": "a much longer message text", "tagged": "<b>tagged</b>"}
VISIBLE = {"short": "go", "long": "a much longer message text", "tagged": "tagged"}

CUSTOM = {
    ("msg", True): " %message%: %current%/%max% [%bar%] %percent:3s%%",
    ("msg", False): " %message%: %current% [%bar%]",
    ("two", True): " %current%/%max% [%bar%] %percent:3s%%\n %message%",
    ("two", False): " %current% [%bar%]\n %message%",
}
VERBOSITY_FORMAT = {0: "normal", 1: "verbose", 2: "very_verbose", 3: "debug"}
_VERBOSITY_FLAG = None  # filled lazily from clikit.api.io.flags


def pre_import():
    os.environ["COLUMNS"] = str(COLS)
    os.environ["LINES"] = "24"
    clock.install()


# ---- frame grammar ----------------------------------------------------------------------------
_PH = re.compile(r"(?i)%([a-z\-_]+)(?::([^%]+))?%")
_TIME = r"(?:< 1 sec|1 sec|\d+ secs|1 min|\d+ mins|1 hr|\d+ hrs|1 day|\d+ days)"
_FIELD = {
    "current": r"(?P<cur> *-?\d+)",
    "max": r"(?P<max>-?\d+)",
    "bar": r"(?P<bar>[^\[\] ]*)",
    "percent": r"(?P<pct> *-?\d+)",
    "elapsed": r"(?P<elapsed> *%s *)" % _TIME,
    "estimated": r"(?P<est> *-?\d+ *)",
    "remaining": r"(?P<rem> *%s *)" % _TIME,
    "message": r"(?P<msg>%s|%%message%%)" % "|".join(re.escape(v) for v in VISIBLE.values()),
}
_RX_CACHE = {}


def format_regexes(fmt):
    """One anchored regex per line of the format; trailing blanks (padding) allowed."""
    if fmt not in _RX_CACHE:
        out = []
        for line in fmt.split("\n"):
            pos = 0
            rx = "^"
            for m in _PH.finditer(line):
                rx += re.escape(line[pos:m.start()])
                rx += _FIELD.get(m.group(1), re.escape(m.group(0)))
                pos = m.end()
            rx += re.escape(line[pos:]) + r" *$"
            out.append(re.compile(rx))
        _RX_CACHE[fmt] = out
    return _RX_CACHE[fmt]


def has_time_placeholder(fmt):
    return any(m.group(1) in ("elapsed", "estimated", "remaining") for m in _PH.finditer(fmt))


def parse_frame(lines, fmt):
    rxs = format_regexes(fmt)
    if len(lines) != len(rxs):
        return None
    fields = {}
    for line, rx in zip(lines, rxs):
        m = rx.match(line)
        if not m:
            return None
        fields.update(m.groupdict())
    return fields


# ---- configuration ----------------------------------------------------------------------------
def cfg_formats(cfg):
    """Formats a frame of this configuration may follow (the variant is fixed by the bar at its first draw,
    from the maximum known at that moment; either is accepted)."""
    from clikit.ui.components.progress_bar import ProgressBar

    if cfg["fmt"] == "default":
        name = VERBOSITY_FORMAT[cfg["verbosity"]]
        return [ProgressBar.formats[name], ProgressBar.formats[name + "_nomax"]]
    return [CUSTOM[(cfg["fmt"], cfg["max"] > 0)]]


def cfg_has_message(cfg):
    return cfg["fmt"] in ("msg", "two")


def cfg_cap(cfg):
    if cfg.get("cap", "auto") != "auto":
        return cfg["cap"]
    return None if any(has_time_placeholder(f) for f in cfg_formats(cfg)) else CAP_TICKS


def base_ops(cfg, opset="all"):
    m = cfg["max"]
    ps = []
    for p in ([0, 2, -1] if m == 0 else [0, m // 2, m, m + 2, -1]):
        if p not in ps:
            ps.append(p)
    if opset == "progress":
        ops = [("start", None), ("advance", 1), ("advance", 3), ("set_progress", m if m else 2), ("display", None),
               ("finish", None)]
    else:
        ops = [("start", None), ("start", NEWMAX), ("advance", 1), ("advance", 3)]
        ops += [("set_progress", p) for p in ps]
        ops += [("display", None), ("clear", None), ("finish", None)]
        if cfg_has_message(cfg):
            ops += [("set_message", k) for k in ("short", "long", "tagged")]
    if cfg["out"] == "section-pair":
        ops += [("neighbour", None)]
    return ops


def make_ops(cfg, clocks, opset="all"):
    return [(dt,) + o for dt in clocks for o in base_ops(cfg, opset)]


# ---- the system under test --------------------------------------------------------------------
def _stream_class():
    from clikit.api.io.output_stream import OutputStream

    class Rec(OutputStream):
        """Sees every write reaching the stream, with the virtual time of the write."""

        def __init__(self):
            self.writes = []

        def write(self, string):
            self.writes.append((string, clock.CLOCK.now))

        def flush(self):
            pass

        def supports_ansi(self):
            return False

        def supports_utf8(self):
            return True

        def close(self):
            pass

        def is_closed(self):
            return False

    return Rec


_REC = None


class St(object):
    pass


def build(cfg):
    global _REC
    from clikit.api.io.output import Output
    from clikit.formatter import AnsiFormatter, PlainFormatter
    from clikit.ui.components.progress_bar import ProgressBar

    if _REC is None:
        _REC = _stream_class()
    clock.CLOCK.now = T0
    clock.CLOCK.sleeps = []
    st = St()
    st.stream = _REC()
    kind = cfg["out"]
    base = {"quiet": "ansi", "quiet-plain": "plain", "quiet-section": "section"}.get(kind, kind)
    if base == "plain":
        out = Output(st.stream, PlainFormatter())
    elif base == "plain-section":
        # a section of an output without ANSI support: a plain output like any other
        out = Output(st.stream, PlainFormatter()).section()
    elif base in ("io:ansi-out/plain-err", "io:plain-out/ansi-err"):
        # the bar is given an IO whose two outputs differ: it draws on the ERROR output and must follow that one's abilities
        from clikit.api.io import IO, Input
        from clikit.io.input_stream import StringInputStream
        other = _REC()
        if base == "io:ansi-out/plain-err":
            out = IO(Input(StringInputStream("")), Output(other, AnsiFormatter(forced=True)), Output(st.stream, PlainFormatter()))
        else:
            out = IO(Input(StringInputStream("")), Output(other, PlainFormatter()), Output(st.stream, AnsiFormatter(forced=True)))
        st.other_stream = other
    else:
        out = Output(st.stream, AnsiFormatter(forced=True))
        if base == "section":
            st.parent = out
            out = out.section()
        elif base == "section-pair":
            # the bar under test in the upper of two sections; the lower one holds a neighbour bar whose frame (33 columns)
            # wraps on the 20-column terminal
            st.parent = out
            out = out.section()
            st.lower = st.parent.section()
    if base in ("section", "section-pair"):
        # an unrelated Output of the same process with a section of its own (created later, holding text): it is no
        # business of the bar's section
        st.decoy = Output(_REC(), AnsiFormatter(forced=True))
        st.decoy_section = st.decoy.section()
        st.decoy_section.write_line("decoy text of another output")
    if kind.startswith("quiet"):
        out.set_quiet(True)
    if cfg["verbosity"]:
        from clikit.api.io import flags
        out.set_verbosity({1: flags.VERBOSE, 2: flags.VERY_VERBOSE, 3: flags.DEBUG}[cfg["verbosity"]])
    st.out = out
    st.bar = ProgressBar(out, cfg["max"], cfg["min"])
    st.bar.set_bar_width(cfg["width"])
    if cfg["fmt"] != "default":
        st.bar.set_format(CUSTOM[(cfg["fmt"], cfg["max"] > 0)])
    st.term = None
    kind = JUDGE_AS.get(kind, kind)
    if kind == "ansi":
        st.term = Term(BIGW)
    elif kind in ("section", "section-pair"):
        st.term = Term(COLS)
        st.term.feed(SENTINEL + "\n")
    st.neigh = None
    st.neigh_rows = []
    st.cur_rows = []
    if kind == "section-pair":
        st.neigh = ProgressBar(st.lower, 50, 0)
        st.neigh.set_bar_width(20)
        st.neigh.start()
        _neighbour_wrote(st, 0)
    st.now_t = 0  # ticks since T0
    st.m_step = 0
    st.m_max = max(0, cfg["max"])
    st.msg = None  # key of the current message
    st.prev_write_t = None
    st.last_frame = None  # (current, max, percent) as shown by the last frame written; None fields when not shown
    st.prev_wrapped = False
    st.tail = ""  # plain: text on the last, unterminated line
    st.drew = False
    return st


_PAIR_ALL = re.compile(r"^(?:\x1b\[\d+A\x1b\[0J|[^\r\x1b]|\x1b\[[0-9;]*m)*\n$")


class _PairMatch(object):
    def __init__(self, frame):
        self.frame = frame

    def group(self, i):
        return self.frame


def _pair_match(text):
    """bytes of one operation of the upper bar of a section pair: any number of [cursor up, erase to end of screen, text]
    groups (clearing re-writes the section below, drawing does so again); the frame is the first line after the last erase.
    The layout is judged on the emulated screen, not on the bytes."""
    if not _PAIR_ALL.match(text):
        return None
    tail = text[text.rfind("\x1b[0J") + 4:] if "\x1b[0J" in text else text
    return _PairMatch(tail.partition("\n")[0])


# output kinds that must behave exactly like another kind (the oracle of that kind is applied)
JUDGE_AS = {"plain-section": "plain", "io:ansi-out/plain-err": "plain", "io:plain-out/ansi-err": "ansi"}


def _neighbour_wrote(st, n0):
    """the neighbour bar (lower section) drew: its bytes go to the emulator, its frame is remembered as the rows it occupies"""
    text = "".join(w for w, _ in st.stream.writes[n0:])
    m = _SECTION_OP.match(text)
    if not m:
        raise RuntimeError("engine error: the neighbour bar of the section pair wrote %r" % text)
    st.term.feed(text)
    st.neigh_rows = wrap_rows(strip_sgr(m.group(2)), COLS)


def _bar_vars(bar, now, capped):
    d = {}
    for k, v in vars(bar).items():
        if isinstance(v, (int, float)) and not isinstance(v, bool) and v >= T0 - 1:
            ticks = (now - v) / TICK
            if ticks != int(ticks):
                raise RuntimeError("engine error: clock field %r is not on the tick grid" % k)
            d[k] = ("clock-delta-ticks", capped(int(ticks)))
        else:
            d[k] = v
    return d


_ANSI_OP = re.compile(r"^\r(?:\x1b\[(\d+)A)?((?:[^\r\x1b]|\x1b\[[0-9;]*m)*)$")
_SECTION_OP = re.compile(r"^(?:\x1b\[(\d+)A\x1b\[0J)?((?:[^\r\x1b]|\x1b\[[0-9;]*m)*)\n$")


def _rows(lines):
    out = [l.rstrip(" ") for l in lines]
    while out and out[-1] == "":
        out.pop()
    return out


def _is_residue(exp, got):
    """got shows every expected row (as a prefix) plus something more."""
    if len(got) < len(exp):
        return False
    return all(got[i].startswith(exp[i]) for i in range(len(exp)))


class Spec(object):
    replay = True

    def __init__(self, cfg, clocks=CLOCKS, opset="all", prefix=()):
        self.cfg = cfg
        self.clocks = tuple(clocks)
        self.opset = opset
        self.prefix = tuple(tuple(o) for o in prefix)
        self.cap = cfg_cap(cfg)
        self._ops = make_ops(cfg, self.clocks, opset)
        self.formats = cfg_formats(cfg)
        self.nontrivial = set()
        self.frames_checked = 0
        self._formatter_cls = None

    # -- explorer interface ---------------------------------------------------
    def init(self):
        st = build(self.cfg)
        for op in self.prefix:
            self.apply(st, op)
        return st

    def ops(self, st, depth):
        return self._ops

    def _leaf(self, o):
        if isinstance(o, _REC):
            return ("stream",)
        if self._formatter_cls is None:
            from clikit.api.formatter import Formatter
            from clikit.api.io.output import Output
            self._formatter_cls = (Formatter, Output)
        f, out = self._formatter_cls
        if isinstance(o, f) and not isinstance(o, out):
            return ("formatter", type(o).__qualname__)
        return None

    def _capped(self, ticks):
        return ticks if self.cap is None else min(ticks, self.cap)

    def key(self, st):
        now = clock.CLOCK.now
        d = _bar_vars(st.bar, now, self._capped)
        if st.neigh is not None:
            d["<neighbour>"] = (_bar_vars(st.neigh, now, self._capped), tuple(st.neigh_rows), tuple(st.cur_rows))
        t = st.term
        tk = None if t is None else (tuple(t.screen()), t.r, t.c, t.pending_wrap)
        dprev = None if st.prev_write_t is None else self._capped(st.now_t - st.prev_write_t)
        k = (canon(d, self._leaf), tk, st.m_step, st.m_max, st.msg, dprev, st.last_frame, st.prev_wrapped, st.tail)
        if st.drew:
            self.nontrivial.add(hash(k))
        return k

    # -- one transition -------------------------------------------------------
    def apply(self, st, op):
        dt, name, arg = op
        cfg = self.cfg
        st.now_t += dt
        clock.CLOCK.now = T0 + st.now_t * TICK
        n0 = len(st.stream.writes)
        bar = st.bar
        st.drew = False
        try:
            if name == "start":
                if arg is None:
                    bar.start()
                else:
                    bar.start(arg)
            elif name == "advance":
                bar.advance(arg)
            elif name == "set_progress":
                bar.set_progress(arg)
            elif name == "display":
                bar.display()
            elif name == "clear":
                bar.clear()
            elif name == "finish":
                bar.finish()
            elif name == "set_message":
                bar.set_message(MSG[arg])
            elif name == "neighbour":
                st.neigh.advance()
            else:
                raise ValueError(name)
        except Exception as e:  # noqa
            return [report.viol("crash:" + report.exc_site(e), "%s raised %r" % (name, e), None, "no exception", repr(e))]
        # reference model of (step, max)
        if name == "start":
            st.m_step = 0
            if arg is not None:
                st.m_max = max(0, arg)
        elif name in ("advance", "set_progress"):
            p = st.m_step + arg if name == "advance" else arg
            if st.m_max and p > st.m_max:
                st.m_max = p
            elif p < 0:
                p = 0
            st.m_step = p
        elif name == "finish":
            if not st.m_max:
                st.m_max = st.m_step
            st.m_step = st.m_max
        elif name == "set_message":
            st.msg = arg
        if name == "neighbour":
            _neighbour_wrote(st, n0)
            exp = _rows([SENTINEL] + st.cur_rows + st.neigh_rows)
            got = st.term.screen()
            if got != exp:
                sig = "section:sentinel-erased" if (not got or got[0] != SENTINEL) else "section:pair:screen-mismatch"
                return [report.viol(sig, "after the bar in the section below redrew, the screen does not show the text above and the "
                                         "latest frame of each bar", None, exp, got)]
            return []
        ws = st.stream.writes[n0:]
        return self.judge(st, op, ws)

    def judge(self, st, op, ws):
        dt, name, arg = op
        cfg = self.cfg
        kind = JUDGE_AS.get(cfg["out"], cfg["out"])
        V = []
        if getattr(st, "other_stream", None) is not None and st.other_stream.writes:
            return [report.viol("io:wrote-to-standard-output", "the bar wrote to the standard output of its IO (it draws on the error output)",
                                None, "", "".join(w for w, _ in st.other_stream.writes))]
        step, mx = st.bar.get_progress(), st.bar.get_max_steps()
        if (step, mx) != (st.m_step, st.m_max):
            V.append(report.viol("model:step-max", "after %s the bar reports progress/max %r, the reference says %r"
                                 % (name, (step, mx), (st.m_step, st.m_max)), None, [st.m_step, st.m_max], [step, mx]))
            return V
        text = "".join(w for w, _ in ws)
        if any(t != clock.CLOCK.now for _, t in ws):
            raise RuntimeError("engine error: a write carries a time different from the virtual now")
        if kind.startswith("quiet"):
            if text:
                V.append(report.viol("quiet:bytes-written", "%s wrote to a quiet output" % name, None, "", text))
            return V
        at_max = step == mx
        frame = None
        if text:
            if kind == "plain":
                if "\r" in text or "\x1b" in text:
                    V.append(report.viol("plain:control-codes", "%s wrote control codes to a plain output" % name,
                                         None, "no \\r / ESC", text))
                    return V
                sep = text.startswith("\n")
                frame = text[1:] if sep else text
                if frame and not sep and st.tail != "":
                    V.append(report.viol("plain:frames-share-line" + (":at-step-0" if step == 0 else ""),
                                         "%s wrote a frame onto the line that still holds the previous frame" % name,
                                         None, "a line break between two frames", st.tail + text))
                st.tail = (st.tail + text).rsplit("\n", 1)[-1]
            else:
                m = (_ANSI_OP if kind == "ansi" else _SECTION_OP).match(text) if kind != "section-pair" else _pair_match(text)
                if not m:
                    V.append(report.viol(kind + ":unexpected-bytes", "%s wrote bytes that are not one frame" % name,
                                         None, "cursor return + one frame", text))
                    return V
                frame = m.group(2)
                try:
                    st.term.feed(text)
                except Unsupported as e:
                    V.append(report.viol(kind + ":unexpected-bytes", "emulator: %s" % e, None, None, text))
                    return V
        # ---- drawing obligations
        if frame is None:
            if name in ("advance", "set_progress") and at_max and mx > 0:
                V.append(report.viol("draw:none-at-maximum", "%s reached the maximum %d and nothing was drawn" % (name, mx),
                                     None, "a frame", ""))
            if name == "finish" and kind in ("ansi", "section", "section-pair"):
                V.append(report.viol("draw:none-at-finish", "finish drew nothing", None, "a frame", ""))
        else:
            st.drew = True
            self.frames_checked += 1
            if name in ("advance", "set_progress") and not at_max and st.prev_write_t is not None \
                    and (st.now_t - st.prev_write_t) * TICK < cfg["min"]:
                since = (st.now_t - st.prev_write_t) * TICK
                V.append(report.viol("throttle:redraw-too-soon",
                                     "%s below the maximum redrew %.4f s after the previous write (min interval %s s)"
                                     % (name, since, cfg["min"]), None, ">= %s s" % cfg["min"], since))
            vis = strip_sgr(frame)
            lines = vis.split("\n")
            if name == "clear":
                if vis.strip(" \n") != "":
                    V.append(report.viol("frame:clear-not-blank", "clear wrote visible text", None, "blanks", vis))
                shown = st.last_frame
            else:
                shown = self.check_frame(st, lines, step, mx, V)
            # ---- what the user sees
            if kind == "ansi":
                exp = _rows(lines)
                got = st.term.screen()
                if got != exp:
                    tag = ":styled-frame" if (st.msg == "tagged" and cfg_has_message(cfg)) else ""
                    sig = ("ansi:residue" + tag) if _is_residue(exp, got) else "ansi:screen-mismatch"
                    V.append(report.viol(sig, "after %s the terminal does not show exactly the latest frame" % name,
                                         None, exp, got))
            elif kind in ("section", "section-pair"):
                rows = []
                for l in lines:
                    rows.extend(wrap_rows(l, COLS))
                wrapped = any(len(l) > COLS for l in lines)
                st.cur_rows = list(rows)
                exp = _rows([SENTINEL] + rows + st.neigh_rows)
                got = st.term.screen()
                if got != exp:
                    if not got or got[0] != SENTINEL:
                        sig = "section:sentinel-erased"
                    elif kind == "section-pair":
                        sig = "section:pair:screen-mismatch"
                    elif got[1:] and _rows(rows) and got[-len(_rows(rows)):] == _rows(rows) or not _rows(rows):
                        sig = "section:residue" + (":wrapped-frame" if (wrapped or st.prev_wrapped) else "")
                    else:
                        sig = "section:screen-mismatch"
                    V.append(report.viol(sig, "after %s the section does not show exactly the latest frame" % name,
                                         None, exp, got))
                st.prev_wrapped = wrapped
            st.last_frame = shown
            st.prev_write_t = st.now_t
        if name == "finish" and not V and st.last_frame is not None:
            cur, smax, pct = st.last_frame
            bad = cur != mx or (smax is not None and smax != mx) or (pct is not None and mx > 0 and pct != 100)
            if bad:
                V.append(report.viol("finish:last-frame-not-final",
                                     "after finish the last frame written shows %r, the bar stands at %d/%d"
                                     % (st.last_frame, step, mx), None, [mx, mx, 100], list(st.last_frame)))
        return V[:3]

    def check_frame(self, st, lines, step, mx, V):
        cfg = self.cfg
        f = None
        for fmt in self.formats:
            f = parse_frame(lines, fmt)
            if f is not None:
                break
        if f is None:
            V.append(report.viol("frame:malformed", "the frame does not match its format", None, self.formats, lines))
            return None
        cur = smax = pct = None
        if f.get("bar") is not None and len(f["bar"]) != cfg["width"]:
            V.append(report.viol("frame:bar-width", "bar segment of %d characters, configured width %d"
                                 % (len(f["bar"]), cfg["width"]), None, cfg["width"], f["bar"]))
        if f.get("cur") is not None:
            cur = int(f["cur"])
            if cur != step:
                V.append(report.viol("frame:current-not-actual", "frame shows step %d, get_progress() is %d" % (cur, step),
                                     None, step, cur))
            elif cur < 0 or (mx > 0 and cur > mx):
                V.append(report.viol("frame:current-out-of-range", "frame shows step %d with max %d" % (cur, mx), None,
                                     "0..%d" % mx, cur))
        if f.get("max") is not None:
            smax = int(f["max"])
            if smax != mx:
                V.append(report.viol("frame:max-not-actual", "frame shows max %d, get_max_steps() is %d" % (smax, mx),
                                     None, mx, smax))
        if f.get("pct") is not None:
            pct = int(f["pct"])
            if mx > 0 and pct != (100 * step) // mx:
                V.append(report.viol("frame:percent", "frame shows %d%% at %d/%d" % (pct, step, mx), None,
                                     (100 * step) // mx, pct))
        if f.get("bar") is not None and mx > 0 and len(f["bar"]) == cfg["width"]:
            full = len(set(f["bar"])) == 1 and f["bar"][0] not in ">-"
            if full and step != mx:
                V.append(report.viol("frame:bar-full-before-complete", "bar completely filled at %d/%d" % (step, mx),
                                     None, "room left", f["bar"]))
            elif not full and step == mx:
                V.append(report.viol("frame:bar-not-full-at-complete", "bar not filled at %d/%d" % (step, mx), None,
                                     "full", f["bar"]))
        return (cur, smax, pct)


# ---- self probe -------------------------------------------------------------------------------
def probe():
    """The bar must read the virtual clock; otherwise abort (engine error), never report on a blind run."""
    import clikit.ui.components.progress_bar as pb

    t = getattr(pb, "time", None)
    clock.CLOCK.now = T0 + 123.25
    if t is None:
        raise RuntimeError("engine error: progress_bar has no global `time`; the virtual clock cannot be verified")
    seen = t.time() if hasattr(t, "time") else t()
    if seen != T0 + 123.25:
        raise RuntimeError("engine error: progress_bar reads %r, virtual clock says %r" % (seen, T0 + 123.25))
    for a, b in ((15, 5), (10, 0), (1030, 6), (2000 * 9, 7)):
        if (T0 + a * TICK) - (T0 + b * TICK) != (a - b) * TICK or ((T0 + a * TICK) - T0) / TICK != a:
            raise RuntimeError("engine error: tick arithmetic is not exact")
    st = build(dict(max=3, width=4, fmt="default", verbosity=0, min=0.1, out="ansi"))
    if st.bar.get_start_time() != T0:
        raise RuntimeError("engine error: ProgressBar start time %r != virtual now %r" % (st.bar.get_start_time(), T0))
    clock.CLOCK.now = T0 + 5
    st.bar.start()
    if st.bar.get_start_time() != T0 + 5 or not st.stream.writes or st.stream.writes[-1][1] != T0 + 5:
        raise RuntimeError("engine error: ProgressBar.start() did not read the virtual clock")
    clock.CLOCK.now = T0


# ---- running ----------------------------------------------------------------------------------
def cfg_id(cfg):
    return "max%d/w%d/%s%s/min%s/%s" % (cfg["max"], cfg["width"], cfg["fmt"],
                                        ("@v%d" % cfg["verbosity"]) if cfg["fmt"] == "default" else "", cfg["min"],
                                        cfg["out"])


def run_item(item):
    """One share of the exploration, executed in a forked worker."""
    kind = item["kind"]
    if kind == "ramp":
        return run_ramps(item)
    if kind == "nodedup":
        return run_nodedup(item)
    cfg, prefix, depth = item["cfg"], tuple(tuple(o) for o in item["prefix"]), item["depth"]
    spec = Spec(cfg, item["clocks"], item["opset"], prefix)
    r = explore.explore(spec, depth, split_depth=depth, dedup=True, workers=1, max_states=(120000 if common.tier() != "thorough" else 3000000))
    if r.capped and not r.violations:
        raise RuntimeError("engine error: a share of C16 exceeded the state cap without any violation (state space does not converge)")
    vs = []
    for v in r.violations[:20]:
        v["case"] = {"cfg": cfg, "history": [list(o) for o in prefix] + v["case"]["history"]}
        vs.append(v)
    nt = spec.nontrivial
    return dict(idx=item["idx"], part=item["part"], cfg=cfg_id(cfg), states=r.states, transitions=r.transitions,
                max_depth=r.max_depth + len(prefix), cut=r.cut, capped=len(r.violations) >= 40, violations=vs,
                samples=[[list(o) for o in prefix] + s for s in r.samples[-1:]],
                nontrivial=nt if len(nt) <= 200000 else None, nontrivial_n=len(nt), frames=spec.frames_checked,
                keys=r.keys if item.get("want_keys") else None)


def run_history(cfg, hist):
    """Execute one history on fresh objects.  -> (violations, operations executed, frames checked)"""
    spec = Spec(cfg)
    st = spec.init()
    for i, op in enumerate(hist):
        vs = spec.apply(st, tuple(op))
        if vs:
            for v in vs:
                v["case"] = {"cfg": cfg, "history": [list(o) for o in hist[:i + 1]]}
            return vs, i + 1, spec.frames_checked
    return [], len(hist), spec.frames_checked


def ramp_histories(m):
    """Sweep: the single operation set_progress(s) for every s in 0..max+2 (every (step, max) pair drawn directly).
    Finish probes: start, advance(k) after each clock advance, finish / advance(k), finish, display.
    Ramp: start, then advance by the stride until the maximum is passed (unknown maximum: 64 steps), then finish."""
    out = [[(0, "set_progress", s)] for s in range(0, (m if m else 12) + 3)]
    # three-operation histories around finish (also covered by the BFS parts; kept here so that they are executed even
    # when a BFS share is cut short by another defect, and reported with the shortest history)
    for dt in CLOCKS:
        for k in (1, 3):
            out.append([(0, "start", None), (dt, "advance", k), (0, "finish", None)])
            out.append([(dt, "advance", k), (0, "finish", None), (0, "display", None)])
    for stride in (1, 3):
        for dt in CLOCKS:
            # unknown maximum: the bar position cycles with the number of frames written (it wraps after about 15 frames
            # at width 28), so the ramp must be long enough to go round several times
            n = (m // stride + 2) if m else 64
            out.append([(0, "start", None)] + [(dt, "advance", stride)] * n + [(dt, "finish", None)])
    return out


def run_ramps(item):
    cfg = item["cfg"]
    vs = []
    ops = frames = n = 0
    for h in ramp_histories(cfg["max"]):
        v, k, f = run_history(cfg, h)
        vs.extend(v)
        ops += k
        frames += f
        n += 1
    return dict(idx=item["idx"], part=item["part"], cfg=cfg_id(cfg), states=ops, transitions=ops, max_depth=0, cut=0,
                capped=False, violations=vs[:20], samples=[], nontrivial=None, nontrivial_n=frames, frames=frames,
                keys=None, histories=n)


def run_nodedup(item):
    """Every history over the alphabet up to the depth that starts with item['first'], nothing merged.
    Returns the fingerprints met and the violation signatures (a violating transition is not extended, as in
    the explorer)."""
    cfg, depth = item["cfg"], item["depth"]
    spec = Spec(cfg, item["clocks"], item["opset"])
    ops = spec.ops(None, 0)
    keys = {hash(spec.key(build(cfg)))}
    sigs = set()
    n = 0
    level = [(tuple(item["first"]),)]
    for d in range(1, depth + 1):
        nxt = []
        for h in level:
            st = build(cfg)
            for op in h[:-1]:
                spec.apply(st, op)
            vs = spec.apply(st, h[-1])
            n += 1
            if vs:
                sigs.update(v["sig"] for v in vs)
                continue
            keys.add(hash(spec.key(st)))
            if d < depth:
                nxt.extend(h + (op,) for op in ops)
        level = nxt
    return dict(idx=item["idx"], part=item["part"], cfg=cfg_id(cfg), states=len(keys), transitions=n, max_depth=depth,
                cut=0, capped=False, violations=[], samples=[], nontrivial=None, nontrivial_n=0, frames=spec.frames_checked,
                keys=keys, sigs=sorted(sigs))


def replay(case):
    probe()
    spec = Spec(case["cfg"])
    return explore.replay(spec, case)


def C(max, width, fmt, out, min=0.1, verbosity=0, cap="auto"):
    return dict(max=max, width=width, fmt=fmt, verbosity=verbosity, min=min, out=out, cap=cap)


FMTS = [("default", 0), ("default", 1), ("default", 2), ("msg", 0), ("two", 0)]
OUTS3 = ["ansi", "plain", "section"]
EXTRA_WIDTHS = [2, 7, 13, 39]


def plan(tier, seed):
    """The parts of the exploration: dict(name, what, cfgs, clocks, opset, depth)."""
    T = tier == "thorough"
    P = []

    def part(name, what, cfgs, clocks=CLOCKS, opset="all", depth=2):
        P.append(dict(name=name, what=what, cfgs=cfgs, clocks=tuple(clocks), opset=opset, depth=depth))

    maxima = [0, 1, 3, 10] + ([50, 200] if T else [])
    widths = [1, 4, 28] + ([40] if T else [])
    fmts = FMTS + ([("default", 3)] if T else [])
    # ---- broad: the configuration product, every operation x every clock advance
    if T:
        mw = [(m, w) for m in maxima for w in widths]
    else:
        # quick: every maximum and every width, 6 of the 12 pairs
        mw = [(0, 4), (1, 1), (3, 4), (3, 28), (10, 1), (10, 28)]
    broad = [C(m, w, f, o, mn, v) for (m, w) in mw for (f, v) in fmts for mn in (0, 0.1) for o in OUTS3]
    broad += [C(m, 4, f, q, 0.1, v) for m in (0, 3) for (f, v) in fmts for q in ("quiet", "quiet-plain", "quiet-section")
              if q == "quiet" or (f, v) in (("default", 0), ("two", 0))]
    xw = EXTRA_WIDTHS[seed % len(EXTRA_WIDTHS)]  # VERIF_SEED rotates ONE extra bar width into the broad part
    broad += [C(m, xw, "default", o, 0.1, 0) for m in (3, 10) for o in OUTS3]
    part("broad", "configuration product (quick: 6 of 12 max x width pairs) x {ansi,plain,section} x min {0,0.1} x 5 formats "
                  "(+ quiet outputs for max {0,3}, + rotated width %d); all operations x all clock advances" % xw, broad, depth=2)
    # ---- broad-3: one level deeper on a covering subset
    b3 = [C(3, 4, f, o, 0.1, v) for (f, v) in [("default", 0), ("msg", 0), ("two", 0)] for o in OUTS3]
    if T:
        b3 += [C(m, w, "default", o, mn, 0) for (m, w) in [(0, 4), (1, 1), (10, 28), (50, 4), (200, 40)] for o in OUTS3
               for mn in (0, 0.1)]
        b3 += [C(3, 4, "default", o, 0.1, v) for v in (1, 2) for o in ("ansi", "plain")]
        b3 += [C(3, 4, "default", "quiet", 0.1, 0), C(0, 4, "msg", "ansi", 0.1), C(0, 4, "two", "section", 0.1)]
        part("broad-3", "covering subset of configurations; all operations x all clock advances", b3, depth=3)
    # ---- layout: all operations, clock advances {0, 200 ticks = 195 ms} around the 100 ms throttle (0 = suppressed, 200 = drawn)
    lay = [C(m, w, f, o, 0.1) for f in ("msg", "two") for o in OUTS3 for (m, w) in [(3, 4), (0, 4), (10, 28)]]
    part("layout", "message formats x {ansi,plain,section}; all operations x clock advances {0,200} ticks, min 0.1", lay,
         clocks=(0, 200), depth=4 if T else 3)
    lay2 = [C(3, 4, f, o, 0.1) for f in ("msg", "two") for o in OUTS3
            if T or (f, o) in (("msg", "ansi"), ("msg", "section"), ("two", "ansi"), ("two", "plain"))]
    part("layout-deep", "message formats x {ansi,plain,section} at max 3 width 4 (quick: without message/plain and two-line/"
                        "section); all operations x clock advances {0,200} ticks",
         lay2, clocks=(0, 200), depth=5 if T else 4)
    lay0 = [C(m, 4, f, o, 0) for f in ("msg", "two") for o in OUTS3 for m in (3, 0)]
    part("layout-zero", "message formats, throttle off, no clock advance: all operations", lay0, clocks=(0,),
         depth=7 if T else 5)
    # ---- two sections: the bar under test above a section whose (wrapped) frame is redrawn in between
    pair = [C(3, 4, "default", "section-pair", 0), C(0, 4, "default", "section-pair", 0)] + ([C(10, 28, "default", "section-pair", 0)] if T else [])
    part("section-pair", "bar in the upper of two sections, a neighbour bar with a wrapped frame in the lower one: all operations + "
                         "'the neighbour advances', throttle off, no clock advance", pair, clocks=(0,), depth=5 if T else 4)
    # ---- outputs that must behave like a plain / an ANSI output although they are reached differently
    odd = [C(3, 4, "default", o, 0) for o in ("plain-section", "io:ansi-out/plain-err", "io:plain-out/ansi-err")]
    part("odd-outputs", "a section of a plain output; an IO whose standard output is decorated and whose error output is not, and the "
                        "reverse (the bar draws on the error output): all operations, throttle off, no clock advance", odd, clocks=(0,),
         depth=4 if T else 3)
    # ---- a minimum interval LONGER than the bar's own "redraw at the latest after 1 s" rule: the minimum wins
    slow = [C(3, 4, "default", o, 2.0, cap=None) for o in ("ansi", "plain")]
    part("slow-throttle", "minimum interval 2 s (above the 1 s 'not later than' rule): progress operations x clock advances {0, 1.5 s, 2.05 s}",
         slow, clocks=(0, 1536, 2100), opset="progress", depth=4 if T else 3)
    # ---- timing: the progress operations x every clock advance
    what = "start/advance(1)/advance(3)/set_progress(max)/display/finish x all clock advances; "
    tim3 = [C(3, 4, "default", "ansi", 0.1), C(3, 4, "default", "plain", 0.1), C(3, 4, "default", "ansi", 0),
            C(3, 4, "default", "section", 0.1)]
    part("timing", what + "max 3 on ansi (min 0.1 and 0), plain, section", tim3, opset="progress", depth=6 if T else 4)
    timb = [C(m, 4, "default", o, 0.1) for o in ("ansi", "plain") for m in (10, 0) if T or (o, m) in (("ansi", 10), ("plain", 0))]
    part("timing-b", what + "max 10 and unknown max on ansi and plain (quick: ansi/max 10 and plain/unknown max)", timb, opset="progress", depth=5 if T else 4)
    if T:
        part("timing-elapsed", "formats with %elapsed% (exact clock differences): progress operations x all clock advances",
             [C(3, 4, "default", o, 0.1, v) for v in (1, 2) for o in ("ansi", "plain")], opset="progress", depth=4)
    return P


def xcheck_plan(tier):
    """Cross-checks of the deduplication: (name, cfg, clocks, opset, depth)."""
    T = tier == "thorough"
    out = [("all-ops", C(3, 4, "msg", "ansi", 0.1), CLOCKS, "all", 2),
           ("progress", C(3, 4, "default", "ansi", 0.1), CLOCKS, "progress", 4 if T else 3),
           ("progress-plain", C(10, 4, "default", "plain", 0.1), CLOCKS, "progress", 4 if T else 3)]
    return out


def main():
    real0 = clock._real_time()
    rep = report.Report(PID, "model_checking")
    probe()
    parts = plan(rep.tier, rep.seed)
    items = []

    def add(**kw):
        kw["idx"] = len(items)
        items.append(kw)

    # one share = one (part, configuration): the whole exploration of a configuration is deduplicated in one place
    # (splitting a configuration by its first operation was measured to cost 4x the transitions)
    for p in parts:
        for cfg in p["cfgs"]:
            add(kind="bfs", part=p["name"], cfg=cfg, clocks=p["clocks"], opset=p["opset"], prefix=(), depth=p["depth"],
                cost=(len(make_ops(cfg, p["clocks"], p["opset"])) * (2 if cfg_cap(cfg) is None else 1)) ** p["depth"])
    # ramps: long single histories (every step of the way to the maximum), all maxima in both tiers
    ramp_cfgs = [C(m, w, "default", o, mn) for m in (0, 1, 3, 10, 50, 200) for w in (4, 28) for o in ("ansi", "plain")
                 for mn in (0, 0.1)]
    for cfg in ramp_cfgs:
        add(kind="ramp", part="ramp", cfg=cfg, cost=10 ** 4)
    # cross-checks
    xc = xcheck_plan(rep.tier)
    for (name, cfg, clocks, opset, depth) in xc:
        add(kind="bfs", part="xcheck-dedup:" + name, cfg=cfg, clocks=clocks, opset=opset, prefix=(), depth=depth,
            want_keys=True, cost=10 ** 9)
        add(kind="bfs", part="xcheck-uncapped:" + name, cfg=dict(cfg, cap=None), clocks=clocks, opset=opset, prefix=(),
            depth=depth, cost=10 ** 9)
        for op in make_ops(cfg, clocks, opset):
            add(kind="nodedup", part="xcheck-nodedup:" + name, cfg=cfg, clocks=clocks, opset=opset, first=op, depth=depth,
                cost=10 ** 8)
    # Two phases: the broad part, the ramps and the cross-checks first; the deeper parts only when those are silent
    # (a tree that already fails is reported after a third of the work).  Inside a phase: heaviest shares first
    # (balance); results are merged in plan order (simplest first).
    def first_phase(it):
        return it["part"] in ("broad", "ramp") or it["part"].startswith("xcheck-")

    order = sorted([it for it in items if first_phase(it)], key=lambda it: (-it["cost"], it["idx"]))
    results = par.pmap(run_item, order)
    skipped = 0
    if any(r["violations"] for r in results):
        skipped = len([it for it in items if not first_phase(it)])
    else:
        order = sorted([it for it in items if not first_phase(it)], key=lambda it: (-it["cost"], it["idx"]))
        results += par.pmap(run_item, order)
    results.sort(key=lambda r: r["idx"])

    agg = {}
    nt_sets = {}
    nt_sum = 0
    exact = True
    xkeys = {}
    for r in results:
        rep.merge(r["violations"])
        a = agg.setdefault(r["part"], dict(states=0, transitions=0, max_depth=0, unexpanded_at_bound=0, shares=0,
                                           shares_cut_by_violation_cap=0, frame_checks_executed=0))
        a["states"] += r["states"]
        a["transitions"] += r["transitions"]
        a["max_depth"] = max(a["max_depth"], r["max_depth"])
        a["unexpanded_at_bound"] += r["cut"]
        a["shares"] += 1
        a["shares_cut_by_violation_cap"] += 1 if r["capped"] else 0
        a["frame_checks_executed"] += r["frames"]
        if r["part"].startswith("xcheck-"):
            x = xkeys.setdefault(r["part"], dict(keys=set(), sigs=set(), states=0, capped=False))
            x["capped"] = x["capped"] or r["capped"]
            if r["keys"] is not None:
                x["keys"] |= r["keys"]
            x["sigs"] |= set(r.get("sigs", [])) | set(v["sig"] for v in r["violations"])
            x["states"] += r["states"]
            continue
        if r["nontrivial"] is not None:
            nt_sets.setdefault((r["part"], r["cfg"]), set()).update(r["nontrivial"])
        else:
            nt_sum += r["nontrivial_n"]
            exact = exact and r["part"] == "ramp"
        if r["samples"] and a["shares"] == 1:
            rep.sample({"part": r["part"], "cfg": r["cfg"], "history": r["samples"][0]})
    # ---- cross-check verdicts (an inconsistency is an engine error, not a finding about clikit)
    for (name, cfg, clocks, opset, depth) in xc:
        d, u, n = (xkeys["xcheck-%s:%s" % (k, name)] for k in ("dedup", "uncapped", "nodedup"))
        res = dict(depth=depth, fingerprints_dedup=len(d["keys"]), fingerprints_nodedup=len(n["keys"]),
                   states_uncapped=u["states"], same_fingerprints=d["keys"] == n["keys"],
                   same_verdict=d["sigs"] == n["sigs"] == u["sigs"])
        if d["capped"] or u["capped"]:
            res["not_compared"] = "the explorer stopped at its violation cap (violations are being reported)"
        rep.part("xcheck:" + name, cfg=cfg_id(cfg), opset=opset, clock_ticks=list(clocks), **res)
        if "not_compared" not in res and (d["sigs"] or n["sigs"] or u["sigs"]):
            # with violations the runs stop expanding at different places; the violations themselves are reported
            res["not_compared"] = "violations were found in a cross-check run (reported); fingerprint sets are only compared on a silent tree"
            rep.part("xcheck:" + name, cfg=cfg_id(cfg), opset=opset, clock_ticks=list(clocks), **res)
        if "not_compared" in res:
            continue
        if not (res["same_fingerprints"] and res["same_verdict"]) or u["states"] < len(d["keys"]):
            raise RuntimeError("engine error: deduplication cross-check %s failed: %r (sigs dedup=%r nodedup=%r uncapped=%r)"
                               % (name, res, sorted(d["sigs"]), sorted(n["sigs"]), sorted(u["sigs"])))
    tot_s = tot_t = capped = 0
    for p in parts + [dict(name="ramp", what="sweep: the one-operation history set_progress(s) for every s in 0..max+2; finish probes: start,advance(k),finish "
                           "and advance(k),finish,display for k in {1,3} x clock advance; ramp: start, advance by 1 or 3 at a "
                           "fixed clock advance until past the maximum, finish: one long history per (max, stride, clock advance); "
                           "max in {0,1,3,10,50,200} x width {4,28} x {ansi,plain} x min {0,0.1}", cfgs=ramp_cfgs,
                           clocks=CLOCKS, opset="ramp", depth=0)]:
        a = agg.get(p["name"], dict(states=0, transitions=0, unexpanded_at_bound=0, shares_cut_by_violation_cap=0))
        rep.part(p["name"], what=p["what"], configurations=len(p["cfgs"]), clock_ticks=list(p["clocks"]), opset=p["opset"],
                 depth=p["depth"], alphabet_size=len(make_ops(p["cfgs"][0], p["clocks"], p["opset"])) if p["depth"] else 1,
                 executed=a.get("shares", 0) > 0,
                 closed=a.get("shares", 0) > 0 and a["unexpanded_at_bound"] == 0 and p["depth"] > 0, **a)
        tot_s += a["states"]
        tot_t += a["transitions"]
        capped += a["shares_cut_by_violation_cap"]
    for k, a in agg.items():
        if k.startswith("xcheck-"):
            tot_t += a["transitions"]
    rep.set("states", tot_s)
    rep.set("transitions", tot_t)
    rep.set("evaluations", tot_t)
    rep.set("traces_validated_against_impl", tot_t)
    rep.set("distinct_nontrivial", sum(len(s) for s in nt_sets.values()) + nt_sum)
    rep.set("distinct_nontrivial_exact", exact)
    rep.set("rule", "distinct (part, configuration, state fingerprint) reached by an operation that wrote a frame, the frame "
                    "having been parsed against its format and compared with the emulator screen; ramp histories add one per "
                    "frame checked" + ("" if exact else "; shares above 200000 such states are summed, not united"))
    rep.set("exhaustive", capped == 0 and skipped == 0)
    rep.set("shares_skipped_after_first_phase_violations", skipped)
    rep.set("shares_cut_by_violation_cap", capped)
    rep.set("rotated_bar_width", EXTRA_WIDTHS[rep.seed % len(EXTRA_WIDTHS)])
    rep.set("closed", False)
    rep.assume("no part closes: the maximum grows with every advance beyond it and the bar counts its writes, so the state "
               "graph is infinite; every part is complete for its stated alphabet and depth")
    rep.assume("mc/term.py models the terminal (xterm deferred auto-wrap); no frame of the alphabet contains tabs or wide characters")
    rep.assume("the bar reads the clock only through time.time() differences (self-probed: start time and write times follow the virtual clock)")
    rep.assume("formatter objects are treated as stateless leaves of the fingerprint (DESIGN.md 1.2)")
    clock.uninstall()
    rep.t0 = real0
    return rep.finish()
