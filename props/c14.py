"""C14 - tables render as a rectangle within the terminal and keep every cell's text; rendering
does not modify the table.

E1 (bounded-exhaustive enumeration on the real Table / CellWrapper / BorderUtil).  The oracle reads
nothing but the text written by Table.render (SGR removed) and the caller's row lists.

What "a terminal width that leaves at least one character per column beside the borders" means
------------------------------------------------------------------------------------------
Table._get_cell_wrapper gives the cell texts
    available = width - indentation - border_width - n * excess
with border_width = len(left) + (n-1)*len(separator) + len(right) and excess = the blanks of the cell
format (" {} " -> 2).  "Beside the borders" is read in the way most favourable to the code: the
padding blanks of the cell format belong to the border decoration, so the premise is available >= n:
    ascii, solid        : width >= indentation + (n+1) + 2n + n = indentation + 4n + 1
    borderless, compact : width >= indentation + (n-1) + 0  + n = indentation + 2n - 1
(min_width() below).  Narrower terminals are outside the property and never enumerated.

Enumerated space (a union of complete products; the tables P1 / P2 near build_blocks give the exact
slices per tier and column count, build_blocks / expand enumerate them):
  P1 "distribution": every kind vector over the 8 cell kinds x row configurations (1..3 rows, one
     deviating row whose cells take the contrasting kind DEV[k]) x header on/off x the 4 (style,
     indentation) pairs (ascii,0) (solid,3) (borderless,8) (compact,0) x widths x ANSI as well when a
     tagged cell is present, with one rotating alignment vector.  Widths 'branch' (quick, about 16
     per table and style): the minimum and the next two, both sides of every width at which the
     short/long split of that very table changes, both sides of the width from which everything
     fits, 40, 80, 200, one seed-rotated; 'all' (thorough): in addition every width from the minimum
     to one past the fit width (beyond it the unwrapped table repeats).  quick: n<=3 (n=3: three row
     configurations, plain only); thorough: n<=3 all widths, n=4 full alphabet at branch widths and
     the alphabet {empty, two words, 300-char, tagged} at all widths.
  P2 "drawing": a reduced kind alphabet x 2 rows (second deviating) x header on/off x all 4 styles x
     all 3 indentations x every alignment vector over {left,right,center}^n x ANSI/plain x 1..3 widths.
  P2 and P1 with n<=2 render every table twice.
  P4 "two renderings at once" (E3, mc/sched.py): two threads render two different tables; every interleaving at the granularity of
     source lines of cell_wrapper.py and table.py with at most one preemption; each rendering must equal the rendering of that table
     alone.  Two pairs use two Table objects, the second pair of one kind and the third pair render ONE Table object on two widths.
  P3 "edited tables": the table is not new - a table with other content was rendered once and then edited into the table
     under test by set_row(first) / set_row(last) / add_row / set_rows / set_header_row, or its TableStyle object has served a table
     with more / fewer columns before; all clauses are judged on the rendering
     of the edited table (a table reached by a history is a table), which is also rendered twice.

Oracle clauses (signature in brackets):
  * render raises nothing                                   [crash:<exc>@<innermost clikit function>]
  * every line is at most `width` wide, indentation included [too-wide:<style>]
  * ascii/solid: all lines have the same visible width       [ragged:<style>]
      and the corner/crossing/vertical characters stand in the same n+1 columns in every line, the
      last one in the last column                            [separators-misaligned:<style>]
      and border lines consist of the horizontal character between them [border-garbled:<style>]
  * borderless/compact: there are n-1 columns that are blank in every line (the '=' rule included)
      and split every line into n fields holding the cells   [columns-misaligned:<style>]
      (equal line widths are NOT demanded here: BorderUtil strips trailing blanks from every line and
      these styles have no right border - decision recorded in DESIGN.md section 4)
  * no markup character (< > /) is visible.  [markup-shown:tagged-cell] = every visible piece is a
      literal <b> or </b> of a tagged cell of that column that straddles a line break of the cell,
      i.e. the wrapping cut a tag in two (known finding, findings/c14_tag_cut_by_wrapping.md);
      a whole tag printed on one line [markup-shown:whole-tag], anything else [markup-shown:other],
      or columns that cannot be told apart [markup-shown:unattributed] are separate signatures.
      The text clauses below are evaluated on the text with those literal tags taken out.
  * per column, the fields read top to bottom with blanks removed equal the column's cells'
      visible characters with blanks removed                  [cell-text-lost]
      and the lines can be cut into consecutive non-empty groups, one per row (header first), such
      that every group gives exactly its cell in every column [cell-text-misplaced]
  * deepcopy(header, rows) taken before == after              [rows-modified]
  * a second render of the same table writes the same text    [rerender-differs, rerender-crash:<site>]
Not demanded (statement silent): that the requested alignment or indentation is honoured, which
border characters are used, that a header rule exists, equal widths for borderless/compact.
"""
import bisect
import copy
import itertools
import re

from mc import common, par, report
from mc.term import strip_sgr

PID = "C14"

# ---------------------------------------------------------------------------------------------
# alphabet
VOCAB = ["lorem", "ipsum", "dolor", "sit", "amet", "quis", "nostrud", "ex", "magna", "aliqua",
         "ut", "enim", "minim", "veniam", "labore", "et"]
KINDS = ["empty", "a", "word", "two", "s40", "s300", "w30", "tagged"]
K_EMPTY, K_A, K_WORD, K_TWO, K_S40, K_S300, K_W30, K_TAGGED = range(8)
# the deviating row uses a contrasting kind in every column
DEV = [K_TWO, K_S40, K_S300, K_EMPTY, K_A, K_WORD, K_TAGGED, K_W30]
SIZE = [0, 1, 5, 11, 40, 300, 30, 12]  # nominal visible length, for simplest-first ordering
HEADERS = ["Id", "Column title", "Nr", "Another heading"]
STYLES = ["ascii", "solid", "borderless", "compact"]
BORDERED = ("ascii", "solid")
INDENTS = [0, 3, 8]
# P1 pairs style and indentation on a diagonal; P2 takes the full product
P1_STYLE_IND = [("ascii", 0), ("solid", 3), ("borderless", 8), ("compact", 0)]
MAXW = 200


def _sentence(start, n):
    """Exactly n visible characters of words, not ending in a blank."""
    out = ""
    i = start
    while len(out) < n:
        out += VOCAB[i % len(VOCAB)] + " "
        i += 1
    out = out[:n]
    if out.endswith(" "):
        out = out[:-1] + "x"
    return out


def cell(kind, r, c):
    """-> (text given to the table, its visible characters).  Texts differ per position so that a
    cell shown in the wrong place is noticed."""
    k = (3 * r + 5 * c) % len(VOCAB)
    if kind == K_EMPTY:
        return "", ""
    if kind == K_A:
        return "a", "a"
    if kind == K_WORD:
        return VOCAB[k], VOCAB[k]
    if kind == K_TWO:
        t = VOCAB[k] + " " + VOCAB[(k + 1) % len(VOCAB)]
        return t, t
    if kind == K_S40:
        t = _sentence(k, 40)
        return t, t
    if kind == K_S300:
        t = _sentence(k, 300)
        return t, t
    if kind == K_W30:
        t = "".join(chr(ord("a") + (k + i) % 26) for i in range(30))
        return t, t
    if kind == K_TAGGED:
        return "<b>tagged</b> " + VOCAB[k], "tagged " + VOCAB[k]
    raise ValueError(kind)


def table_texts(kinds, nrows, dev, header):
    """-> (header row or None, rows, visible rows incl. header first)"""
    n = len(kinds)
    rows, vis = [], []
    if header:
        vis.append(HEADERS[:n])
    for r in range(nrows):
        ks = [DEV[k] for k in kinds] if r == dev else kinds
        pairs = [cell(k, r, c) for c, k in enumerate(ks)]
        rows.append([p[0] for p in pairs])
        vis.append([p[1] for p in pairs])
    return (list(HEADERS[:n]) if header else None), rows, vis


def overhead(style, ind, n):
    return ind + (3 * n + 1 if style in BORDERED else n - 1)


def min_width(style, ind, n):
    """Smallest terminal width inside the property (module docstring)."""
    return overhead(style, ind, n) + n


def _split(lengths, avail):
    """Which columns clikit would call 'short' - used ONLY to choose interesting widths."""
    longs = list(lengths)
    rep = True
    while rep:
        thr = avail / float(len(longs))
        rep = False
        for i, l in enumerate(longs):
            if l is not None and l <= thr:
                avail -= l
                longs[i] = None
                rep = True
    return tuple(l is None for l in longs)


def widths_for(vis, style, ind, n, wmode, seed):
    """Terminal widths of one table in one style.  'branch' (about 16): the minimum and the next two,
    both sides of every width at which the short/long split of this table changes, both sides of the
    width from which everything fits, 40, 80, 200 and one seed-rotated width.  'all': additionally
    every width from the minimum up to one past the width from which everything fits (wider
    terminals give the unwrapped table again)."""
    nat = [max(len(row[c]) for row in vis) for c in range(n)]
    ov = overhead(style, ind, n)
    lo = ov + n
    fit = ov + sum(nat)  # from here on nothing is wrapped
    ws = {lo, lo + 1, lo + 2, 40, 80, MAXW, fit - 1, fit, 20 + (seed * 7) % 181}
    if wmode == "all":
        ws.update(range(lo, min(MAXW, fit + 1) + 1))
    else:
        prev = None
        for w in range(lo, MAXW + 1):
            s = _split(nat, w - ov)
            if prev is not None and s != prev:
                ws.update((w - 1, w))
            prev = s
    return sorted(w for w in ws if lo <= w <= MAXW)


# ---------------------------------------------------------------------------------------------
# running one case on the real code
def make_style(name, aligns):
    """A fresh TableStyle per case; the border style is snapshotted right after the factory ran, so
    the BorderStyle singletons the factories share and customise (C17) cannot leak between cases."""
    from clikit.ui.style import TableStyle
    st = getattr(TableStyle, name)()
    st.border_style = copy.copy(st.border_style)
    for c, a in enumerate(aligns):
        st.set_column_alignment(c, a)
    return st


def render(case):
    from clikit.formatter import AnsiFormatter, PlainFormatter
    from clikit.io import BufferedIO
    from clikit.ui.components import Table
    from clikit.ui.rectangle import Rectangle

    kinds, nrows, dev, header, style, ind, aligns, width, ansi, twice = case
    hdr, rows, vis = table_texts(kinds, nrows, dev, header)
    io = BufferedIO(formatter=AnsiFormatter(forced=True) if ansi else PlainFormatter())
    io.set_terminal_dimensions(Rectangle(width, 24))
    the_style = make_style(style, aligns)
    if isinstance(twice, (list, tuple)) and twice[0] == "style-shared":
        # P3: the TableStyle object has already served another table with another number of columns
        other = Table(the_style)
        other.add_rows([["x%d" % j for j in range(twice[1])], ["y%d" % j for j in range(twice[1])]])
        scratch = BufferedIO(formatter=PlainFormatter())
        scratch.set_terminal_dimensions(Rectangle(120, 24))
        other.render(scratch, 0)
    if isinstance(twice, (list, tuple)) and twice[0] == "other-indent":
        # P3: an equal table (own Table / TableStyle / IO objects) has been rendered with ANOTHER indentation before
        twin = Table(make_style(style, aligns))
        if hdr is not None:
            twin.set_header_row(list(hdr))
        twin.add_rows([list(r) for r in rows])
        scratch = BufferedIO(formatter=AnsiFormatter(forced=True) if ansi else PlainFormatter())
        scratch.set_terminal_dimensions(Rectangle(width + twice[1], 24))
        twin.render(scratch, ind + twice[1])
    table = Table(the_style)
    if isinstance(twice, (list, tuple)):
        # P3: the table is reached by an edit of a table that has already been rendered once
        edit = twice[0]
        n = len(kinds)
        other_row = [cell(DEV[k], 7, c)[0] for c, k in enumerate(kinds)]
        if hdr is not None:
            table.set_header_row(list(reversed(HEADERS))[:n] if edit == "set_header_row" else hdr)
        if edit == "set_row":
            i = twice[1] % len(rows)
            table.add_rows(rows[:i] + [other_row] + rows[i + 1:])
        elif edit == "add_row":
            table.add_rows(rows[:-1])
        elif edit == "set_rows":
            table.add_rows([other_row])
        else:
            table.add_rows(rows)
        table.render(io, ind)
        io.clear_output()
        if edit == "set_row":
            table.set_row(twice[1] % len(rows), rows[twice[1] % len(rows)])
        elif edit == "add_row":
            table.add_row(rows[-1])
        elif edit == "set_rows":
            table.set_rows(rows)
        elif edit == "set_header_row":
            table.set_header_row(hdr)
    else:
        if hdr is not None:
            table.set_header_row(hdr)
        table.add_rows(rows)
    before = copy.deepcopy((hdr, rows))
    table.render(io, ind)  # an exception here is the caller's 'crash:' violation
    out1 = out2 = io.fetch_output()
    if twice:
        io.clear_output()
        try:
            table.render(io, ind)
            out2 = io.fetch_output()
        except Exception as e:
            out2 = e
    return out1, out2, before, (hdr, rows), vis


_SEP = {"ascii": re.compile(r"[+|]"), "solid": re.compile(u"[│┌┐└┘┼├┤┬┴]")}
_VL = {"ascii": "|", "solid": u"│"}
_HL = {"ascii": "-", "solid": u"─"}
_MARKUP = re.compile(r"[<>/]")


def _segment(fields, texts):
    """fields[c][i] = blank-free text of column c in content line i; texts[c][r] = blank-free cell.
    -> None if the lines can be cut into one non-empty group per row with every group equal to its
    cell in every column; else ('lost'|'misplaced', column)."""
    nlines = len(fields[0]) if fields else 0
    nrows = len(texts[0])
    pref, cum = [], []
    for c in range(len(fields)):
        if "".join(fields[c]) != "".join(texts[c]):
            return "lost", c
        p = [0]
        for f in fields[c]:
            p.append(p[-1] + len(f))
        pref.append(p)
        q = [0]
        for t in texts[c]:
            q.append(q[-1] + len(t))
        cum.append(q)
    prev = 0
    for r in range(nrows):
        lo, hi = prev + 1, nlines
        for c in range(len(fields)):
            target = cum[c][r + 1]
            a = bisect.bisect_left(pref[c], target)
            b = bisect.bisect_right(pref[c], target) - 1
            lo, hi = max(lo, a), min(hi, b)
            if lo > hi:
                return "misplaced", c
        if r == nrows - 1:
            if not lo <= nlines <= hi:
                return "misplaced", 0
            prev = nlines
        else:
            prev = lo
    return None


def _nospace(s):
    return s.replace(" ", "")


_TAG = re.compile(r"</?b>")


def _detag(col):
    """col = blank-free text of one column per content line.  Literal <b> / </b> found in the text read
    top to bottom are taken out.  -> (cleaned lines, tags that straddle a line break, tags within one line)"""
    s = "".join(col)
    ms = list(_TAG.finditer(s))
    if not ms:
        return col, 0, 0
    owner = []
    for i, f in enumerate(col):
        owner.extend([i] * len(f))
    drop = set()
    cut = whole = 0
    for mm in ms:
        if owner[mm.start()] == owner[mm.end() - 1]:
            whole += 1
        else:
            cut += 1
        drop.update(range(mm.start(), mm.end()))
    out = [[] for _ in col]
    for k, ch in enumerate(s):
        if k not in drop:
            out[owner[k]].append(ch)
    return ["".join(x) for x in out], cut, whole


def judge(case, out1, out2, before, after, vis):
    """All violated clauses of one rendered case, as (sig, what, expected, observed)."""
    kinds, nrows, dev, header, style, ind, aligns, width, ansi, twice = case
    n = len(kinds)
    bad = []
    if before != after:
        bad.append(("rows-modified", "render changed the caller's rows", before, after))
    if isinstance(out2, Exception):
        bad.append(("rerender-crash:" + report.exc_site(out2), "the second render of the same table raised %r" % (out2,),
                    "same text as the first render", repr(out2)))
    elif out2 != out1:
        bad.append(("rerender-differs", "a second render of the same table wrote different text", out1, out2))
    text = strip_sgr(out1)
    if "\x1b" in text or "\r" in text or not text.endswith("\n"):
        bad.append(("malformed-output", "output has stray control characters or no final newline", None, out1))
        return bad
    lines = text.split("\n")[:-1]
    wide = [l for l in lines if len(l) > width]
    if wide:
        bad.append(("too-wide:" + style, "a line is %d wide on a %d-column terminal" % (max(map(len, wide)), width),
                    "<= %d" % width, wide[0]))
    texts = [[_nospace(row[c]) for row in vis] for c in range(n)]
    m = _MARKUP.search(text)  # handled below, once the columns' fields are known
    fields = None
    if style in BORDERED:
        vl, hl, rx = _VL[style], _HL[style], _SEP[style]
        if len(set(map(len, lines))) > 1:
            bad.append(("ragged:" + style, "lines have different visible widths", "one width",
                        sorted(set(map(len, lines)))))
        pos0 = None
        content = []
        for l in lines:
            pos = [mm.start() for mm in rx.finditer(l)]
            if pos0 is None:
                pos0 = pos
                if len(pos) != n + 1 or pos[-1] != len(l) - 1 or l[:pos[0]].strip(" "):
                    bad.append(("separators-misaligned:" + style, "first line does not show %d separators ending the line" % (n + 1),
                                n + 1, l))
                    pos0 = False
                    break
            elif pos != pos0 or l[:pos[0]].strip(" "):
                bad.append(("separators-misaligned:" + style, "separators stand in different columns", pos0, [pos, l]))
                pos0 = False
                break
            if vl in l:
                content.append(l)
            elif any(l[pos[i] + 1:pos[i + 1]].strip(hl) for i in range(n)):
                bad.append(("border-garbled:" + style, "a border line holds something else than the line character", None, l))
        if pos0:
            fields = [[_nospace(l[pos0[c] + 1:pos0[c + 1]]) for l in content] for c in range(n)]
    else:
        rule = [l for l in lines if l.strip(" ") and not l.strip("= ")]
        content = [l for l in lines if not (l.strip(" ") and not l.strip("= "))]
        maxlen = max([len(l) for l in lines] + [0])
        span = maxlen + n
        blank = [all(len(l) <= p or l[p] == " " for l in lines) for p in range(span)]
        starts = [p for p in range(span) if blank[p] and (p == 0 or not blank[p - 1])]

        def same(f, c):  # literal tags are dealt with afterwards (_detag)
            got = "".join(f)
            return (_TAG.sub("", got) if m else got) == "".join(texts[c])

        def search(c, pos, acc):
            if c == n - 1:
                f = [_nospace(l[pos:]) for l in content]
                return acc + [f] if same(f, c) else None
            cands = ([pos] if pos < span and blank[pos] else []) + [p for p in starts if p > pos]
            for p in cands:
                f = [_nospace(l[pos:p]) for l in content]
                if same(f, c):
                    got = search(c + 1, p + 1, acc + [f])
                    if got:
                        return got
            return None

        fields = search(0, 0, [])
        if fields is None:
            have = sorted(_TAG.sub("", _nospace("".join(content))) if m else _nospace("".join(content)))
            want = sorted("".join("".join(t) for t in texts))
            if have == want:
                bad.append(("columns-misaligned:" + style, "no %d blank columns split every line into the cells' fields" % (n - 1),
                            None, lines[:6]))
            else:
                bad.append(("cell-text-lost", "the rendered characters are not the cells' characters", "".join(want), "".join(have)))
    if m:
        # Known finding 'markup-shown:tagged-cell' is exactly: every visible piece of markup is a literal
        # <b> or </b> of a tagged cell of that column which the wrapping cut in two (it straddles a line
        # break of the cell) - a tag standing whole on one line is always consumed by the formatter.
        # Anything else that shows markup gets another signature.
        shown = [l for l in lines if _MARKUP.search(l)][:3]
        if fields is None:
            bad.append(("markup-shown:unattributed", "markup characters are visible and the columns cannot be told apart",
                        "visible cell text only", shown))
        else:
            cut = whole = stray = 0
            for c in range(n):
                fields[c], k, w = _detag(fields[c])
                if (k or w) and not any("tagged" in row[c] for row in vis):
                    stray += 1
                cut += k
                whole += w
                stray += sum(1 for f in fields[c] if _MARKUP.search(f))
            if whole:
                bad.append(("markup-shown:whole-tag", "a complete tag is printed literally", "visible cell text only", shown))
            elif stray or not cut:
                bad.append(("markup-shown:other", "markup characters that are not a cut tag of a tagged cell are visible",
                            "visible cell text only", shown))
            else:
                bad.append(("markup-shown:tagged-cell", "a tag of a tagged cell was cut by the wrapping and is printed literally",
                            "visible cell text only", shown))
    if fields is not None:
        seg = _segment(fields, texts)
        if seg:
            c = seg[1]
            bad.append(("cell-text-" + seg[0], "column %d read top to bottom does not give back its cells" % c,
                        texts[c], fields[c][:12]))
    return bad, len(content) > len(vis)


def run_case(case):
    """-> (list of violations, wrapped?)"""
    try:
        out1, out2, before, after, vis = render(case)
    except Exception as e:
        return [report.viol("crash:" + report.exc_site(e), "Table.render raised %r" % (e,), case, "renders", repr(e))], False
    res = judge(case, out1, out2, before, after, vis)
    if isinstance(res, list):  # malformed output: nothing further could be read
        bad, wrapped = res, False
    else:
        bad, wrapped = res
    return [report.viol(s, w, case, e, o) for s, w, e, o in bad], wrapped


# ---------------------------------------------------------------------------------------------
# P4: two tables rendered at the same time (E3, mc/sched.py): the width distribution and the wrapping of one table use no
# scratch state that another rendering could touch
PAIRS_P4 = [
    (((K_TWO, K_S40), 2, 1, True, "ascii", 0, (0, 0), 30, False, False), ((K_S40, K_WORD), 2, 1, False, "ascii", 0, (0, 0), 24, False, False)),
    (((K_S40,), 1, None, False, "compact", 0, (0,), 12, False, False), ((K_S40,), 1, None, False, "compact", 0, (0,), 25, False, False)),
    # one Table object rendered on a wide and on a narrow terminal at the same time
    (((K_WORD, K_S40), 2, 1, True, "ascii", 0, (0, 0), 60, False, False), ((K_WORD, K_S40), 2, 1, True, "ascii", 0, (0, 0), 26, False, False)),
]


def _render_text(case):
    return render(case)[0]


def _table_of(case):
    from clikit.ui.components import Table
    kinds, nrows, dev, header, style, ind, aligns = case[:7]
    hdr, rows, _ = table_texts(kinds, nrows, dev, header)
    t = Table(make_style(style, aligns))
    if hdr is not None:
        t.set_header_row(hdr)
    t.add_rows(rows)
    return t


def _render_on(table, case):
    from clikit.formatter import PlainFormatter
    from clikit.io import BufferedIO
    from clikit.ui.rectangle import Rectangle
    io = BufferedIO(formatter=PlainFormatter())
    io.set_terminal_dimensions(Rectangle(case[7], 24))
    table.render(io, case[5])
    return io.fetch_output()


def _p4_thunks(pi_):
    """-> (thunks for the two threads, expected texts).  A pair whose two cases describe the same table (all but the width)
    is rendered from ONE Table object on two I/Os: a rendering keeps nothing on the table another rendering could overwrite."""
    pair = PAIRS_P4[pi_]
    if pair[0][:7] == pair[1][:7]:
        shared = _table_of(pair[0])
        return [lambda c=c: _render_on(shared, c) for c in pair], [_render_on(_table_of(c), c) for c in pair]
    return [lambda c=c: _render_text(c) for c in pair], [_render_text(c) for c in pair]


P4_FILES = ("cell_wrapper.py", "components/table.py")


def check_p4(pi_, bound, first_alts=None):
    from mc import sched
    def run_one(choices):
        thunks, want = _p4_thunks(pi_)
        s, got, exc, alive = sched.run_pair(choices, thunks, P4_FILES, horizon=20000)
        case = {"p4": pi_}
        vs = []
        if s.deadlock or s.livelock or exc is not None or alive:
            vs.append(report.viol("concurrent:stuck", "two concurrent renderings did not both finish (deadlock=%s livelock=%s exc=%r)"
                                  % (s.deadlock, s.livelock, exc), case, "both finish", [s.deadlock, s.livelock, repr(exc), alive]))
        for i, t in enumerate(s.threads[1:3]):
            if t.exc is not None:
                vs.append(report.viol("concurrent:crash:" + report.exc_site(t.exc), "Table.render raised %r while another table was being rendered"
                                      % (t.exc,), case, want[i], repr(t.exc)))
            elif not vs and got[i] != want[i]:
                vs.append(report.viol("concurrent:render-differs", "a table rendered while another thread renders another table differs from the "
                                      "same table rendered alone", case, want[i], got[i]))
        return s.points, vs[:1]

    if first_alts == "root":
        return sched.root_alternatives(run_one)
    return sched.explore(run_one, bound, first_alts=first_alts)


def part_p4(bound):
    jobs, res = [], {}
    for pi_ in range(len(PAIRS_P4)):
        st, vs, alts = check_p4(pi_, bound, "root")
        res[pi_] = [st, list(vs)]
        for ch in par.chunks(alts, max(1, common.ncpu() * 2 // len(PAIRS_P4))):
            jobs.append([(pi_, ch)])

    def work(share):
        out = []
        for pi_, alts in share:
            st, vs = check_p4(pi_, bound, alts)
            out.append((pi_, st, vs[:3]))
        return out

    for r in par.pmap(work, jobs):
        for pi_, st, vs in r:
            tot = res[pi_][0]
            tot["execs"] += st["execs"]
            tot["max_points"] = max(tot["max_points"], st["max_points"])
            for k, v in st["by_preemptions"].items():
                tot["by_preemptions"][k] = tot["by_preemptions"].get(k, 0) + v
            res[pi_][1].extend(vs)
    return res


def replay(case):
    if isinstance(case, dict) and "p4" in case:
        from mc import sched
        thunks, want = _p4_thunks(case["p4"])
        s, got, exc, alive = sched.run_pair(case.get("choices") or [], thunks, P4_FILES, horizon=20000)
        for i, t in enumerate(s.threads[1:3]):
            if t.exc is not None:
                return report.viol("concurrent:crash:" + report.exc_site(t.exc), "Table.render raised %r" % (t.exc,), case, want[i], repr(t.exc))
            if got[i] != want[i]:
                return report.viol("concurrent:render-differs", "a table rendered while another thread renders another table differs from the "
                                   "same table rendered alone", case, want[i], got[i])
        return None
    case = [tuple(x) if isinstance(x, list) else x for x in case]
    vs, _ = run_case(case)
    other = [v for v in vs if v["sig"] != "markup-shown:tagged-cell"]
    return (other or vs or [None])[0]


# ---------------------------------------------------------------------------------------------
# the space
RC_ALL = [(1, None), (2, None), (2, 0), (2, 1), (3, None), (3, 0), (3, 1), (3, 2)]
RC_5 = [(1, None), (2, None), (2, 1), (3, None), (3, 2)]
RC_3 = [(1, None), (2, 1), (3, 2)]
RC_2 = [(1, None), (2, 1)]
RC_1 = [(2, 1)]
K8 = list(range(8))
K4 = [K_EMPTY, K_TWO, K_S300, K_TAGGED]
P2_K4 = [K_A, K_TWO, K_S300, K_TAGGED]
P2_K3 = [K_TWO, K_S300, K_TAGGED]
# P1 slices: n -> [(kind alphabet, row configs, width mode, ANSI as well when a tagged cell is present)]
P1 = {
    "quick": {1: [(K8, RC_5, "branch", True)], 2: [(K8, RC_5, "branch", True)], 3: [(K8, RC_3, "branch", False)]},
    "thorough": {1: [(K8, RC_ALL, "all", True)], 2: [(K8, RC_ALL, "all", True)], 3: [(K8, RC_3, "all", True)],
                 4: [(K8, RC_1, "branch", False), (K4, RC_2, "all", True)]},
}
# P2 slices: n -> (kind alphabet, number of widths)
P2 = {
    "quick": {1: (P2_K4, 3), 2: (P2_K4, 3), 3: (P2_K3, 2)},
    "thorough": {1: (P2_K4, 3), 2: (P2_K4, 3), 3: (P2_K4, 3), 4: (P2_K3, 1)},
}


# P3 "edited tables": n -> kind alphabet; rows (2, deviating row 1) and (3, deviating row 2) x header on/off x the 4 (style, indentation)
# pairs x 2 widths x every edit {set_row(first), set_row(last), add_row, set_rows, set_header_row} applied AFTER a first rendering
P3 = {
    "quick": {1: P2_K4, 2: P2_K4, 3: P2_K3},
    "thorough": {1: K8, 2: K8, 3: P2_K4},
}


def build_blocks(tier):
    """A block = (part, kinds, nrows, dev, header, width mode); style/indentation/alignment/width/
    ANSI are expanded inside the worker.  Ordered simplest-first."""
    blocks = set()
    for n, slices in P1[tier].items():
        for alphabet, rcs, wmode, ansi in slices:
            wmode = (wmode, ansi)
            for kinds in itertools.product(alphabet, repeat=n):
                for nrows, dev in rcs:
                    for header in (False, True):
                        if any(("P1", kinds, nrows, dev, header, ("all", x)) in blocks for x in (True, ansi)):
                            continue  # already there with a larger width set
                        blocks.discard(("P1", kinds, nrows, dev, header, ("branch", False)))
                        blocks.add(("P1", kinds, nrows, dev, header, wmode))
    for n, (alphabet, nw) in P2[tier].items():
        for kinds in itertools.product(alphabet, repeat=n):
            for header in (False, True):
                blocks.add(("P2", kinds, 2, 1, header, nw))
    for n, alphabet in P3[tier].items():
        for kinds in itertools.product(alphabet, repeat=n):
            for nrows, dev in RC_2[1:] + RC_3[2:]:
                for header in (False, True):
                    blocks.add(("P3", kinds, nrows, dev, header, 2))
    return sorted(blocks, key=lambda b: (len(b[1]), b[2], sum(SIZE[k] for k in b[1]), b[4], b[0], b[1], b[3] is not None, b[3] or 0))


def expand(block, seed):
    part, kinds, nrows, dev, header, wmode = block
    n = len(kinds)
    _, _, vis = table_texts(kinds, nrows, dev, header)
    tagged = any("tagged" in v for row in vis for v in row)
    if part == "P1":
        rot = (sum(kinds) + nrows) % 3
        aligns = tuple((rot + c) % 3 for c in range(n))
        for style, ind in P1_STYLE_IND:
            for w in widths_for(vis, style, ind, n, wmode[0], seed):
                for ansi in ((False, True) if tagged and wmode[1] else (False,)):
                    yield (kinds, nrows, dev, header, style, ind, aligns, w, ansi, n <= 2)
    elif part == "P3":
        rot = (sum(kinds) + nrows) % 3
        aligns = tuple((rot + c) % 3 for c in range(n))
        edits = [("set_row", 0), ("set_row", nrows - 1), ("add_row",), ("set_rows",)] + ([("set_header_row",)] if header else [])
        edits += [("style-shared", n + 2)] + ([("style-shared", n - 1)] if n > 1 else [])
        edits += [("other-indent", 4)]
        for style, ind in P1_STYLE_IND:
            lo = min_width(style, ind, n)
            for w in [lo + 3 * n, 80][:wmode]:
                for ed in edits:
                    yield (kinds, nrows, dev, header, style, ind, aligns, w, False, ed)
    else:
        for style in STYLES:
            for ind in INDENTS:
                lo = min_width(style, ind, n)
                for w in [lo + 3 * n, 80, lo + 8 * n][:wmode]:
                    for aligns in itertools.product((0, 1, 2), repeat=n):
                        for ansi in (False, True):
                            yield (kinds, nrows, dev, header, style, ind, aligns, w, ansi, True)


def main():
    rep = report.Report(PID, "exploration")
    tier, seed = rep.tier, rep.seed
    blocks = build_blocks(tier)
    index = {b: i for i, b in enumerate(blocks)}

    def work(share):
        first = {}
        evals = wrapped = 0
        per = {}
        for b in share:
            for j, case in enumerate(expand(b, seed)):
                vs, wr = run_case(case)
                evals += 1
                wrapped += wr
                key = "%s:n=%d" % (b[0], len(b[1]))
                per[key] = per.get(key, 0) + 1
                for v in vs:
                    if v["sig"] not in first:
                        first[v["sig"]] = ((index[b], j), v)
        return evals, wrapped, per, sorted(first.values(), key=lambda x: x[0])

    found = []
    per = {}
    for evals, wrapped, p, vs in par.pmap(work, par.chunks(blocks, common.ncpu() * 4)):
        rep.add("evaluations", evals)
        rep.add("distinct_nontrivial", wrapped)
        for k, v in p.items():
            per[k] = per.get(k, 0) + v
        found += vs
    for _, v in sorted(found, key=lambda x: x[0]):  # simplest first across workers
        rep.violation(v)
    p4 = part_p4(1)
    nsched = 0
    for pi_ in sorted(p4):
        st, vs = p4[pi_]
        nsched += st["execs"]
        for v in vs[:1]:
            rep.violation(v)
    rep.add("evaluations", nsched)
    rep.set("schedules", nsched)
    rep.part("P4-concurrent-renderings", pairs=len(PAIRS_P4), preemption_bound=1, granularity="source lines of cell_wrapper.py and table.py",
             schedules={str(k): p4[k][0]["execs"] for k in p4}, max_points={str(k): p4[k][0]["max_points"] for k in p4})
    rep.set("blocks", len(blocks))
    rep.set("per_part", per)
    rep.set("exhaustive", True)
    def names(ks):
        return [KINDS[k] for k in ks]

    rep.set("rule", "union of complete products (module docstring).  P1 per n: %s, each x header on/off x (style,indent) in %s x widths "
                    "('branch': minimum..+2, both sides of every short/long split change and of the fit width, 40, 80, 200, seed-rotated %d; "
                    "'all': also every width from the minimum to fit+1) x ANSI when a tagged cell is present, one rotating alignment vector.  "
                    "P2 per n: %s, each x rows (2, deviating row 1) x header on/off x 4 styles x indent {0,3,8} x all 3^n alignment vectors x "
                    "ANSI/plain x that many widths.  P2 and P1 with n<=2 render every case twice.  P3 per n: %s x rows (2,dev 1),(3,dev 2) x header "
                    "on/off x 4 (style,indent) pairs x 2 widths x every edit applied after a first rendering.  non-trivial = measured: at least one cell "
                    "was wrapped (more content lines than rows)" % (
                        {n: [(names(a), rc, wm, ansi) for a, rc, wm, ansi in sl] for n, sl in P1[tier].items()}, P1_STYLE_IND, 20 + (seed * 7) % 181,
                        {n: (names(a), nw) for n, (a, nw) in P2[tier].items()}, {n: names(a) for n, a in P3[tier].items()}))
    for b in blocks[:: max(1, len(blocks) // 5)][:5]:
        rep.sample(next(iter(expand(b, seed))))
    rep.assume("premise 'one character per column beside the borders' = width >= indentation + border characters + cell-format blanks + n "
               "(ascii/solid: ind+4n+1, borderless/compact: ind+2n-1)")
    rep.assume("cell texts use letters and blanks only, so | + - = < > / and box characters in the output can only come from borders or markup")
    rep.assume("equal line widths are not demanded for borderless/compact (trailing blanks are stripped, no right border)")
    return rep.finish()
