"""C08 - splitting a command string never fails and inverts shell-style quoting; StringArgs and
ArgvArgs are indistinguishable to the parser and the resolver.

E1, three complete enumerations on the real TokenParser / StringArgs / ArgvArgs:

(a) totality: every string of length <= 6 (quick) / 7 (thorough) over {a, space, tab, ', ", \\, -}.
    StringArgs(s).tokens must return a list of str without raising; a watchdog (SIGALRM interval timer,
    re-armed per block of strings, confirmed on the single string) turns non-termination into a verdict
    instead of a hang.  (a2) repeats this for length <= 5 / 6 over {a, space, ', \\, -, newline, CR} plus one
    rarer whitespace character rotated in by VERIF_SEED.  A string without quote and backslash must split exactly like str.split().
    option_tokens must be the tokens before the first '--' and has_option_token must agree with it.

(b) inverse law: every list of tokens over {a, e-acute, space, ', ", \\, -, =} that the quoting scheme can
    express (boxes in BOUNDS_B: quick = <=3 tokens of <=1, <=2 of <=2, 1 of <=5 characters over the full alphabet
    and <=2 of <=3 over {a, space, ', ", \\, -} (e-acute and = are ordinary characters to the scanner);
    thorough = <=4 of <=1, 1 of <=5, <=2 of <=3, <=3 of <=2, all over the full alphabet), each token written as '...' or "..." with every embedded quote
    (of either kind) backslash-escaped, or bare when it is non-empty and free of whitespace, quotes and
    backslashes; joined by every separator choice out of {" ", "  ", tab, newline} (gap i of layout k uses
    separator (k+i) mod 4, so every separator occurs in every gap) with and without leading / trailing
    whitespace.  tokens must equal the original list.

    Which tokens can the scheme express?  From token_parser.py: a backslash is consumed together with the
    character after it; the pair yields that character alone if it is a quote and *both* characters
    otherwise (also for a second backslash).  So there is no way to write a backslash that is not paired
    with its successor: in the quoted form  q + escape(token) + q  every maximal run of backslashes is
    read pairwise from the left, and the run's last backslash pairs with what follows it when the run
    length is odd.  If what follows is the backslash that escapes an embedded quote, or the closing
    delimiter, the text is read differently from what was meant.  Hence the rule (`expressible`):
        every maximal backslash run that is directly followed by a quote character, or that ends the
        token, has even length.
    All other tokens (including backslashes before ordinary characters and whitespace, empty tokens,
    both quote kinds, non-ASCII) are expressible and are demanded to round-trip.

(c) equivalence: generated command lines (all sequences up to length 3 (quick) / 4 (thorough) over a pool
    of 19 tokens: options in every spelling (one that takes an optional value among them), the built-in `help` command, values with blanks/quotes/backslashes, '', '--', command
    names, an unknown option, -h) against three small formats, strict and lenient, three quoting styles:
    StringArgs(quoted line) vs ArgvArgs(["prog"] + tokens) must give the identical outcome (all Args views,
    or exception class + message) through DefaultArgsParser, the identical resolution (command + views,
    or exception) through a small ConsoleApplication (DefaultApplicationConfig: its help listener uses
    has_option_token), equal tokens, option_tokens == tokens before the first '--' in both forms, and
    has_option_token agreeing with that for every pool token.

(d) two scans at once (E3, mc/sched.py): for 3 pairs of command strings, every interleaving of two threads that each tokenise
    one string, scheduled at every source line of token_parser.py, with <= 1 (quick) / 2 (thorough) preemptions; each
    thread must get the tokens the string has when tokenised alone ("for every string" - the scanner's cursor and
    lookahead belong to one scan).  In (c) the string form is also parsed by a parser object that has parsed another
    line (with a `--`) before.

Not demanded (statement silent): what a string with unbalanced / nested unescaped quotes or a dangling
backslash tokenises *to* (only that it does); quoting styles that leave the other quote kind unescaped
inside a quoted token (the parser nests quotes, "it's" is not a round trip and the statement speaks of
"embedded quotes escaped"); Args.script_name (None for a string, argv[0] for a list).
"""
import collections
import itertools
import resource
import signal

from mc import common, par, report

PID = "C08"

ALPHA_A = ["a", " ", "\t", "'", '"', "\\", "-"]
# further characters str.split() treats as whitespace: newline and carriage return are always covered in a second, shorter
# run of part (a); VERIF_SEED rotates one of the rarer ones in on top
WS_CORE = ["\n", "\r"]
WS_ROTATED = ["\x0b", "\x0c", "\x1f", "\x85", "\xa0", "\u2003", "\u3000", "\x1c"]
ALPHA_B = ["a", "é", " ", "'", '"', "\\", "-", "="]
SEPS = [" ", "  ", "\t", "\n"]
# (max number of tokens, max token length, alphabet) boxes, enumerated completely, per tier
# (run in this order, smallest first; a list covered by an earlier box is not repeated)
ALPHA_B_CORE = ["a", " ", "'", '"', "\\", "-"]   # without the two further ordinary characters
ALPHAS = {"full": ALPHA_B, "core": ALPHA_B_CORE}
BOUNDS_B = {
    "quick": [(3, 1, "full"), (2, 2, "full"), (1, 5, "full"), (2, 3, "core")],
    "thorough": [(4, 1, "full"), (2, 2, "full"), (1, 5, "full"), (2, 3, "full"), (3, 2, "full")],
}
POOL_C = ["a b", "it's", 'q"x', "", "x=y", "--flag", "-f", "-vX Y", "--val=a b", "--val", "--", "é\t", "b\\\\",
          "--nope", "srv", "7", "-h", "--name", "help"]
BLOCK = 1024          # items per watchdog period
BLOCK_BUDGET = 10.0   # seconds for one block (normal: ~0.01 s for strings, ~1 s for the command lines of part (c))
SINGLE_BUDGET = 3.0   # seconds for one item when confirming (normal: ~10 us / ~1 ms)
_HUNG = False         # set in a worker process once it has a confirmed non-termination: the rest of its work is skipped


class _Timeout(BaseException):
    pass


def _on_alarm(signum, frame):
    raise _Timeout()


def _arm(seconds):
    signal.setitimer(signal.ITIMER_REAL, seconds)


def _disarm():
    signal.setitimer(signal.ITIMER_REAL, 0)


def watched(items, check, vs, nontrivial=None, cap=40):
    """check(item) -> list of violations, for every item of the (lazy) iterable, under the watchdog.
    Returns (items done, items for which nontrivial(item) holds)."""
    global _HUNG
    signal.signal(signal.SIGALRM, _on_alarm)
    it = iter(items)
    n = nt = 0
    while not _HUNG:
        block = list(itertools.islice(it, BLOCK))
        if not block:
            break
        i = 0
        while i < len(block):
            try:
                _arm(BLOCK_BUDGET)
                while i < len(block):
                    r = check(block[i])
                    if r and len(vs) < cap:
                        vs.extend(r)
                    i += 1
                _disarm()
            except _Timeout:
                # the block budget ran out while block[i] was being processed: confirm on that item alone
                _disarm()
                if i >= len(block):
                    break
                try:
                    _arm(SINGLE_BUDGET)
                    r = check(block[i])
                    _disarm()
                    if r and len(vs) < cap:
                        vs.extend(r)
                except _Timeout:
                    _disarm()
                    vs.append(report.viol("non-termination", "tokenising did not finish within %.0f s" % SINGLE_BUDGET,
                                          _case_of(block[i]), "terminates", "still running"))
                    _HUNG = True
                    return n + i, nt
                i += 1
        n += len(block)
        if nontrivial is not None:
            nt += sum(1 for x in block if nontrivial(x))
    return n, nt


def _case_of(item):
    if isinstance(item, str):
        return {"part": "a", "string": item}
    return item


# ------------------------------------------------------------------------------------------
# (a) totality over all short strings
# ------------------------------------------------------------------------------------------
def check_a(s):
    from clikit.args import StringArgs
    case = {"part": "a", "string": s}
    try:
        ra = StringArgs(s)
        toks = ra.tokens
    except Exception as e:
        return [report.viol("crash:" + report.exc_site(e), "StringArgs(%r) raised %r" % (s, e), case, "a list of tokens", repr(e))]
    if type(toks) is not list or any(type(t) is not str for t in toks):
        return [report.viol("tokens-not-list-of-str", "StringArgs(%r).tokens is not a list of str" % s, case, None, repr(toks))]
    if "'" not in s and '"' not in s and "\\" not in s and toks != s.split():
        return [report.viol("unquoted-split", "unquoted text %r does not split at runs of whitespace" % s, case, s.split(), toks)]
    return _option_tokens_violation(ra, toks, case, ["--", "-a", "a", "-", ""])


def _option_tokens_violation(ra, toks, case, probes):
    exp = list(itertools.takewhile(lambda t: t != "--", toks))
    got = ra.option_tokens
    if got != exp:
        return [report.viol("option-tokens:" + type(ra).__name__, "option_tokens is not the tokens before the first '--'", case, exp, got)]
    for p in probes:
        if bool(ra.has_option_token(p)) != (p in exp):
            return [report.viol("has-option-token:" + type(ra).__name__, "has_option_token(%r) disagrees with the tokens before the first '--'" % p,
                                case, p in exp, ra.has_option_token(p))]
    return []


def strings_with_prefix(prefix, maxlen, alpha):
    """prefix itself and every extension up to maxlen, shortest first."""
    out = []
    for extra in range(0, maxlen - len(prefix) + 1):
        for tail in itertools.product(alpha, repeat=extra):
            out.append(prefix + "".join(tail))
    return out


def part_a(maxlen, alpha=ALPHA_A):
    split = min(3, maxlen)
    short = ["".join(t) for L in range(split) for t in itertools.product(alpha, repeat=L)]
    prefixes = ["".join(t) for t in itertools.product(alpha, repeat=split)]

    def work(share):
        vs = []
        n = nt = 0
        for p in share:
            ss = short if p is None else strings_with_prefix(p, maxlen, alpha)
            c, t = watched(ss, check_a, vs, lambda s: "'" in s or '"' in s or "\\" in s)
            n += c
            nt += t
        return n, nt, vs

    n = nt = 0
    vs = []
    for c, t, v in par.pmap(work, par.chunks([None] + prefixes, common.ncpu() * 4)):
        n += c
        nt += t
        vs.extend(v)
    vs.sort(key=lambda v: (len(v["case"]["string"]), [alpha.index(ch) for ch in v["case"]["string"]]))
    return n, nt, vs


# ------------------------------------------------------------------------------------------
# (b) quoting is inverted
# ------------------------------------------------------------------------------------------
def expressible(tok):
    i = 0
    while i < len(tok):
        if tok[i] == "\\":
            j = i
            while j < len(tok) and tok[j] == "\\":
                j += 1
            if (j == len(tok) or tok[j] in "'\"") and (j - i) % 2:
                return False
            i = j
        else:
            i += 1
    return True


def needs_quotes(tok):
    return tok == "" or any(c.isspace() or c in "'\"\\" for c in tok)


def styles_of(tok):
    return ["'", '"'] if needs_quotes(tok) else ["'", '"', ""]


def quote(tok, q):
    if q == "":
        return tok
    return q + tok.replace("'", "\\'").replace('"', '\\"') + q


def layouts(ntokens):
    """(k, lead, trail): gap i uses SEPS[(k+i) % 4]; lead/trail whitespace is SEPS[k] when present."""
    out = []
    for k in range(len(SEPS)):
        for lead in (0, 1):
            for trail in (0, 1):
                out.append((k, lead, trail))
    return out


def render(tokens, styles, layout):
    k, lead, trail = layout
    parts = []
    for i, (t, q) in enumerate(zip(tokens, styles)):
        if i:
            parts.append(SEPS[(k + i - 1) % len(SEPS)])
        parts.append(quote(t, q))
    return (SEPS[k] if lead else "") + "".join(parts) + (SEPS[k] if trail else "")


def check_b(case):
    from clikit.args import StringArgs
    tokens = list(case["tokens"])
    s = render(tokens, case["styles"], tuple(case["layout"]))
    try:
        got = StringArgs(s).tokens
    except Exception as e:
        return [report.viol("crash:" + report.exc_site(e), "StringArgs(%r) raised %r" % (s, e), dict(case, string=s), tokens, repr(e))]
    if got != tokens:
        kind = "count" if len(got) != len(tokens) else "content"
        return [report.viol("roundtrip:" + kind, "quoted tokens %r written as %r tokenise to %r" % (tokens, s, got),
                            dict(case, string=s), tokens, got)]
    return []


_TOKENS = {}


def tokens_upto(maxlen, alpha="full"):
    if (maxlen, alpha) in _TOKENS:
        return _TOKENS[(maxlen, alpha)]
    out = _TOKENS[(maxlen, alpha)] = []
    for L in range(maxlen + 1):
        for t in itertools.product(ALPHAS[alpha], repeat=L):
            tok = "".join(t)
            if expressible(tok):
                out.append(tok)
    return out


def cases_b(first, ntok, maxlen, seen_boxes, alpha="full"):
    """all cases whose token list has exactly ntok tokens (each <= maxlen, over the alphabet) and starts with
    `first`; lists already covered by an earlier box (seen_boxes: [(ntok', maxlen', alphabet')]) are skipped."""
    toks = tokens_upto(maxlen, alpha)
    for rest in itertools.product(toks, repeat=ntok - 1):
        lst = (first,) + rest
        if any(ntok <= n2 and max(len(t) for t in lst) <= m2 and (a2 == "full" or all(ch in ALPHAS[a2] for t in lst for ch in t))
               for n2, m2, a2 in seen_boxes):
            continue
        for st in itertools.product(*[styles_of(t) for t in lst]):
            seen = set()
            for lay in layouts(ntok):
                if ntok == 1:
                    # a single token has no gap: layouts that render identically are one case
                    r = render(lst, st, lay)
                    if r in seen:
                        continue
                    seen.add(r)
                yield {"part": "b", "tokens": list(lst), "styles": list(st), "layout": list(lay)}


def part_b(box, done):
    """One box (max tokens, max token length), skipping lists that an earlier box in `done` covered."""
    ntok_max, maxlen, alpha = box
    units = [] if done else [("empty", None, 0, 0, [])]
    for ntok in range(1, ntok_max + 1):
        for first in tokens_upto(maxlen, alpha):
            units.append(("box", first, ntok, maxlen, list(done)))

    def work(share):
        vs = []
        n = nt = 0
        for kind, first, ntok, maxlen, seen in share:
            if kind == "empty":
                cs = [{"part": "b", "tokens": [], "styles": [], "layout": [k, l, 0]} for k in range(len(SEPS)) for l in (0, 1)]
            else:
                cs = cases_b(first, ntok, maxlen, seen, alpha)
            c, t = watched(cs, check_b, vs, lambda c: any(needs_quotes(t) for t in c["tokens"]))
            n += c
            nt += t
        return n, nt, vs

    n = nt = 0
    vs = []
    for c, t, v in par.pmap(work, par.chunks(units, common.ncpu() * 8)):
        n += c
        nt += t
        vs.extend(v)
    vs.sort(key=lambda v: (len(v["case"].get("string", "")), v["case"].get("string", "")))
    return n, nt, vs


# ------------------------------------------------------------------------------------------
# (c) command string vs argv list through the parser and the resolver
# ------------------------------------------------------------------------------------------
_WORLD = None
_TALLY = collections.Counter()  # outcome kinds seen in part (c), per worker


def world_c():
    global _WORLD
    if _WORLD is None:
        from clikit.api.args.format import ArgsFormat, Argument, CommandName, Option
        from clikit.config.default_application_config import DefaultApplicationConfig
        from clikit.console_application import ConsoleApplication
        g1 = ArgsFormat([Option("flag", "f", Option.NO_VALUE), Option("val", "v", Option.REQUIRED_VALUE),
                         Argument("first", Argument.OPTIONAL), Argument("rest", Argument.MULTI_VALUED)])
        g2 = ArgsFormat([CommandName("srv", ["server"]), Option("name", "n", Option.OPTIONAL_VALUE, None, "dflt"),
                         Option("num", None, Option.REQUIRED_VALUE | Option.INTEGER), Option("flag", "f", Option.NO_VALUE),
                         Argument("target", Argument.REQUIRED), Argument("tail", Argument.MULTI_VALUED)])
        g3 = ArgsFormat([Option("val", "v", Option.REQUIRED_VALUE | Option.MULTI_VALUED), Option("flag", "f", Option.NO_VALUE)])
        cfg = DefaultApplicationConfig("app", "1.0")
        cfg.set_catch_exceptions(False)
        cfg.set_terminate_after_run(False)
        with cfg.command("srv") as c:
            c.add_alias("server")
            c.add_option("flag", "f", Option.NO_VALUE)
            c.add_argument("target", Argument.OPTIONAL)
            with c.sub_command("7") as sc:
                sc.add_option("val", None, Option.REQUIRED_VALUE)
                sc.add_argument("items", Argument.MULTI_VALUED)
        with cfg.command("x=y") as c:
            c.add_option("val", None, Option.REQUIRED_VALUE | Option.MULTI_VALUED)
            c.add_argument("items", Argument.MULTI_VALUED)
        _WORLD = dict(fmts={"G1": g1, "G2": g2, "G3": g3}, app=ConsoleApplication(cfg))
    return _WORLD


def _typed(v):
    if isinstance(v, list):
        return ["list"] + [_typed(x) for x in v]
    if isinstance(v, dict):
        return ["dict"] + sorted([str(k), _typed(x)] for k, x in v.items())
    return [type(v).__name__, repr(v)]


def views(args):
    return [_typed(args.arguments(False)), _typed(args.arguments(True)), _typed(args.options(False)), _typed(args.options(True))]


def _outcome(thunk):
    try:
        r = thunk()
    except Exception as e:
        return {"raised": type(e).__name__, "message": str(e)}
    return r


def line_of(tokens, style):
    """style 'single' / 'double': every token quoted; 'minimal': bare where possible, else single quotes."""
    q = {"single": "'", "double": '"'}.get(style)
    out = []
    for t in tokens:
        out.append(quote(t, q if q else ("'" if needs_quotes(t) else "")))
    return " ".join(out)


def check_c(case):
    from clikit.args import ArgvArgs, StringArgs
    from clikit.args.default_args_parser import DefaultArgsParser
    w = world_c()
    tokens = list(case["tokens"])
    line = line_of(tokens, case["style"])
    case = dict(case, line=line)
    try:
        sa = StringArgs(line)
    except Exception as e:
        return [report.viol("crash:" + report.exc_site(e), "StringArgs(%r) raised %r" % (line, e), case, tokens, repr(e))]
    aa = ArgvArgs(["prog"] + tokens)
    if sa.tokens != aa.tokens or aa.tokens != tokens:
        return [report.viol("equiv:tokens", "command string and argv list carry different tokens", case, aa.tokens, sa.tokens)]
    for ra in (sa, aa):
        v = _option_tokens_violation(ra, tokens, case, POOL_C)
        if v:
            return v
    for name in case["formats"]:
        fmt = w["fmts"][name]
        for lenient in (False, True):
            o1 = _outcome(lambda: views(DefaultArgsParser().parse(sa, fmt, lenient)))
            o2 = _outcome(lambda: views(DefaultArgsParser().parse(aa, fmt, lenient)))
            _TALLY["parse:%s" % ("ok" if isinstance(o2, list) else o2["raised"])] += 1
            if o1 != o2:
                return [report.viol("equiv:parse", "parse(%s, lenient=%s) differs between the command string and the argv list" % (name, lenient),
                                    dict(case, format=name, lenient=lenient), o2, o1)]
            # ... and "only tokens before the first '--' count as option tokens" for the parser too: the options a lenient parse
            # reports are those of the line cut at its first '--'
            if lenient and "--" in tokens and isinstance(o2, list):
                o4 = _outcome(lambda: views(DefaultArgsParser().parse(ArgvArgs(["prog"] + tokens[:tokens.index("--")]), fmt, True)))
                if isinstance(o4, list) and o4[2] != o2[2]:
                    return [report.viol("separator:options-from-behind", "parse(%s, lenient): the options set differ from those of the line cut at "
                                        "its first '--'" % name, dict(case, format=name, lenient=True), o4[2], o2[2])]
            # ... also when the parser object is not new: one parser that has already parsed a line with a `--` separator
            # (the parser keeps per-parse scratch state on itself) must treat the string like a fresh parser treats the list
            used = DefaultArgsParser()
            _outcome(lambda: used.parse(ArgvArgs(["prog", "-f", "--", "-f", "x"]), fmt, True))
            o3 = _outcome(lambda: views(used.parse(sa, fmt, lenient)))
            if o3 != o2:
                return [report.viol("equiv:parse:used-parser", "parse(%s, lenient=%s) of the command string by a parser that has parsed another "
                                    "line before differs from a fresh parse of the argv list" % (name, lenient),
                                    dict(case, format=name, lenient=lenient), o2, o3)]
    app = w["app"]

    def resolve(ra):
        r = app.resolve_command(ra)
        flat = []
        for v in r.args.arguments(False).values():
            flat.extend(v if isinstance(v, list) else [v])
        return [r.command.full_name, views(r.args), flat]

    r1 = _outcome(lambda: resolve(sa))
    r2 = _outcome(lambda: resolve(aa))
    _TALLY["resolve:%s" % (r2[0] if isinstance(r2, list) else r2["raised"])] += 1
    if r1 != r2:
        return [report.viol("equiv:resolve", "resolution differs between the command string and the argv list", case, r2, r1)]
    if tokens and tokens[0] == "help":
        # the resolver the built-in help command uses to find the command it describes (it drops the leading `help`)
        from clikit.resolver.help_resolver import HelpResolver

        def hresolve(ra):
            r = HelpResolver().resolve(ra, app)
            flat = []
            for v in r.args.arguments(False).values():
                flat.extend(v if isinstance(v, list) else [v])
            return [r.command.full_name, views(r.args), flat]

        h1 = _outcome(lambda: hresolve(sa))
        h2 = _outcome(lambda: hresolve(aa))
        _TALLY["help-resolve:%s" % (h2[0] if isinstance(h2, list) else h2["raised"])] += 1
        if h1 != h2:
            return [report.viol("equiv:help-resolve", "the help resolver resolves the command string and the argv list differently", case, h2, h1)]
        if sa.tokens != tokens or aa.tokens != tokens:
            return [report.viol("help-resolve:caller-tokens-altered", "the help resolver altered the caller's raw arguments", case, tokens, [sa.tokens, aa.tokens])]
        if isinstance(h2, list) and [v for v in h2[2] if v not in tokens]:
            return [report.viol("resolve:value-is-no-token:help-resolver", "the help resolver handed on positional values that are not tokens of the line",
                                case, tokens, h2[2])]
    if isinstance(r2, list):
        # a positional value is one token of the line, whole: nothing between the tokeniser and the command splits, joins or
        # re-reads the tokens (all arguments of the application are untyped)
        odd = [v for v in r2[2] if v not in tokens]
        if odd:
            return [report.viol("resolve:value-is-no-token", "the resolved command got positional values that are not tokens of the line", case,
                                tokens, r2[2])]
    return []


def part_c(maxlen):
    lines = [list(t) for L in range(maxlen + 1) for t in itertools.product(POOL_C, repeat=L)]
    cases = [{"part": "c", "tokens": ts, "style": st, "formats": ["G1", "G2", "G3"]}
             for ts in lines for st in ("minimal", "single", "double")]

    def work(share):
        vs = []
        _TALLY.clear()
        n, nt = watched(share, check_c, vs, lambda c: any(needs_quotes(t) for t in c["tokens"]) and any(t.startswith("-") for t in c["tokens"]))
        return n, nt, vs, dict(_TALLY)

    n = nt = 0
    vs = []
    tally = collections.Counter()
    for c, t, v, tl in par.pmap(work, par.chunks(cases, common.ncpu() * 4)):
        n += c
        nt += t
        vs.extend(v)
        tally.update(tl)
    vs.sort(key=lambda v: (len(v["case"]["tokens"]), len(v["case"].get("line", ""))))
    return n, nt, len(lines), vs, dict(sorted(tally.items()))


# ------------------------------------------------------------------------------------------
# (d) two command strings tokenised at the same time (E3: every interleaving of the two scans at the granularity of source
#     lines of token_parser.py, up to a preemption bound): the scanner's cursor / lookahead state must belong to ONE scan
# ------------------------------------------------------------------------------------------
PAIRS_D = [("'a b' -x", 'c\\"d "e f"'), ("run  --n 'x y' -- -v", "'help'\t'a b'\t-q"), ("a\\ b", "'c'")]


def run_d(pair, choices):
    from mc import sched
    from clikit.args import StringArgs
    s = sched.Sched(choices, trace_lines_in="token_parser.py")
    got = [None, None]

    def mk(i):
        def f():
            got[i] = list(StringArgs(pair[i]).tokens)
        return f

    def body():
        ts = [s.spawn(mk(i), "scan%d" % i) for i in (0, 1)]
        for t in ts:
            s.start(t)
        for t in ts:
            s.join(t)

    exc, alive = s.run_main(body)
    return s, got, exc, alive


def check_d(pair, bound, first_alts=None):
    from mc import sched
    from clikit.args import StringArgs
    signal.signal(signal.SIGALRM, _on_alarm)
    try:
        _arm(SINGLE_BUDGET)
        want = [list(StringArgs(x).tokens) for x in pair]
        _disarm()
    except _Timeout:
        _disarm()
        v = report.viol("non-termination", "tokenising did not finish within %.0f s" % SINGLE_BUDGET, {"part": "a", "string": pair[0]},
                        "terminates", "still running")
        st = {"execs": 0, "by_preemptions": {}, "max_points": 0, "capped": True}
        return (st, [v], []) if first_alts == "root" else (st, [v])
    except Exception as e:  # noqa - tokenising alone already fails: part (a) reports it
        _disarm()
        st = {"execs": 0, "by_preemptions": {}, "max_points": 0, "capped": True}
        return (st, [], []) if first_alts == "root" else (st, [])

    def run_one(choices):
        s, got, exc, alive = run_d(pair, choices)
        case = {"part": "d", "pair": list(pair)}
        vs = []
        if s.deadlock or s.livelock or exc is not None or alive:
            vs.append(report.viol("concurrent:stuck", "two concurrent tokenisations did not both finish (deadlock=%s livelock=%s exc=%r)"
                                  % (s.deadlock, s.livelock, exc), case, "both finish", [s.deadlock, s.livelock, repr(exc), alive]))
        for i, t in enumerate(s.threads[1:3]):
            if t.exc is not None:
                vs.append(report.viol("concurrent:crash:" + report.exc_site(t.exc), "tokenising %r raised %r while %r was tokenised by "
                                      "another thread" % (pair[i], t.exc, pair[1 - i]), case, want[i], repr(t.exc)))
            elif not vs and got[i] != want[i]:
                vs.append(report.viol("concurrent:tokens", "tokenising %r while another thread tokenised %r gave other tokens than alone"
                                      % (pair[i], pair[1 - i]), case, want[i], got[i]))
        return s.points, vs[:1]

    if first_alts == "root":  # the default schedule alone; returns the one-preemption prefixes for the workers
        points, vs = run_one([])
        chosen = [p.chosen for p in points]
        alts = [chosen[:i] + [alt] for i in range(len(points)) for alt in range(1, len(points[i].enabled))]
        return {"execs": 1, "by_preemptions": {0: 1}, "max_points": len(points), "capped": False}, vs, alts
    return sched.explore(run_one, bound, first_alts=first_alts)


def part_d(bound):
    """the schedule tree of each pair is cut below the root: the default schedule runs here, every one-preemption prefix (and
    all that lies below it within the bound) goes to a worker"""
    jobs, res = [], {}
    for pi_, pair in enumerate(PAIRS_D):
        st, vs, alts = check_d(pair, bound, "root")
        res[pi_] = [list(pair), st, list(vs)]
        if bound >= 1:
            for ch in par.chunks(alts, max(1, common.ncpu() * 2 // len(PAIRS_D))):
                jobs.append([(pi_, ch)])

    def work(share):
        out = []
        for pi_, alts in share:
            st, vs = check_d(PAIRS_D[pi_], bound, alts)
            out.append((pi_, st, vs[:3]))
        return out

    for r in par.pmap(work, jobs):
        for pi_, st, vs in r:
            tot = res[pi_][1]
            tot["execs"] += st["execs"]
            tot["max_points"] = max(tot["max_points"], st["max_points"])
            for k, v in st["by_preemptions"].items():
                tot["by_preemptions"][k] = tot["by_preemptions"].get(k, 0) + v
            res[pi_][2].extend(vs)
    return [tuple(res[k]) for k in sorted(res)]


def replay_d(case):
    pair = case["pair"]
    from clikit.args import StringArgs
    want = [list(StringArgs(x).tokens) for x in pair]
    s, got, exc, alive = run_d(pair, case.get("choices") or [])
    for i, t in enumerate(s.threads[1:3]):
        if t.exc is not None:
            return [report.viol("concurrent:crash:" + report.exc_site(t.exc), "tokenising %r raised %r" % (pair[i], t.exc), case, want[i], repr(t.exc))]
        if got[i] != want[i]:
            return [report.viol("concurrent:tokens", "tokenising %r while another thread tokenised %r gave other tokens than alone"
                                % (pair[i], pair[1 - i]), case, want[i], got[i])]
    if s.deadlock or s.livelock or exc is not None or alive:
        return [report.viol("concurrent:stuck", "two concurrent tokenisations did not both finish", case)]
    return []


# ------------------------------------------------------------------------------------------
def replay(case):
    signal.signal(signal.SIGALRM, _on_alarm)
    fn = {"a": lambda c: check_a(c["string"]), "b": check_b, "c": check_c, "d": replay_d}[case["part"]]
    try:
        _arm(SINGLE_BUDGET)
        vs = fn(case)
        _disarm()
    except _Timeout:
        _disarm()
        return report.viol("non-termination", "tokenising did not finish within %.0f s" % SINGLE_BUDGET, case, "terminates", "still running")
    return vs[0] if vs else None


def main():
    resource.setrlimit(resource.RLIMIT_AS, (6 << 30, 6 << 30))  # belt: unbounded growth ends as an error
    rep = report.Report(PID, "exploration")
    thorough = rep.tier == "thorough"
    la = 7 if thorough else 6
    lc = 4 if thorough else 3

    na, nta, vsa = part_a(la)
    rep.merge(vsa)
    rep.part("a-totality", alphabet=ALPHA_A, max_length=la, strings=na, with_quote_or_backslash=nta,
             complete=(na == sum(len(ALPHA_A) ** L for L in range(la + 1))))
    ws = WS_ROTATED[rep.seed % len(WS_ROTATED)]
    alpha2 = ["a", " ", "'", "\\", "-"] + WS_CORE + [ws]
    la2 = 6 if thorough else 5
    na2, nta2, vsa2 = part_a(la2, alpha2)
    rep.merge(vsa2)
    rep.part("a2-other-whitespace", alphabet=alpha2, rotated_whitespace=ws, max_length=la2, strings=na2,
             complete=(na2 == sum(len(alpha2) ** L for L in range(la2 + 1))))
    rep.set("rotated_whitespace", repr(ws))
    nc, ntc, nlines, vsc, tally = part_c(lc)
    rep.merge(vsc)
    rep.part("c-equivalence", pool=POOL_C, max_tokens=lc, lines=nlines, cases=nc, formats=3, modes=2,
             with_option_and_quoted_token=ntc, outcomes=tally)
    bd = 2 if thorough else 1
    execs_d = 0
    rows = []
    hung_already = any(v["sig"] == "non-termination" for v in rep.violations.values())
    for pair, st, vsd in ([] if hung_already else part_d(bd)):
        rep.merge(vsd)
        execs_d += st["execs"]
        rows.append({"pair": pair, "schedules": st["execs"], "by_preemptions": st["by_preemptions"], "max_points": st["max_points"]})
    rep.part("d-concurrent-scans", preemption_bound=bd, granularity="source lines of token_parser.py", pairs=rows, schedules=execs_d)
    # (b) box by box, smallest first; once anything has been found the larger boxes (third onwards) are not run
    # (they would only repeat it at greater cost) and the evidence says so
    nb = ntb = 0
    done, skipped = [], []
    for i, box in enumerate(BOUNDS_B[rep.tier]):
        if rep.violations and i >= 2:  # the two small boxes always run
            skipped.append(box)
            continue
        n1, nt1, vs1 = part_b(box, done)
        rep.merge(vs1)
        nb += n1
        ntb += nt1
        done.append(box)
    ntoks = {"%d/%s" % (m, a): len(tokens_upto(m, a)) for _n, m, a in BOUNDS_B[rep.tier]}
    rep.part("b-roundtrip", alphabets=ALPHAS, boxes=[{"max_tokens": n, "max_token_length": m, "alphabet": a} for n, m, a in done],
             boxes_not_run=[{"max_tokens": n, "max_token_length": m, "alphabet": a} for n, m, a in skipped],
             expressible_tokens_by_max_length=ntoks,
             all_tokens_by_max_length={"%d/%s" % (m, a): sum(len(ALPHAS[a]) ** L for L in range(m + 1)) for _n, m, a in BOUNDS_B[rep.tier]},
             command_strings=nb, with_a_token_that_needs_quotes=ntb, separators=SEPS)
    rep.set("evaluations", na + na2 + nb + nc + execs_d)
    rep.set("schedules", execs_d)
    rep.set("distinct_nontrivial", nta + ntb + ntc)
    hung = any(v["sig"] == "non-termination" for v in rep.violations.values())
    rep.set("exhaustive", not hung and not skipped)
    if hung:
        rep.set("stopped", "a worker that confirmed a non-terminating input skipped the rest of its share")
    elif skipped:
        rep.set("stopped", "violations were found before the larger boxes of part (b) were reached; those were not run")
    rep.set("rule", "(a) all strings <= %d over 7 characters; (b) all expressible token lists in the boxes x all quote styles per token x 16 layouts; "
                    "(c) all lines <= %d tokens over a 19-token pool x 3 quoting styles (x 3 formats x strict/lenient + resolution).  non-trivial = "
                    "(a) strings containing a quote or a backslash, (b) command strings with at least one token that needs quotes (empty, whitespace, "
                    "quote or backslash inside), (c) lines with at least one such token and at least one token starting with '-'" % (la, lc))
    rep.sample({"part": "a", "string": "a\\"})
    rep.sample({"part": "a", "string": "'a \"-\\' "})
    rep.sample({"part": "b", "tokens": ["\\\\'", " é"], "styles": ['"', "'"], "layout": [2, 1, 0],
                "string": render(["\\\\'", " é"], ['"', "'"], (2, 1, 0))})
    rep.sample({"part": "c", "tokens": ["srv", "--val=a b", "--", "-h"], "style": "minimal", "line": line_of(["srv", "--val=a b", "--", "-h"], "minimal")})
    rep.assume("tokens with a backslash run of odd length directly before a quote or at their end cannot be written in the scheme "
               "(token_parser.py pairs a backslash with its successor and has no escape for the backslash itself); they are excluded from (b)")
    rep.assume("'embedded quotes escaped' = both quote kinds escaped inside either delimiter")
    rep.assume("a string of <= 7 characters that needs more than %.0f s is non-terminating" % SINGLE_BUDGET)
    return rep.finish()
