"""C09 helper: the raising statements live in a tiny file of their own because the error report
tokenises the whole source file of the innermost frame (20 ms per run inside props/c09.py)."""


def boom(kind):
    if kind == "raise-cli":
        from clikit.api.exceptions import CliKitException
        raise CliKitException("boom")  # rendered as a one-line ("simple") report
    raise RuntimeError("boom")  # rendered as a full trace
