"""C02 - malformed command lines are rejected with the documented errors and only those; lenient mode never raises a
parse error and agrees with strict mode whenever strict mode accepts.

E1, bounded-exhaustive, on the real DefaultArgsParser (fresh parser per parse):
 (a) token soup: ALL token sequences up to a length over an adversarial alphabet x ~20 small formats, strict + lenient;
 (b) single faults: every spelling of every assignment of a core family of C01 formats (props/_parsegen.py), mutated by
     exactly one fault whose documented error class is known: drop a required argument, add a surplus positional,
     add an unknown option (`--zz` / `-z` at every boundary, `--zz=1` at the first and last one, an unknown letter in
     front of / behind a short group), give a flag a value, strip a
     required option value, give a non-convertible text to a typed option/argument.  Faults are inserted at group
     boundaries only (never between an option and its separate value, never right behind a bare optional-value
     option), so the line carries ONE fault and the predicted class is exact.
 (c) valid lines with a bare optional-value option without default (the corner C01 leaves out): containment only.

Bounds.  quick: soup length <= 3 over 25 tokens (24 + the VERIF_SEED token) and length 4..5 over 8 of them, 20 formats;
faults on 321 formats (49 option pairs, 59 option kinds with a command name, 213 argument shapes).  thorough: soup length <= 4
over 25, 5..6 over 8, 7 over 6 tokens; faults on 720 formats (3 single-valued arguments, two values per multi option/argument).

Oracle.  strict: outcome in {return, CannotParseArgsException, NoSuchOptionException, ValueError}; for (b) exactly the
predicted class.  lenient: never CannotParseArgsException / NoSuchOptionException (and nothing outside
{return, ValueError}); whenever strict returns, lenient returns and every view of the two results is equal.
NOT demanded (statement silent): which of the documented classes a soup line gets; the lenient *result* for a line
strict mode rejects; that lenient mode suppresses ValueError (a conversion failure is not a parse error).
"""
import itertools
import json

from mc import common, par, report
from props import _parsegen as G

PID = "C02"

# ------------------------------------------------------------------------------------------------
# (a) soup
# ------------------------------------------------------------------------------------------------
ALPHA24 = ["", "-", "--", "---", "--=", "-=", "--flag", "--flag=x", "--name", "--name=v", "--name=", "--zzz", "--zzz=1",
           "-f", "-n", "-nv", "-z", "-fg", "-fz", "-fn", "-1", "null", "abc", "12"]
ALPHA8 = ["", "--", "--name", "-n", "-fn", "-1", "abc", "12"]
ALPHA6 = ["", "--", "--name", "-n", "-1", "abc"]
SEED_TOKENS = ["--name=null", "-n=", "--flag=", "-gf", "é", "--NAME", "-nf", "srv"]


def _o(mode, typ="string", nullable=False, default=None):
    return ["name", "n", mode, typ, nullable, default]


FLAG = ["flag", "f", "flag", "string", False, None]
GEE = ["gee", "g", "flag", "string", False, None]


def _a(name, mode, typ="string", nullable=False, default=None):
    return [name, mode, typ, nullable, default]


def soup_formats():
    def f(names=(), opts=(), args=()):
        return {"names": [list(n) for n in names], "opts": [list(o) for o in opts], "args": [list(a) for a in args], "split": None}

    return [
        f(),                                                     # nothing at all
        f(opts=[FLAG]),
        f(opts=[_o("req")]),
        f(opts=[_o("opt")]),                                     # optional value, no default
        f(opts=[_o("opt", "int")]),
        f(opts=[_o("opt", "float")]),
        f(opts=[_o("opt", "bool")]),
        f(opts=[_o("opt", "int", True)]),
        f(opts=[_o("req", "int")]),
        f(opts=[_o("req", "bool", True)]),
        f(opts=[_o("multi")]),
        f(opts=[_o("multi", "int")]),
        f(opts=[FLAG, GEE, _o("req")]),                          # short groups
        f(opts=[FLAG, _o("opt", "int", False, 7)], args=[_a("x", "opt")]),
        f(args=[_a("x", "req")]),
        f(args=[_a("x", "req"), _a("ys", "multi", "int")]),
        f(args=[_a("x", "opt", "int")]),
        f(names=[["srv", ["sv"]]], opts=[FLAG], args=[_a("x", "req")]),
        f(names=[["srv", ["sv"]], ["abc", []]], opts=[_o("opt")], args=[_a("x", "opt")]),
        f(opts=[_o("multi", "float", True)], args=[_a("xs", "reqmulti", "bool")]),
    ]


def _outcome(fmt, spec, tokens, lenient):
    """-> (class name or 'return', views or None, exception or None)"""
    try:
        args = G.parse(fmt, tokens, lenient)
    except Exception as e:  # noqa
        return type(e).__name__, None, e
    views, _ = G.observe(args, spec)
    return "return", views, None


def _documented(e):
    from clikit.api.args.exceptions import CannotParseArgsException, NoSuchOptionException
    if isinstance(e, CannotParseArgsException):
        return "CannotParseArgsException"
    if isinstance(e, NoSuchOptionException):
        return "NoSuchOptionException"
    if isinstance(e, ValueError):
        return "ValueError"
    return None


def judge(fmt, spec, tokens, predicted=None, fault=None):
    """-> (strict outcome class, [violations])"""
    vs = []
    case = {"spec": spec, "tokens": tokens, "predicted": predicted, "fault": fault}
    s_cls, s_views, s_exc = _outcome(fmt, spec, tokens, False)
    l_cls, l_views, l_exc = _outcome(fmt, spec, tokens, True)
    s_doc = "return" if s_exc is None else _documented(s_exc)
    l_doc = "return" if l_exc is None else _documented(l_exc)
    if s_doc is None:
        sig = "crash:" + report.exc_site(s_exc)
        vs.append(report.viol(sig, "strict parse let an undocumented exception escape: %s: %s" % (s_cls, s_exc),
                              dict(case, sig=sig), "return | CannotParseArgsException | NoSuchOptionException | ValueError",
                              "%s: %s" % (s_cls, s_exc)))
    elif predicted is not None and s_doc != predicted:
        sig = "fault:%s:expected-%s:got-%s" % (fault, predicted, s_doc)
        vs.append(report.viol(sig, "single fault '%s' must be rejected with %s, strict parse gave %s" % (fault, predicted, s_doc),
                              dict(case, sig=sig), predicted, s_doc if s_exc is None else "%s: %s" % (s_cls, s_exc)))
    if l_doc is None and not (s_doc is None and report.exc_site(l_exc) == report.exc_site(s_exc)):
        # (the same escape in both modes is one failure: one signature)
        sig = "crash:" + report.exc_site(l_exc)
        vs.append(report.viol(sig, "lenient parse let an undocumented exception escape: %s: %s" % (l_cls, l_exc),
                              dict(case, sig=sig), "return | ValueError", "%s: %s" % (l_cls, l_exc)))
    elif l_doc in ("CannotParseArgsException", "NoSuchOptionException"):
        sig = "lenient-raised:" + report.exc_site(l_exc)
        vs.append(report.viol(sig, "lenient parse raised a parse error: %s: %s" % (l_cls, l_exc),
                              dict(case, sig=sig), "return | ValueError", "%s: %s" % (l_cls, l_exc)))
    if s_doc == "return" and l_doc is not None:
        if l_doc != "return":
            if l_doc == "ValueError":
                sig = "lenient-differs:raises-where-strict-returns"
                vs.append(report.viol(sig, "strict parse returned but lenient parse raised %s" % l_cls, dict(case, sig=sig),
                                      s_views, "%s: %s" % (l_cls, l_exc)))
        elif l_views != s_views:
            bad = [v for v in G.VIEWS if l_views[v] != s_views[v]]
            sig = "lenient-differs:" + bad[0]
            vs.append(report.viol(sig, "strict parse succeeded but lenient parse returned a different result (%s)" % ", ".join(bad),
                                  dict(case, sig=sig), {v: s_views[v] for v in bad}, {v: l_views[v] for v in bad}))
    return s_doc or s_cls, vs


def run_soup(item):
    """all sequences of length min_len..max_len whose first token is alphabet[first::nfirst] (the empty line goes to shard 0)"""
    fi, spec, alphabet, min_len, max_len, first, nfirst = item
    fmt = G.build_format(spec)
    res = {"lines": 0, "hist": {}, "viol": {}, "nontrivial": 0}

    def one(toks):
        res["lines"] += 1
        cls, vs = judge(fmt, spec, toks)
        res["hist"][cls] = res["hist"].get(cls, 0) + 1
        if cls != "return":
            res["nontrivial"] += 1
        if len(toks) == max_len and res.get("sample") is None and cls not in ("NoSuchOptionException",):
            res["sample"] = {"soup": toks, "format": {"opts": spec["opts"], "args": spec["args"], "names": spec["names"]}, "strict": cls}
        for v in vs:
            rank = [len(toks), sum(len(x) for x in toks), fi]
            old = res["viol"].get(v["sig"])
            if old is None or rank < old[0]:
                res["viol"][v["sig"]] = (rank, v)

    for L in range(min_len, max_len + 1):
        if L == 0:
            if first == 0:
                one([])
            continue
        for a0 in alphabet[first::nfirst]:
            for rest in itertools.product(alphabet, repeat=L - 1):
                one([a0] + list(rest))
    return res


# ------------------------------------------------------------------------------------------------
# (b) single faults on valid lines
# ------------------------------------------------------------------------------------------------
CPA, NSO, VE = "CannotParseArgsException", "NoSuchOptionException", "ValueError"


def fault_formats(tier):
    q = tier != "thorough"
    if tier == "smoke":  # development aid only (not a claimed bound): a handful of formats
        R = G.arg_kind("req")
        p = dict(dom_n=1, arg_dom_n=1, multi_len=1, arg_multi_len=1)
        return [(G.mk_spec(G.NAMES0, [G.opt_kind("flag"), G.opt_kind(m, t)], [R]), p)
                for m, t in (("req", "int"), ("opt", "string"), ("multi", "string"), ("flag", "string"))] + \
               [(G.mk_spec(G.NAMES1, [G.opt_kind("req")], [R, G.arg_kind("opt", "int", False, "typed")]), p),
                (G.mk_spec(G.NAMES0, [], [R, G.arg_kind("multi", "int")]), p)]
    R, O, M, RM = G.arg_kind("req"), G.arg_kind("opt", default="typed"), G.arg_kind("multi"), G.arg_kind("reqmulti")
    SH = [G.opt_kind("flag"), G.opt_kind("req"), G.opt_kind("opt"), G.opt_kind("multi")]
    NS = [G.opt_kind("flag", short=False), G.opt_kind("req", short=False), G.opt_kind("multi", "int", short=False)]
    out = []
    p = dict(dom_n=1, arg_dom_n=1, multi_len=1 if q else 2, arg_multi_len=1)
    for k1 in SH + NS:
        for k2 in SH + NS:
            out.append((G.mk_spec(G.NAMES0, [k1, k2], [R]), p))
    for k in G.all_option_kinds():
        out.append((G.mk_spec(G.NAMES1, [k], [R, G.arg_kind("opt", "int", False, "typed")]), dict(p, dom_n=2)))
    for shape in G.arg_shapes(2 if q else 3):
        n = len(shape)
        tvs = [["string"] * n] + [["string"] * i + [ty] + ["string"] * (n - i - 1) for i in range(n) for ty in ("int", "float", "bool")]
        for tv in tvs:
            aks = [G.arg_kind(m, ty, ty == "float", "typed" if m in ("opt", "multi") else None) for m, ty in zip(shape, tv)]
            plain = all(t == "string" for t in tv)
            for nm in (G.NAMES0, G.NAMES1, G.NAMES2):
                if nm is G.NAMES2 and not plain and q:
                    continue
                out.append((G.mk_spec(nm, [G.opt_kind("req", "int")] if nm is not G.NAMES2 else [], aks),
                            dict(dom_n=1, arg_dom_n=1, multi_len=1, arg_multi_len=1 if q else 2)))
    # one format split between a base and a derived format with an empty level in between (a three-level chain)
    for nb in (0, 1):
        for mask in ((True, False), (False, True)):
            for na in (0, 1):
                out.append((G.mk_spec(G.NAMES1, [G.opt_kind("flag"), G.opt_kind("req", "int")],
                                      [R, G.arg_kind("opt", "int", False, "typed")], [nb, list(mask), na, 1]),
                            dict(dom_n=1, arg_dom_n=1, multi_len=1, arg_multi_len=1)))
    return out


def faults(spec, asg, toks, roles):
    """yield (fault kind, mutated tokens, predicted strict class)"""
    opts, args = spec["opts"], spec["args"]
    n = len(toks)
    dd = next((i for i, r in enumerate(roles) if r[0] == "D"), n)
    val_idx = [i for i, r in enumerate(roles) if r[0] in ("A", "T")]
    n_req = sum(1 for a in args if a[1] in ("req", "reqmulti"))
    has_multi = any(a[1] in ("multi", "reqmulti") for a in args)

    def boundary(i):  # may a token be inserted in front of toks[i] / at the end?
        return i == n or roles[i][0] != "V"

    def after_bare(i):
        return i > 0 and roles[i - 1][0] in ("LB", "GB")

    # 1 drop a required argument
    if val_idx and len(val_idx) == n_req:
        for i in val_idx:
            yield "drop-required-argument", toks[:i] + toks[i + 1:], CPA
    # 2 surplus positional
    if not has_multi and len(val_idx) == len(args):
        for i in range(n + 1):
            if boundary(i) and not after_bare(i):
                yield "surplus-positional", toks[:i] + ["zz"] + toks[i:], CPA
                # the empty word and a lone dash are positionals too (wherever they stand) ...
                yield "surplus-positional", toks[:i] + [""] + toks[i:], CPA
                yield "surplus-positional", toks[:i] + ["-"] + toks[i:], CPA
                if i > dd:
                    # ... and so is a second `--` behind the separator
                    yield "surplus-positional", toks[:i] + ["--"] + toks[i:], CPA
                    # behind `--` nothing is a command name: a surplus word spelled like one is still surplus
                    for nm in spec["names"]:
                        for w in [nm[0]] + list(nm[1]):
                            yield "surplus-positional", toks[:i] + [w] + toks[i:], CPA
    # 3 unknown option (only in front of `--`)
    # (a known name behind surplus dashes is an unknown option too: `---name`, `---n`)
    dashed = (("---" + opts[0][0],) + (("---" + opts[0][1],) if opts[0][1] else ())) if opts else ()
    for i in range(dd + 1):
        if boundary(i):
            for u in ("--zz", "-z") + (("--zz=1",) + dashed if i in (0, dd) else ()):
                yield "unknown-option", toks[:i] + [u] + toks[i:], NSO
    for i, r in enumerate(roles):
        if r[0] in ("G", "GB", "GA", "GS"):
            yield "unknown-letter-in-group", toks[:i] + ["-z" + toks[i][1:]] + toks[i + 1:], NSO
            if r[0] == "G":
                yield "unknown-letter-in-group", toks[:i] + [toks[i] + "z"] + toks[i + 1:], NSO
    # 4 a value for a flag
    for i, r in enumerate(roles):
        if r[0] == "L":
            yield "flag-given-a-value", toks[:i] + [toks[i] + "=x"] + toks[i + 1:], CPA
    # 5 strip a required option value
    for i, r in enumerate(roles):
        k = r[1][-1] if r[1] else None
        if r[0] == "LE" and opts[k][2] in ("req", "multi"):
            yield "strip-required-value", toks[:i] + ["--" + opts[k][0] + "="] + toks[i + 1:], CPA
        nxt_is_opt = i + 1 >= n or toks[i + 1].startswith("-")
        if r[0] == "LE" and opts[k][2] in ("req", "multi") and nxt_is_opt:
            yield "strip-required-value", toks[:i] + ["--" + opts[k][0]] + toks[i + 1:], CPA
        if r[0] == "GA" and opts[k][2] in ("req", "multi") and nxt_is_opt:
            yield "strip-required-value", toks[:i] + ["-" + "".join(opts[j][1] for j in r[1])] + toks[i + 1:], CPA
        if r[0] == "V" and opts[k][2] in ("req", "multi") and (i + 1 >= n or toks[i + 1].startswith("-")):
            yield "strip-required-value", toks[:i] + toks[i + 1:], CPA
    # 6 a text that does not convert
    for i, r in enumerate(roles):
        k = r[1][-1] if r[1] else None
        if r[0] in ("LE", "GA", "V") and opts[k][3] != "string":
            if r[0] == "LE":
                t = "--" + opts[k][0] + "=abc"
            elif r[0] == "GA":
                t = "-" + "".join(opts[j][1] for j in r[1]) + "abc"
            else:
                t = "abc"
            yield "unconvertible-option-value", toks[:i] + [t] + toks[i + 1:], VE
            if not opts[k][4]:  # not nullable: the text null does not convert either
                yield "unconvertible-option-value", toks[:i] + [t[:-3] + "null"] + toks[i + 1:], VE
        if r[0] in ("A", "T") and args[k][2] != "string":
            yield "unconvertible-argument-value", toks[:i] + ["abc"] + toks[i + 1:], VE
            if not args[k][3]:
                yield "unconvertible-argument-value", toks[:i] + ["null"] + toks[i + 1:], VE


def run_faults(item):
    """one format: every assignment x spelling x fault; mutated lines are de-duplicated per format (the same faulty line can
    arise from different valid lines), so every (format, line) pair is parsed and counted once"""
    fi, spec, params = item
    fmt = G.build_format(spec)
    res = {"lines": 0, "base_lines": 0, "hist": {}, "kinds": {}, "viol": {}, "nontrivial": 0, "sample": None, "bare_none": 0,
           "duplicates": 0}
    asgs = G.assignments(spec, bare_none=True, **params)
    done = set()
    for ai, asg in enumerate(asgs):
        bare_none = any(ch and ch[0] == "bare" and o[5] is None for o, ch in zip(spec["opts"], asg["opts"]))
        seen = set()
        for toks, roles in G.spellings(spec, asg, omit_names=True, tails=True):
            key = tuple(toks)
            if key in seen:
                continue
            seen.add(key)
            res["base_lines"] += 1
            cases = []
            if bare_none:
                # (c) valid line, value of the bare option not demanded: containment + lenient agreement only
                cases.append(("bare-optional-without-default", toks, None))
                res["bare_none"] += 1
            else:
                cases.extend(faults(spec, asg, toks, roles))
            for kind, mt, pred in cases:
                h = hash("\0".join(mt))
                if h in done:
                    res["duplicates"] += 1
                    continue
                done.add(h)
                res["lines"] += 1
                res["kinds"][kind] = res["kinds"].get(kind, 0) + 1
                cls, vs = judge(fmt, spec, mt, pred, kind)
                res["hist"][cls] = res["hist"].get(cls, 0) + 1
                if cls != "return":
                    res["nontrivial"] += 1
                if res["sample"] is None and pred and len(mt) >= 4:
                    res["sample"] = {"fault": kind, "valid": toks, "mutated": mt, "predicted": pred, "strict": cls}
                for v in vs:
                    rank = [len(mt), sum(len(x) for x in mt), fi]
                    old = res["viol"].get(v["sig"])
                    if old is None or rank < old[0]:
                        res["viol"][v["sig"]] = (rank, v)
    return res


# ------------------------------------------------------------------------------------------------
def replay(case):
    spec = case["spec"]
    fmt = G.build_format(spec)
    _, vs = judge(fmt, spec, case["tokens"], case.get("predicted"), case.get("fault"))
    for v in vs:
        if v["sig"] == case.get("sig"):
            return v
    pre = (case.get("sig") or "").split(":")[0]
    for v in vs:
        if v["sig"].split(":")[0] == pre:
            return v
    return None


def main():
    rep = report.Report(PID, "fault_enumeration")
    q = rep.tier != "thorough"
    extra = SEED_TOKENS[rep.seed % len(SEED_TOKENS)]
    big = ALPHA24 + [extra]
    len_big, len_small = (3, 5) if q else (4, 6)
    if rep.tier == "smoke":
        len_big, len_small = 2, 3
    items = []
    fmts = soup_formats()
    for fi, spec in enumerate(fmts):
        nf = 5 if q else 25
        for first in range(nf):
            items.append(("soup", (fi, spec, big, 0, len_big, first, nf)))
        # the small alphabet is a subset of the big one: only the lengths the big soup does not reach are new
        nf = 4 if q else 8
        for first in range(nf):
            items.append(("soup", (fi, spec, ALPHA8, len_big + 1, len_small, first, nf)))
        if rep.tier == "thorough":  # ... and one token longer over six of the eight
            for first in range(6):
                items.append(("soup", (fi, spec, ALPHA6, len_small + 1, len_small + 1, first, 6)))
    ff = fault_formats(rep.tier)
    seen = set()
    nff = 0
    for fi, (spec, params) in enumerate(ff):
        key = G.spec_key(spec) + json.dumps(params, sort_keys=True)
        if key in seen:
            continue
        seen.add(key)
        nff += 1
        items.append(("fault", (fi, spec, params)))

    def work(it):
        return run_soup(it[1]) if it[0] == "soup" else run_faults(it[1])

    def cost(i):  # schedule the (probably) biggest fault formats first; results are merged per item, order has no influence
        if items[i][0] == "soup":
            return 0
        sp = items[i][1][1]
        return -(4 * len(sp["opts"]) + 2 * len(sp["args"]) + len(sp["names"]))

    order = sorted(range(len(items)), key=cost)
    res_s = par.pmap(work, [items[i] for i in order])
    results = [None] * len(items)
    for i, r in zip(order, res_s):
        results[i] = r
    best = {}
    tot = {"soup": 0, "fault": 0}
    hist = {"soup": {}, "fault": {}}
    kinds = {}
    nontrivial = 0
    base_lines = 0
    bare_none = 0
    dups = 0
    nsamp, soup_sampled = {}, set()
    for it, r in zip(items, results):
        dups += r.get("duplicates", 0)
        tot[it[0]] += r["lines"]
        nontrivial += r["nontrivial"]
        for k, v in r["hist"].items():
            hist[it[0]][k] = hist[it[0]].get(k, 0) + v
        for k, v in r.get("kinds", {}).items():
            kinds[k] = kinds.get(k, 0) + v
        base_lines += r.get("base_lines", 0)
        bare_none += r.get("bare_none", 0)
        if r.get("sample"):
            kind = "soup" if "soup" in r["sample"] else r["sample"]["fault"]
            if kind != "soup" or it[1][0] not in soup_sampled:
                if kind == "soup":
                    soup_sampled.add(it[1][0])
                if nsamp.get(kind, 0) < (3 if kind == "soup" else 1):
                    nsamp[kind] = nsamp.get(kind, 0) + 1
                    rep.sample(r["sample"], cap=12)
        for sig, (rank, v) in r["viol"].items():
            if sig not in best or rank < best[sig][0]:
                best[sig] = (rank, v)
    for sig in sorted(best, key=lambda s: best[s][0]):
        rep.violation(best[sig][1])
    rep.part("a:token-soup", formats=len(fmts), alphabet=big, max_len=len_big, small_alphabet=ALPHA8, small_max_len=len_small,
             tiny_alphabet=ALPHA6 if rep.tier == "thorough" else None, tiny_len=len_small + 1 if rep.tier == "thorough" else None,
             lines=tot["soup"], strict_outcomes=hist["soup"])
    rep.part("b:single-faults", formats=nff, valid_lines_mutated=base_lines, mutated_lines=tot["fault"], per_fault=kinds,
             strict_outcomes=hist["fault"], bare_optional_without_default_lines=bare_none, duplicate_mutations_skipped=dups)
    rep.set("lines", tot["soup"] + tot["fault"])
    rep.set("evaluations", 2 * (tot["soup"] + tot["fault"]))
    rep.set("distinct_nontrivial", nontrivial)
    rep.set("exhaustive", True)
    rep.set("rule", "evaluations = parses (each distinct (format, line) once strict, once lenient); distinct_nontrivial = distinct "
                    "(format, token line) pairs that strict mode REJECTS (one of the three documented errors or an escaped "
                    "exception), i.e. lines that drive an error path; the small-alphabet soup runs only the lengths the "
                    "big-alphabet soup does not reach (its alphabet is a subset); mutated lines are de-duplicated per format (hash set), "
                    "soup formats and fault formats use different option names, so no pair is counted twice")
    rep.assume("every parse uses a fresh DefaultArgsParser (parser reuse is C05)")
    rep.assume("a ValueError in lenient mode is allowed (a conversion failure is not one of the two parse errors)")
    rep.assume("VERIF_SEED rotates one extra token (%r) into the 24-token alphabet" % extra)
    return rep.finish()
