"""Fixtures of the C17 check that must live in a SMALL file: exception traces highlight the whole source file of every
frame, so handlers that raise and the nested raising functions are kept out of props/c17.py.  Also holds the table-style
scenario interpreter, which is imported both by the checker and by the fresh `python -c` sub-processes (no mc import here).
"""
REC = []


def handler(name, status=0, raises=False):
    from clikit.handler.callback_handler import CallbackHandler

    def cb(args, io):
        REC.append([name, dict(args.arguments()), dict(args.options()), list(args.raw_args.tokens),
                    [io.is_verbose(), io.is_very_verbose(), io.is_debug(), io.is_quiet(), io.is_interactive(),
                     type(io.output.formatter).__name__, io.supports_utf8()]])
        io.write_line("%s <b>out</b>" % name)
        io.error_line("%s <b>err</b>" % name)
        if raises:
            raise RuntimeError("boom in %s" % name)
        return status

    return CallbackHandler(cb)


def styled_handler(name, register):
    """writes with the tag <hot>; only the registering variant adds that style - to the formatters of ITS run's IO"""
    from clikit.handler.callback_handler import CallbackHandler

    def cb(args, io):
        REC.append([name, {}, {}, list(args.raw_args.tokens), []])
        if register:
            from clikit.api.formatter import Style
            io.output.formatter.add_style(Style("hot").fg("red"))
            io.error_output.formatter.add_style(Style("hot").fg("red"))
        io.write_line("<hot>%s</hot> done" % name)
        io.error_line("<hot>note</hot>")
        return 0

    return CallbackHandler(cb)


class PerRunHandler(object):
    """given to set_handler as a FACTORY (the class itself): every run gets a new instance, so every run prints 'use 1'"""

    def __init__(self):
        self.uses = 0

    def handle(self, args, io, command):
        self.uses += 1
        REC.append(["fac", {}, {}, list(args.raw_args.tokens), [self.uses]])
        io.write_line("fac use %d" % self.uses)
        return 5


def f_inner(n):
    if n <= 0:
        raise ValueError("inner failure with value %d" % (n + 42))
    return f_inner(n - 1)


def f_middle(n):
    x = [1, 2, 3]  # a line with a number, a string and a keyword for the highlighter
    return f_inner(n) if x else "never"


def f_outer(n):
    return f_middle(n)


def caught(n):
    try:
        f_outer(n)
    except ValueError as e:
        return e


def caught_via_clikit():
    """a failure whose trace passes through a clikit frame (callback_handler.py), for ignore_files_in"""
    from clikit.handler.callback_handler import CallbackHandler
    try:
        CallbackHandler(lambda args, io: f_outer(1)).handle(None, None, None)
    except ValueError as e:
        return e


def run_style_steps(steps):
    """Interpret a table-style scenario; returns [[style index, style name, rendered table], ...] for its render steps."""
    from clikit.api.formatter import Style
    from clikit.io import BufferedIO
    from clikit.ui.components.table import Table
    from clikit.ui.style.alignment import Alignment
    from clikit.ui.style.table_style import TableStyle

    styles, out = [], []
    for step in steps:
        op, x = step[0], step[1]
        if op == "build":
            styles.append((x, getattr(TableStyle, x)()))
        elif op == "custom-own":  # attributes of the TableStyle object itself
            st = styles[x][1]
            st.padding_char = "."
            st.cell_format = "[{}]"
            st.header_cell_format = "({})"
            st.set_column_alignment(1, Alignment.RIGHT)
            st.default_column_alignment = Alignment.CENTER
            st.cell_style = Style().bold()
        elif op == "custom-border":  # the border of that style object
            b = styles[x][1].border_style
            b.line_vc_char = "!"
            b.line_vl_char = "!"
            b.line_hc_char = "~"
            b.line_ht_char = "~"
            b.crossing_c_char = "#"
            b.corner_tl_char = "*"
        elif op == "render":
            t = Table(styles[x][1])
            t.set_header_row(["ISBN", "Title", "Author"])
            t.add_rows([["99921-58-10-7", "Divine Comedy", "Dante Alighieri"],
                        ["9971-5-0210-0", "A Tale of Two Cities", "Charles Dickens"]])
            io = BufferedIO()
            t.render(io)
            out.append([x, styles[x][0], io.fetch_output()])
        elif op == "render-default":  # Table() without an explicit style
            t = Table()
            t.set_header_row(["ISBN", "Title"])
            t.add_rows([["99921-58-10-7", "Divine Comedy"]])
            io = BufferedIO()
            t.render(io)
            out.append([-1, "default", io.fetch_output()])
        else:
            raise ValueError(op)
    return out
