"""C10 - quiet and verbosity gate every write path identically.

E1, complete table: every public writing entry point found by reflection x receiver kind x
verbosity x flag word x quiet x ANSI/plain, executed on the real classes.
"""
import inspect
import itertools

from mc import common, par, report

PID = "C10"
VERBOSITIES = [0, 1, 2, 4]
FLAGS = [None, 0, 1, 2, 3, 4, 5, 6, 7]
import re
WRITERS = re.compile(r"^(write|error|overwrite$|clear$)")


def lowest_level(flags):
    f = flags or 0
    if f & 1:
        return 1
    if f & 2:
        return 2
    if f & 4:
        return 4
    return 0


def _formatter(ansi):
    from clikit.formatter import AnsiFormatter, PlainFormatter
    return AnsiFormatter(forced=True) if ansi else PlainFormatter()


def receiver_kinds():
    """name -> builder(ansi) returning (receiver, [streams it may write to], is_section)"""
    from clikit.api.io import IO, Input, Output
    from clikit.io import BufferedIO, NullIO
    from clikit.io.console_io import ConsoleIO
    from clikit.io.input_stream import StringInputStream
    from clikit.io.output_stream import BufferedOutputStream

    def out(ansi):
        s = BufferedOutputStream()
        return Output(s, _formatter(ansi)), [s], False

    def section(ansi):
        s = BufferedOutputStream()
        o = Output(s, _formatter(ansi))
        return o.section(), [s], True

    def second_section(ansi):
        s = BufferedOutputStream()
        o = Output(s, _formatter(ansi))
        first = o.section()
        sec = o.section()
        return first, [s], True  # a section with another one below it

    def bio(ansi):
        io = BufferedIO(formatter=_formatter(ansi))
        return io, [io.output.stream, io.error_output.stream], False

    def bio_section(ansi):
        io = BufferedIO(formatter=_formatter(ansi))
        sec = io.section()
        return sec, [io.output.stream, io.error_output.stream], True

    def plain_io(ansi):
        so, se = BufferedOutputStream(), BufferedOutputStream()
        io = IO(Input(StringInputStream("")), Output(so, _formatter(ansi)), Output(se, _formatter(ansi)))
        return io, [so, se], False

    def plain_io_section(ansi):
        so, se = BufferedOutputStream(), BufferedOutputStream()
        io = IO(Input(StringInputStream("")), Output(so, _formatter(ansi)), Output(se, _formatter(ansi)))
        return io.section(), [so, se], True

    def console_io(ansi):
        so, se = BufferedOutputStream(), BufferedOutputStream()
        io = ConsoleIO(Input(StringInputStream("")), Output(so, _formatter(ansi)), Output(se, _formatter(ansi)))
        return io, [so, se], False

    def console_io_section(ansi):
        so, se = BufferedOutputStream(), BufferedOutputStream()
        io = ConsoleIO(Input(StringInputStream("")), Output(so, _formatter(ansi)), Output(se, _formatter(ansi)))
        return io.section(), [so, se], True

    def null_io(ansi):
        # the I/O kind that writes nowhere - until its outputs are given streams (Output.set_stream): from then on they are
        # outputs like any other
        from clikit.io.null_io import NullIO
        io = NullIO()
        so, se = BufferedOutputStream(), BufferedOutputStream()
        io.output.set_stream(so)
        io.error_output.set_stream(se)
        io.set_formatter(_formatter(ansi))
        return io, [so, se], False

    return dict(null_io_with_streams=null_io, output=out, section=section, upper_section=second_section, buffered_io=bio,
                buffered_io_section=bio_section, io=plain_io, io_section=plain_io_section,
                console_io=console_io, console_io_section=console_io_section)


def methods_of(obj):
    out = []
    for name in sorted(dir(type(obj))):
        if name.startswith("_") or not WRITERS.match(name):
            continue
        fn = getattr(type(obj), name)
        if not callable(fn):
            continue
        params = list(inspect.signature(fn).parameters)
        out.append((name, "flags" in params, params))
    return out


def run_case(case):
    """case = [kind, ansi, method, verbosity, flags, quiet, prefill] -> violation or None"""
    kind, ansi, meth, verbosity, flags, quiet, prefill = case[:7]
    split = len(case) > 7 and case[7]
    text = case[8] if len(case) > 8 else "msg"
    if text == "<long>":
        text = "long message " * 1600  # 20 800 characters: more than any buffer or chunk size a stream layer may use
    recv, streams, is_section = receiver_kinds()[kind](ansi)
    outs = [recv] if not hasattr(recv, "error_output") else [recv.output, recv.error_output]
    # sections are pre-filled (while loud) so that clear/overwrite have something to act on
    if prefill:
        for o in outs:
            o.set_verbosity(4)
            o.write_line("old")
    recv.set_verbosity(verbosity)
    recv.set_quiet(quiet)
    if split:
        # the output this method does NOT write to gets the opposite settings: the gate that decides is the one of
        # the output the text goes to, whatever the other output (or the IO's own is_quiet()/verbosity view) says
        other = recv.output if meth.startswith("error") else recv.error_output
        other.set_quiet(not quiet)
        other.set_verbosity(4 if verbosity < 4 else 0)
    before = [s.fetch() for s in streams]
    fn = getattr(recv, meth)
    params = inspect.signature(fn).parameters
    try:
        if "flags" in params:
            fn(text, flags=flags)
        elif meth == "clear":
            fn()
        else:
            fn(text)
    except Exception as e:
        if isinstance(e, TypeError) and report.exc_site(e).endswith("@?"):
            # the call itself was refused (no clikit frame ran): a method found by its name that does not take
            # (text[, flags]) is not a text-writing entry point - nothing to judge
            return None
        return report.viol("crash:" + report.exc_site(e), "%s.%s raised %r" % (kind, meth, e), case)
    after = [s.fetch() for s in streams]
    wrote = after != before
    should = (not quiet) and verbosity >= lowest_level(flags)
    if meth == "clear" and not (ansi and prefill):
        should = False  # nothing to clear / plain outputs ignore clear: must stay silent
    if wrote != should:
        side = "leak" if wrote else "lost"
        sig = "%s:%s.%s:%s%s%s" % (side, "section" if is_section else "plain-recv", meth, "ansi" if ansi else "plain",
                                   ":other-output-differs" if split else "", ":empty-text" if text == "" else (":long-text" if len(text) > 1000 else ""))
        return report.viol(sig, "%s.%s(flags=%r) at verbosity %d quiet=%s ansi=%s: wrote=%s, gate says %s" % (
            kind, meth, flags, verbosity, quiet, ansi, wrote, should), case, should, {"wrote": wrote, "delta": [a[len(b):] if a.startswith(b) else a for a, b in zip(after, before)]})
    return None


def cases():
    out = []
    for kind, build in sorted(receiver_kinds().items()):
        for ansi in (True, False):
            recv, _, is_section = build(ansi)
            for meth, has_flags, _ in methods_of(recv):
                fl = FLAGS if has_flags else [None]
                prefills = [True, False] if is_section else [False]
                for v, f, q, pf in itertools.product(VERBOSITIES, fl, (False, True), prefills):
                    if meth == "clear" and not pf and not is_section:
                        continue
                    out.append([kind, ansi, meth, v, f, q, pf])
                    if hasattr(recv, "error_output") and meth != "clear":
                        out.append([kind, ansi, meth, v, f, q, pf, True])
                    if "line" in meth and not is_section:
                        # an empty line: the text is "" but a line break reaches the stream - gated like any other write
                        out.append([kind, ansi, meth, v, f, q, pf, False, ""])
                    if meth not in ("clear", "overwrite") and not pf and ansi and v in (0, 4):
                        # a very long message: gated like a short one
                        out.append([kind, ansi, meth, v, f, q, pf, False, "<long>"])
    return out


# ---- histories: the gate must be a function of the *current* settings --------------------------------
class HState(object):
    pass


class HistorySpec(object):
    """One output (plain receiver) or two sections of one decorated output; settings are changed between
    writes.  Every write carries a unique text: a gated-out text must never reach the stream, neither at
    once nor later (e.g. when another section redraws), an admitted one must reach it at once."""
    replay = True

    def __init__(self, kind, ansi):
        self.kind, self.ansi = kind, ansi

    def init(self):
        from clikit.api.io import Output
        from clikit.io.output_stream import BufferedOutputStream
        st = HState()

        class Flaky(BufferedOutputStream):
            fail_next = False

            def write(self, string):
                if self.fail_next:
                    self.fail_next = False
                    raise IOError("Broken pipe")
                return BufferedOutputStream.write(self, string)

        st.stream = Flaky()
        out = Output(st.stream, _formatter(self.ansi))
        st.parent = out
        if self.kind == "output":
            st.recv = [out]
        else:
            st.recv = [out.section(), out.section()]  # recv[0] is the older (upper) one
        # what the history has SET on each receiver (the accessors must keep reporting exactly this)
        st.mq = [False for _ in st.recv]
        st.mv = [0 for _ in st.recv]
        st.n = 0
        st.hidden = []
        st.seen = 0
        return st

    def ops(self, st, depth):
        out = []
        for i in range(len(st.recv)):
            out += [("quiet", i, 0), ("quiet", i, 1), ("verb", i, 0), ("verb", i, 2), ("verb", i, 4)]
            if self.kind == "output":
                out += [("verb", i, 1)]
                out += [("w", i, m, f) for m in ("write", "write_line_raw") for f in (None, 1, 2, 4)]
                # operations that are no settings: the formatter is replaced by one of the same kind, the stream by itself
                out += [("fmt", i), ("stream", i)]
                # one write fails at stream level (a transient I/O error); what follows is gated as before
                out += [("wfail", i)]
            else:
                out += [("w", i, "write_line", f) for f in (None, 2, 4)] + [("w", i, "overwrite", None), ("clear", i)]
        if self.kind != "output":
            # settings of the PARENT output the sections were taken from (they are not the sections' settings)
            out += [("pquiet", 0, 1), ("pquiet", 0, 0), ("pverb", 0, 4)]
        return out

    def key(self, st):
        from mc.fingerprint import canon

        def leaf(o):
            if o is st.stream:
                return "stream"
            if type(o).__name__ in ("AnsiFormatter", "PlainFormatter", "Terminal"):
                return type(o).__name__
            return None
        import re as _re
        c = canon([vars(r) for r in st.recv] + [st.parent.is_quiet(), st.parent.verbosity, st.mq, st.mv], leaf)
        return _re.sub(r"([mh])\d+", r"\1", repr(c))

    def apply(self, st, op):
        r = st.recv[op[1]]
        before = st.stream.fetch()
        text = None
        admitted = None
        try:
            if op[0] == "quiet":
                r.set_quiet(bool(op[2]))
                st.mq[op[1]] = bool(op[2])
            elif op[0] == "verb":
                r.set_verbosity(op[2])
                st.mv[op[1]] = op[2]
            elif op[0] == "pquiet":
                st.parent.set_quiet(bool(op[2]))
            elif op[0] == "pverb":
                st.parent.set_verbosity(op[2])
            elif op[0] == "fmt":
                r.set_formatter(_formatter(self.ansi))
            elif op[0] == "stream":
                r.set_stream(st.stream)
            elif op[0] == "wfail":
                if (not r.is_quiet()) and r.verbosity >= 0:
                    st.stream.fail_next = True
                    try:
                        r.write("lost in transit")
                    except IOError:
                        pass
                    st.stream.fail_next = False
            elif op[0] == "clear":
                r.clear()
            else:
                st.n += 1
                admitted = (not r.is_quiet()) and r.verbosity >= lowest_level(op[3])
                # admitted texts are named m<k>, gated-out ones h<k>: the fingerprint below erases the
                # counter but keeps the letter, so a state holding a gated-out text is never merged
                # with one holding an admitted text
                text = ("m%d" if admitted else "h%d") % st.n
                if op[2] == "overwrite":
                    r.overwrite(text)
                else:
                    getattr(r, op[2])(text, flags=op[3])
        except Exception as e:
            return [report.viol("crash:" + report.exc_site(e), "%r raised %r" % (op, e), None)]
        if op[0] in ("pquiet", "pverb"):
            # whether a section follows its parent's settings is not demanded either way: what the section REPORTS from now
            # on is what gates its writes
            st.mq = [bool(x.is_quiet()) for x in st.recv]
            st.mv = [x.verbosity for x in st.recv]
        for i, x in enumerate(st.recv):
            if (bool(x.is_quiet()), x.verbosity) != (st.mq[i], st.mv[i]):
                return [report.viol("history:setting-changed:%s.%s" % (self.kind, op[0] if op[0] != "w" else op[2]),
                                    "after %r receiver %d reports quiet=%r verbosity=%r, the history set quiet=%r verbosity=%r"
                                    % (op, i, x.is_quiet(), x.verbosity, st.mq[i], st.mv[i]), None, [st.mq[i], st.mv[i]],
                                    [bool(x.is_quiet()), x.verbosity])]
        delta = st.stream.fetch()[len(before):]
        if text is not None:
            if admitted and text not in delta:
                return [report.viol("history:lost:%s.%s" % (self.kind, op[2]), "%r was admitted by the current settings but %r did not reach the stream" % (op, text), None, True, delta)]
            if not admitted:
                st.hidden.append(text)
        for h in st.hidden:
            if h in delta:
                return [report.viol("history:leak:%s.%s" % (self.kind, op[0] if op[0] != "w" else op[2]),
                                    "text %r was gated out when written but reached the stream during %r" % (h, op), None, "", delta)]
        return []


def concurrent_writes(choices=None):
    """E3 (mc/sched.py): two threads write through ONE output at the same time, every interleaving at the granularity of source
    lines of api/io/output.py with at most one preemption: each admitted text reaches the stream, whatever the other thread does.
    -> (stats, violations) or, with `choices`, the violation of that one schedule"""
    from mc import sched
    from clikit.api.io import Output
    from clikit.io.output_stream import BufferedOutputStream
    methods = [("write_line", "first"), ("write", "second"), ("write_line_raw", "third")]
    pairs = [(0, 1), (1, 0), (0, 2), (2, 1)]

    def run(pi_, ch):
        stream = BufferedOutputStream()
        out = Output(stream, _formatter(False))
        a, b = pairs[pi_]
        thunks = [lambda m=methods[a]: getattr(out, m[0])(m[1]), lambda m=methods[b]: getattr(out, m[0])(m[1] + "!")]
        s_, got, exc, alive = sched.run_pair(ch, thunks, "api/io/output.py", horizon=20000)
        text = stream.fetch()
        case = {"concurrent": pi_, "choices": [p.chosen for p in s_.points]}
        vs = []
        crashed = [t.exc for t in s_.threads[1:3] if t.exc is not None]
        if s_.deadlock or s_.livelock or exc is not None or alive or crashed:
            vs.append(report.viol("concurrent:stuck-or-crash", "two concurrent writes did not both finish: %r" % ([s_.deadlock, s_.livelock, repr(exc), alive, [repr(c) for c in crashed]],), case))
        elif methods[a][1] not in text or methods[b][1] + "!" not in text:
            vs.append(report.viol("concurrent:lost:%s+%s" % (methods[a][0], methods[b][0]), "a text written while another thread wrote through the same "
                                  "(loud) output did not reach the stream", case, [methods[a][1], methods[b][1] + "!"], text))
        return s_.points, vs

    if choices is not None:
        return run(choices[0], choices[1])[1]
    execs, allv = 0, []
    for pi_ in range(len(pairs)):
        st, vs = sched.explore(lambda ch: run(pi_, ch), 1)
        execs += st["execs"]
        allv.extend(vs[:1])
    return execs, allv


def replay(case):
    if isinstance(case, dict) and "concurrent" in case:
        vs = concurrent_writes((case["concurrent"], case.get("choices") or []))
        return vs[0] if vs else None
    if isinstance(case, dict) and "history" in case:
        from mc import explore
        return explore.replay(HistorySpec(case["kind"], case["ansi"]), case)
    return run_case(case)


def main():
    rep = report.Report(PID, "exploration")
    cs = cases()

    def work(share):
        vs = []
        for c in share:
            v = run_case(c)
            if v:
                vs.append(v)
        return vs

    for vs in par.pmap(work, par.chunks(cs, common.ncpu() * 2)):
        rep.merge(vs)
    nsched, cv = concurrent_writes()
    rep.merge(cv)
    rep.part("concurrent-writes", schedules=nsched, preemption_bound=1, granularity="source lines of api/io/output.py",
             what="two threads writing through one output (write_line / write / write_line_raw in 4 pairings): both texts reach the stream")
    # monotonicity corollary, computed from the table itself: for fixed (kind, method, flags, ansi)
    # the set of (verbosity, loud) at which text is shown is upward closed -- follows from the gate
    # formula when every cell agrees with it, which is what was just checked.
    meths = sorted({(c[0], c[2]) for c in cs})
    rep.set("distinct_nontrivial", len([c for c in cs if c[4] not in (None, 0) or c[5]]))
    rep.set("entry_points", ["%s.%s" % m for m in meths])
    rep.set("exhaustive", True)
    rep.set("rule", "complete table: receiver kinds x methods found by reflection (write*/error*/overwrite/clear) x verbosity {0,1,2,4} "
                    "x flags {None,0..7} x quiet x ANSI/plain (x pre-filled or empty for sections); non-trivial = a flag word that names a level or quiet on. "
                    "Plus explicit-state BFS over histories of set_quiet/set_verbosity/write on one output and on two sections of one decorated output "
                    "(unique text per write; gated-out text must never reach the stream, admitted text must reach it at once)")
    for c in cs[:: max(1, len(cs) // 6)][:6]:
        rep.sample(c)
    from mc import explore
    hs = ht = 0
    for kind, depth in (("output", 5 if rep.tier == "quick" else 7), ("sections", 5 if rep.tier == "quick" else 6)):
        for ansi in ((True, False) if kind == "output" else (True,)):
            r = explore.explore(HistorySpec(kind, ansi), depth, split_depth=2)
            for v in r.violations:
                v["case"]["kind"], v["case"]["ansi"] = kind, ansi
            rep.merge(r.violations)
            rep.part("history/%s/%s" % (kind, "ansi" if ansi else "plain"), depth=depth, **r.as_dict())
            hs += r.states
            ht += r.transitions
            for smp in r.samples[:1]:
                rep.sample({"history": smp, "kind": kind})
    rep.set("history_states", hs)
    rep.set("history_transitions", ht)
    rep.set("evaluations", len(cs) + ht)
    rep.assume("a write 'reaches the stream' iff the BufferedOutputStream contents changed")
    rep.assume("sections do not inherit verbosity/quiet from their parent output: both are set on the receiver itself")
    return rep.finish()
