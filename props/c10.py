"""C10 - quiet and verbosity gate every write path identically.

E1, complete table: every public writing entry point found by reflection x receiver kind x
verbosity x flag word x quiet x ANSI/plain, executed on the real classes.
"""
import inspect
import itertools

from mc import common, par, report

PID = "C10"
VERBOSITIES = [0, 1, 2, 4]
FLAGS = [None, 0, 1, 2, 3, 4, 5, 6, 7]
import re
WRITERS = re.compile(r"^(write|error|overwrite$|clear$)")


def lowest_level(flags):
    f = flags or 0
    if f & 1:
        return 1
    if f & 2:
        return 2
    if f & 4:
        return 4
    return 0


def _formatter(ansi):
    from clikit.formatter import AnsiFormatter, PlainFormatter
    return AnsiFormatter(forced=True) if ansi else PlainFormatter()


def receiver_kinds():
    """name -> builder(ansi) returning (receiver, [streams it may write to], is_section)"""
    from clikit.api.io import IO, Input, Output
    from clikit.io import BufferedIO, NullIO
    from clikit.io.console_io import ConsoleIO
    from clikit.io.input_stream import StringInputStream
    from clikit.io.output_stream import BufferedOutputStream

    def out(ansi):
        s = BufferedOutputStream()
        return Output(s, _formatter(ansi)), [s], False

    def section(ansi):
        s = BufferedOutputStream()
        o = Output(s, _formatter(ansi))
        return o.section(), [s], True

    def second_section(ansi):
        s = BufferedOutputStream()
        o = Output(s, _formatter(ansi))
        first = o.section()
        sec = o.section()
        return first, [s], True  # a section with another one below it

    def bio(ansi):
        io = BufferedIO(formatter=_formatter(ansi))
        return io, [io.output.stream, io.error_output.stream], False

    def bio_section(ansi):
        io = BufferedIO(formatter=_formatter(ansi))
        sec = io.section()
        return sec, [io.output.stream, io.error_output.stream], True

    def plain_io(ansi):
        so, se = BufferedOutputStream(), BufferedOutputStream()
        io = IO(Input(StringInputStream("")), Output(so, _formatter(ansi)), Output(se, _formatter(ansi)))
        return io, [so, se], False

    def plain_io_section(ansi):
        so, se = BufferedOutputStream(), BufferedOutputStream()
        io = IO(Input(StringInputStream("")), Output(so, _formatter(ansi)), Output(se, _formatter(ansi)))
        return io.section(), [so, se], True

    def console_io(ansi):
        so, se = BufferedOutputStream(), BufferedOutputStream()
        io = ConsoleIO(Input(StringInputStream("")), Output(so, _formatter(ansi)), Output(se, _formatter(ansi)))
        return io, [so, se], False

    def console_io_section(ansi):
        so, se = BufferedOutputStream(), BufferedOutputStream()
        io = ConsoleIO(Input(StringInputStream("")), Output(so, _formatter(ansi)), Output(se, _formatter(ansi)))
        return io.section(), [so, se], True

    return dict(output=out, section=section, upper_section=second_section, buffered_io=bio,
                buffered_io_section=bio_section, io=plain_io, io_section=plain_io_section,
                console_io=console_io, console_io_section=console_io_section)


def methods_of(obj):
    out = []
    for name in sorted(dir(type(obj))):
        if name.startswith("_") or not WRITERS.match(name):
            continue
        fn = getattr(type(obj), name)
        if not callable(fn):
            continue
        params = list(inspect.signature(fn).parameters)
        out.append((name, "flags" in params, params))
    return out


def run_case(case):
    """case = [kind, ansi, method, verbosity, flags, quiet, prefill] -> violation or None"""
    kind, ansi, meth, verbosity, flags, quiet, prefill = case
    recv, streams, is_section = receiver_kinds()[kind](ansi)
    outs = [recv] if not hasattr(recv, "error_output") else [recv.output, recv.error_output]
    # sections are pre-filled (while loud) so that clear/overwrite have something to act on
    if prefill:
        for o in outs:
            o.set_verbosity(4)
            o.write_line("old")
    recv.set_verbosity(verbosity)
    recv.set_quiet(quiet)
    before = [s.fetch() for s in streams]
    fn = getattr(recv, meth)
    params = inspect.signature(fn).parameters
    try:
        if "flags" in params:
            fn("msg", flags=flags)
        elif meth == "clear":
            fn()
        else:
            fn("msg")
    except Exception as e:
        return report.viol("crash:" + report.exc_site(e), "%s.%s raised %r" % (kind, meth, e), case)
    after = [s.fetch() for s in streams]
    wrote = after != before
    should = (not quiet) and verbosity >= lowest_level(flags)
    if meth == "clear" and not (ansi and prefill):
        should = False  # nothing to clear / plain outputs ignore clear: must stay silent
    if wrote != should:
        side = "leak" if wrote else "lost"
        sig = "%s:%s.%s:%s" % (side, "section" if is_section else "plain-recv", meth, "ansi" if ansi else "plain")
        return report.viol(sig, "%s.%s(flags=%r) at verbosity %d quiet=%s ansi=%s: wrote=%s, gate says %s" % (
            kind, meth, flags, verbosity, quiet, ansi, wrote, should), case, should, {"wrote": wrote, "delta": [a[len(b):] if a.startswith(b) else a for a, b in zip(after, before)]})
    return None


def cases():
    out = []
    for kind, build in sorted(receiver_kinds().items()):
        for ansi in (True, False):
            recv, _, is_section = build(ansi)
            for meth, has_flags, _ in methods_of(recv):
                fl = FLAGS if has_flags else [None]
                prefills = [True, False] if is_section else [False]
                for v, f, q, pf in itertools.product(VERBOSITIES, fl, (False, True), prefills):
                    if meth == "clear" and not pf and not is_section:
                        continue
                    out.append([kind, ansi, meth, v, f, q, pf])
    return out


def replay(case):
    return run_case(case)


def main():
    rep = report.Report(PID, "exploration")
    cs = cases()

    def work(share):
        vs = []
        for c in share:
            v = run_case(c)
            if v:
                vs.append(v)
        return vs

    for vs in par.pmap(work, par.chunks(cs, common.ncpu() * 2)):
        rep.merge(vs)
    # monotonicity corollary, computed from the table itself: for fixed (kind, method, flags, ansi)
    # the set of (verbosity, loud) at which text is shown is upward closed -- follows from the gate
    # formula when every cell agrees with it, which is what was just checked.
    meths = sorted({(c[0], c[2]) for c in cs})
    rep.set("evaluations", len(cs))
    rep.set("distinct_nontrivial", len([c for c in cs if c[4] not in (None, 0) or c[5]]))
    rep.set("entry_points", ["%s.%s" % m for m in meths])
    rep.set("exhaustive", True)
    rep.set("rule", "complete table: receiver kinds x methods found by reflection (write*/error*/overwrite/clear) x verbosity {0,1,2,4} "
                    "x flags {None,0..7} x quiet x ANSI/plain (x pre-filled or empty for sections); non-trivial = a flag word that names a level or quiet on")
    for c in cs[:: max(1, len(cs) // 6)][:6]:
        rep.sample(c)
    rep.assume("a write 'reaches the stream' iff the BufferedOutputStream contents changed")
    rep.assume("sections do not inherit verbosity/quiet from their parent output: both are set on the receiver itself")
    return rep.finish()
