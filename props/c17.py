"""C17 - what is rendered does not depend on what was processed before.

E2 without dedup (no sound full fingerprint of an application exists, so the depth IS the bound).
Four parts, every case executed on the real clikit code:

1. histories   one ConsoleApplication (DefaultApplicationConfig, exceptions caught, no exit) over EVERY sequence of
               command lines up to the depth bound; the judged observation of the last run
               (status, stdout, stderr, handler invocation record, raw tokens after the run) must equal what a
               freshly built application gives for that line.  Three modes: default parsers / all commands share one
               args parser (Config.set_args_parser) / the caller passes the same RawArgs object again.
2. components  every UI component rendered on every sequence of IO kinds (plain, ANSI, no UTF-8, narrow, verbose,
               debug, debug without UTF-8) on the SAME object, on one IO object twice, and a second object after a
               first one; each render must equal the render of a fresh object in a fresh process.
               BlockLayout: a layout used again after a render must lay out new content like a fresh layout.
3. styles      all construction orders of the four predefined table styles (every ordered subset), plus customising one
               style before/after the others are built, each scenario in a FRESH `python -c` sub-process (class-level
               singletons are the subject); a style's table must equal the table of the sub-process in which only that
               style was ever built.

Isolation: the checking process itself never executes clikit UI/application code; every case runs in a forked child
(or a sub-process for part 3), so class-level state (snippet cache, border-style singletons) is pristine at the start of
every case and the recorded case is sufficient to reproduce the failure.

Signatures: of all violating sequences only the *minimal* ones (no proper subsequence ending in the same element
violates the same way) are reported; sig = judged element + a summary of what differs.

Not demanded (statement silent / by design):
 * rendering a BlockLayout twice (render() deliberately consumes its elements); only reuse-after-render is judged;
 * ProgressBar / ProgressIndicator / Question (stateful by purpose, owned by C16/C18/C19);
 * what the output of a line IS (C01..C13 own that) - only that it is the same as on a fresh application;
 * the customised style itself may of course render differently.
"""
import itertools
import json
import os
import pickle
import subprocess
import sys
import traceback

from mc import common, par, report

PID = "C17"
_TAINTED = False  # set in any process that executed clikit application / rendering code


def pre_import():
    os.environ["COLUMNS"] = "80"
    os.environ["LINES"] = "25"


# ------------------------------------------------------------------------------------------------
# process isolation
# ------------------------------------------------------------------------------------------------
def forked(fn, *a):
    """Run fn(*a) in a forked child of a process that never ran clikit code itself; return its result."""
    if _TAINTED:
        raise RuntimeError("engine error: forking from a process that already executed clikit code")
    r, w = os.pipe()
    pid = os.fork()
    if pid == 0:
        code = 0
        try:
            os.close(r)
            try:
                res = (True, fn(*a))
            except BaseException:
                res = (False, traceback.format_exc())
            with os.fdopen(w, "wb") as f:
                pickle.dump(res, f, 2)
        except BaseException:
            code = 3
        finally:
            os._exit(code)
    os.close(w)
    with os.fdopen(r, "rb") as f:
        data = f.read()
    os.waitpid(pid, 0)
    if not data:
        raise RuntimeError("engine error: forked child died without a result")
    ok, res = pickle.loads(data)
    if not ok:
        raise RuntimeError("engine error in forked child:\n" + res)
    return res


def _taint():
    global _TAINTED
    _TAINTED = True


def subsequences_same_last(h):
    """all proper subsequences of h that keep the last element (shortest first)"""
    body, last = h[:-1], h[-1]
    for k in range(0, len(body)):
        for idx in itertools.combinations(range(len(body)), k):
            yield tuple(body[i] for i in idx) + (last,)


def minimal(viol_map):
    """viol_map: sequence(tuple) -> diff summary.  Keep the sequences none of whose proper subsequences (same last
    element) violates with the same summary.  Sound because every shorter sequence over the alphabet was enumerated."""
    out = []
    for h in sorted(viol_map, key=lambda x: (len(x), x)):
        d = viol_map[h]
        if any(viol_map.get(g) == d for g in subsequences_same_last(h)):
            continue
        out.append(h)
    return out


def textclass(s):
    """short stable description of a text: its first non-empty line without SGR codes and digits"""
    import re
    s = re.sub("\x1b\\[[0-9;]*m", "", s)
    for line in s.split("\n"):
        if line.strip():
            return re.sub("[0-9]+", "#", line.strip())[:28]
    return "<empty>"


# ------------------------------------------------------------------------------------------------
# part 1: histories on one application
# ------------------------------------------------------------------------------------------------
# name -> (command line, streams support UTF-8)
LINES = {
    "valid": ("foo a -o", True),
    "bad-option": ("foo --nope", True),
    "too-many": ("foo a b", True),
    "help": ("help", True),
    "help-foo": ("help foo", True),
    "help-len": ("help len", True),
    "foo-h": ("foo -h", True),
    "version": ("-V", True),
    "unknown": ("nope", True),
    "len-surplus": ("len a b c", True),
    "raise-vvv": ("bad -vvv", True),
    "sub": ("top sub y", True),
    "raise-vvv-ascii": ("bad -vvv", False),
    # spares: VERIF_SEED rotates exactly one of them into the alphabets
    "valid-ansi": ("foo a --ansi", True),
    "help-top": ("help top", True),
    "top-h": ("top sub -h", True),
    "len-h": ("len -h", True),
    "valid-quiet": ("foo a -q", True),
    "top": ("top", True),
}
CORE = ["valid", "bad-option", "too-many", "help", "help-foo", "help-len", "foo-h", "version", "unknown",
        "len-surplus", "raise-vvv", "sub", "raise-vvv-ascii"]
CORE_REDUCED = ["valid", "too-many", "help-len", "foo-h", "version", "len-surplus", "raise-vvv"]
REDUCED_ROT = ["bad-option", "help-foo", "unknown", "sub", "raise-vvv-ascii", "help"]
SPARES = ["valid-ansi", "help-top", "top-h", "len-h", "valid-quiet", "top"]
MODES = ["default", "reused-args", "shared-parser"]
REC = []


def _handler(name, status=0, raises=False):
    from clikit.handler.callback_handler import CallbackHandler

    def cb(args, io):
        REC.append([name, dict(args.arguments()), dict(args.options()), list(args.raw_args.tokens),
                    [io.is_verbose(), io.is_very_verbose(), io.is_debug(), io.is_quiet(), io.is_interactive(),
                     type(io.output.formatter).__name__, io.supports_utf8()]])
        io.write_line("%s <b>out</b>" % name)
        io.error_line("%s <b>err</b>" % name)
        if raises:
            raise RuntimeError("boom in %s" % name)
        return status

    return CallbackHandler(cb)


def build_app(mode):
    _taint()
    from clikit import ConsoleApplication
    from clikit.api.args.format import Argument, Option
    from clikit.args.default_args_parser import DefaultArgsParser
    from clikit.config import DefaultApplicationConfig

    c = DefaultApplicationConfig("app", "1.2.3")
    c.set_catch_exceptions(True)
    c.set_terminate_after_run(False)
    with c.command("foo") as f:  # strict: one argument + one option
        f.set_description("The foo command")
        f.add_argument("arg", Argument.OPTIONAL, "An argument")
        f.add_option("opt", "o", Option.NO_VALUE, "An option")
        f.set_handler(_handler("foo"))
    with c.command("len") as f:  # lenient: surplus arguments are accepted
        f.set_description("A lenient command")
        f.add_argument("arg", Argument.OPTIONAL, "An argument")
        f.add_option("opt", "o", Option.NO_VALUE, "An option")
        f.enable_lenient_args_parsing()
        f.set_handler(_handler("len"))
    with c.command("top") as f:  # has a sub-command
        f.set_description("A command with a sub-command")
        f.set_handler(_handler("top", 2))
        with f.sub_command("sub") as s:
            s.set_description("The sub-command")
            s.add_argument("x", Argument.OPTIONAL, "An argument")
            s.set_handler(_handler("top sub", 3))
    with c.command("bad") as f:  # handler raises at any verbosity
        f.set_description("A command whose handler raises")
        f.set_handler(_handler("bad", raises=True))
    if mode == "shared-parser":
        p = DefaultArgsParser()
        for cc in c.command_configs:  # includes the built-in help command
            cc.set_args_parser(p)
            for sc in cc.sub_command_configs:
                sc.set_args_parser(p)
    return ConsoleApplication(c)


def run_line(app, name, argobjs=None):
    """one run -> [status, stdout, stderr, handler record, raw tokens after the run]"""
    from clikit.args import StringArgs
    from clikit.io.input_stream import StringInputStream
    from clikit.io.output_stream import BufferedOutputStream

    line, utf8 = LINES[name]
    if argobjs is None:
        args = StringArgs(line)
    else:
        args = argobjs.get(name)
        if args is None:
            args = argobjs[name] = StringArgs(line)
    del REC[:]
    o, e = BufferedOutputStream(supports_utf8=utf8), BufferedOutputStream(supports_utf8=utf8)
    try:
        st = app.run(args, StringInputStream(""), o, e)
    except BaseException as ex:  # exceptions are caught by the application: anything arriving here is a crash
        st = "crash:" + report.exc_site(ex)
    rec = [list(r) for r in REC]
    del REC[:]
    return [st, o.fetch(), e.fetch(), rec, list(args.tokens)]


def run_history(mode, hist):
    """fresh application, all lines of hist in order; returns the observation of the LAST run"""
    app = build_app(mode)
    argobjs = {} if mode == "reused-args" else None
    obs = None
    for name in hist:
        obs = run_line(app, name, argobjs)
    return obs


def diff_summary(exp, obs):
    parts = []
    es, eo, ee, er, et = exp
    os_, oo, oe, orr, ot = obs
    if isinstance(os_, str) and os_ != es:
        parts.append(os_)
    if er != orr:
        if len(er) != len(orr):
            parts.append("handler-calls %d->%d" % (len(er), len(orr)))
        else:
            for a, b in zip(er, orr):
                if a[0] != b[0]:
                    parts.append("handler %s->%s" % (a[0], b[0]))
                    continue
                for field, i in (("arguments", 1), ("options", 2)):
                    if a[i] != b[i]:
                        keys = sorted(k for k in set(a[i]) | set(b[i]) if a[i].get(k, "<unset>") != b[i].get(k, "<unset>"))
                        parts.append("%s[%s]" % (field, ",".join(keys)))
                if a[3] != b[3]:
                    parts.append("raw-tokens")
                if a[4] != b[4]:
                    parts.append("io-seen-by-handler")
    if es != os_ and not isinstance(os_, str):
        parts.append("status %s->%s" % (es, os_))
    if eo != oo:
        parts.append("stdout~" + textclass(oo))
    if ee != oe:
        parts.append("stderr~" + textclass(oe))
    if et != ot and not parts:
        parts.append("tokens-after-run")
    return ",".join(parts)


def history_share(job):
    """worker: job = (mode, expected{name: obs}, [histories]) -> [(hist, summary)], runs"""
    mode, expected, hists = job
    out = []
    runs = 0
    for h in hists:
        obs = forked(run_history, mode, h)
        runs += len(h)
        exp = expected[h[-1]]
        if obs != exp:
            out.append((h, diff_summary(exp, obs) or "differs"))
    return out, runs


def expected_for(mode, names):
    """fresh application, fresh process, one line: the reference observation; computed twice (determinism probe)"""
    exp = {}
    for n in names:
        a = forked(run_history, mode, (n,))
        b = forked(run_history, mode, (n,))
        if a != b:
            raise RuntimeError("engine error: line %r is not deterministic on a fresh application" % n)
        exp[n] = a
    return exp


def history_case(mode, h):
    return {"part": "history", "mode": mode, "history": list(h), "lines": [LINES[n][0] for n in h]}


def check_history_case(case):
    mode, h = case["mode"], tuple(case["history"])
    exp = forked(run_history, mode, (h[-1],))
    obs = forked(run_history, mode, h)
    if obs != exp:
        return exp, obs, diff_summary(exp, obs) or "differs"
    return None


def explore_histories(rep, tag, alphabet, depth, modes):
    workers = common.ncpu()
    tot_hist = tot_runs = nontrivial = 0
    base_viol = {}
    for mode in modes:
        exp = expected_for(mode, alphabet)
        touching = {n for n in alphabet if exp[n][0] != 0 or "help" in n or n.endswith("-h")}
        viol_map = {}
        n_hist = 0
        for k in range(1, depth + 1):
            hs = list(itertools.product(alphabet, repeat=k))
            n_hist += len(hs)
            nontrivial += sum(1 for h in hs if any(x in touching for x in h[:-1]))
            jobs = [(mode, exp, share) for share in par.chunks(hs, workers * 4)]
            for vs, runs in par.pmap(history_share, jobs):
                tot_runs += runs
                for h, d in vs:
                    viol_map[h] = d
        tot_hist += n_hist
        if mode == "default":
            base_viol = viol_map
        mins = minimal(viol_map)
        for h in mins:
            d = viol_map[h]
            mtag = "" if mode == "default" or base_viol.get(h) == d else mode + ":"
            sig = "history:%s%s:%s" % (mtag, h[-1], d)
            if sig in rep.violations:
                continue
            case = history_case(mode, h)
            got = check_history_case(case)
            if got is None:
                raise RuntimeError("engine error: violating history %r does not reproduce" % (h,))
            e, o, _ = got
            rep.violation(report.viol(sig, "after %s the line %r gives [%s] instead of what a fresh application gives" % (
                " ; ".join(repr(LINES[n][0]) for n in h[:-1]) or "nothing", LINES[h[-1]][0], d), case, _brief(e), _brief(o)))
        rep.part("histories/%s/%s" % (tag, mode), alphabet=list(alphabet), depth=depth, histories=n_hist,
                 violating_histories=len(viol_map), minimal_violating=len(mins))
    return tot_hist, tot_runs, nontrivial


def _brief(obs):
    st, o, e, rec, toks = obs
    return {"status": st, "stdout": o[:300], "stderr": e[:120], "handler": rec, "tokens_after": toks}


# ------------------------------------------------------------------------------------------------
# part 2: components
# ------------------------------------------------------------------------------------------------
IOKINDS = {  # name -> (ansi, utf8, width, verbosity)
    "plain": (False, True, 80, 0),
    "ansi": (True, True, 80, 0),
    "ascii": (False, False, 80, 0),
    "narrow": (False, True, 34, 0),
    "verbose": (False, True, 80, 1),
    "debug": (False, True, 80, 4),
    "ascii-debug": (False, False, 80, 4),
}
IO_BASIC = ["plain", "ansi", "ascii", "narrow"]
IO_ALL = ["plain", "ansi", "ascii", "narrow", "verbose", "debug", "ascii-debug"]


def make_io(kind):
    from clikit.formatter import AnsiFormatter, PlainFormatter
    from clikit.io import BufferedIO
    from clikit.ui.rectangle import Rectangle

    ansi, utf8, width, verbosity = IOKINDS[kind]
    io = BufferedIO(formatter=AnsiFormatter(forced=True) if ansi else PlainFormatter(), supports_utf8=utf8)
    io.set_terminal_dimensions(Rectangle(width, 25))
    io.set_verbosity(verbosity)
    return io


def _f_inner(n):
    if n <= 0:
        raise ValueError("inner failure with value %d" % (n + 42))
    return _f_inner(n - 1)


def _f_middle(n):
    x = [1, 2, 3]  # a line with a number, a string and a keyword for the highlighter
    return _f_inner(n) if x else "never"


def _f_outer(n):
    return _f_middle(n)


def _caught(n):
    try:
        _f_outer(n)
    except ValueError as e:
        return e


def _caught_via_clikit():
    """a failure whose trace passes through a clikit frame (callback_handler.py), for ignore_files_in"""
    from clikit.handler.callback_handler import CallbackHandler
    try:
        CallbackHandler(lambda args, io: _f_outer(1)).handle(None, None, None)
    except ValueError as e:
        return e


TABLE_CONTENT = {
    "short": (["ISBN", "Title", "Author"], [["99921-58-10-7", "Divine Comedy", "Dante Alighieri"],
                                            ["9971-5-0210-0", "A Tale of Two Cities", "Charles Dickens"]]),
    "wrap": (["Id", "Text"], [["1", "a fairly long cell text that has to be wrapped over several lines when the terminal is narrow or even when it is not so narrow at all"],
                              ["22", "zz top"]]),
    "nohdr": (None, [["b", "2"], ["a", "1"], ["c", "3"]]),
    "tags": (["<b>Key</b>", "Value"], [["<c1>one</c1>", "two\nlines"], ["three", "<u>four</u>"]]),
}
STYLES = ["ascii", "solid", "borderless", "compact"]


def factories():
    """name -> (group, builder() -> (object, render kwargs), io kinds)"""
    _taint()
    from clikit.ui.components import EmptyLine, ExceptionTrace, LabeledParagraph, NameVersion, Paragraph, Table
    from clikit.ui.help import ApplicationHelp, CommandHelp
    from clikit.ui.style import TableStyle
    from clikit.ui.alignment import LabelAlignment
    from clikit.api.config.application_config import ApplicationConfig

    F = {}

    def table(style, content):
        def b():
            t = Table(getattr(TableStyle, style)() if style else None)
            hdr, rows = TABLE_CONTENT[content]
            if hdr:
                t.set_header_row(list(hdr))
            t.add_rows([list(r) for r in rows])
            return t, {}
        return b

    for st in STYLES + [None]:
        for cn in sorted(TABLE_CONTENT):
            F["table/%s/%s" % (st or "default", cn)] = ("Table/%s" % (st or "default"), table(st, cn), IO_BASIC)
    long_text = "Lorem ipsum dolor sit amet, <b>consetetur</b> sadipscing elitr, sed diam nonumy eirmod tempor invidunt ut labore et dolore magna aliquyam erat"
    F["paragraph/short"] = ("Paragraph", lambda: (Paragraph("A <b>short</b> text"), {}), IO_BASIC)
    F["paragraph/long"] = ("Paragraph", lambda: (Paragraph(long_text), {"indentation": 4}), IO_BASIC)
    F["labeled/plain"] = ("LabeledParagraph", lambda: (LabeledParagraph("<c1>--opt</c1> (-o)", long_text), {}), IO_BASIC)
    F["labeled/unaligned"] = ("LabeledParagraph", lambda: (LabeledParagraph("label", "text", 1, False), {"indentation": 2}), IO_BASIC)

    def aligned():
        p = LabeledParagraph("x", long_text)
        q = LabeledParagraph("a-longer-label", "other")
        al = LabelAlignment()
        al.add(p, 2)
        al.add(q, 2)
        p.set_alignment(al)

        class Aligned(object):  # aligning is part of rendering an aligned paragraph (as BlockLayout.render does)
            def render(self, io, indentation=0):
                al.align(io, indentation)
                p.render(io, 2 + indentation)
        return Aligned(), {}

    F["labeled/aligned"] = ("LabeledParagraph", aligned, IO_BASIC)
    F["emptyline"] = ("EmptyLine", lambda: (EmptyLine(), {}), ["plain", "ansi"])
    F["nameversion/full"] = ("NameVersion", lambda: (NameVersion(ApplicationConfig("app", "1.2.3")), {}), IO_BASIC)
    F["nameversion/bare"] = ("NameVersion", lambda: (NameVersion(ApplicationConfig()), {}), ["plain", "ansi"])
    F["help/application"] = ("ApplicationHelp", lambda: (ApplicationHelp(build_app("default")), {}), IO_BASIC)
    for cmd in ("foo", "len", "top", "help"):
        F["help/command/" + cmd] = ("CommandHelp", (lambda cmd=cmd: (CommandHelp(build_app("default").get_command(cmd)), {})), IO_BASIC)
    F["help/command/top sub"] = ("CommandHelp", lambda: (CommandHelp(build_app("default").get_command("top").get_sub_command("sub")), {}), IO_BASIC)
    F["trace/full"] = ("ExceptionTrace", lambda: (ExceptionTrace(_caught(0)), {}), IO_ALL)
    F["trace/recursive"] = ("ExceptionTrace", lambda: (ExceptionTrace(_caught(5)), {}), IO_ALL)
    F["trace/simple"] = ("ExceptionTrace", lambda: (ExceptionTrace(_caught(0)), {"simple": True}), ["plain", "ansi", "ascii-debug"])
    F["trace/ignoring"] = ("ExceptionTrace", lambda: (ExceptionTrace(_caught_via_clikit()).ignore_files_in(".*callback_handler.*"), {}), IO_ALL)
    return F


FACTORY_IOS = None


def factory_table():
    """name -> (group, io kinds) computed once in a child (building the table imports and runs clikit code)"""
    global FACTORY_IOS
    if FACTORY_IOS is None:
        FACTORY_IOS = forked(lambda: {k: (v[0], v[2]) for k, v in factories().items()})
    return FACTORY_IOS


def _render(obj, kw, io):
    obj.render(io, **kw)
    out = [io.fetch_output(), io.fetch_error()]
    io.clear_output()
    io.clear_error()
    return out


def run_component(case):
    """Executes one component scenario in this (child) process and returns the judged render.
    case kinds:  seq  {factory, ios:[...]}          same object on a new IO of each kind in turn; judged = last
                 same-io {factory, io}              one object twice on ONE io object; returns both renders
                 pair {first, first_io, factory, io}  another object rendered first; judged = the second object
    """
    F = factories()
    kind = case["kind"]
    if kind == "seq":
        obj, kw = F[case["factory"]][1]()
        out = None
        for k in case["ios"]:
            out = _render(obj, kw, make_io(k))
        return out
    if kind == "same-io":
        obj, kw = F[case["factory"]][1]()
        io = make_io(case["io"])
        a = _render(obj, kw, io)
        b = _render(obj, kw, io)
        return [a, b]
    if kind == "pair":
        o1, kw1 = F[case["first"]][1]()
        _render(o1, kw1, make_io(case["first_io"]))
        o2, kw2 = F[case["factory"]][1]()
        return _render(o2, kw2, make_io(case["io"]))
    raise ValueError(kind)


def component_ref(fname, io):
    return forked(run_component, {"kind": "seq", "factory": fname, "ios": [io]})


def component_share(job):
    refs, cases = job
    out = []
    for c in cases:
        try:
            got = forked(run_component, c)
        except RuntimeError as e:  # the component raised in the child
            got = ["crash", str(e).strip().split("\n")[-1]]
        ref = refs[(c["factory"], c["ios"][-1] if c["kind"] == "seq" else c["io"])]
        if c["kind"] == "same-io":
            ok = got == [ref, ref]
        else:
            ok = got == ref
        if not ok:
            out.append((c, ref, got))
    return out, len(cases)


def check_component_case(case):
    io = case["ios"][-1] if case["kind"] == "seq" else case["io"]
    ref = component_ref(case["factory"], io)
    try:
        got = forked(run_component, case)
    except RuntimeError as e:
        got = ["crash", str(e).strip().split("\n")[-1]]
    ok = got == ([ref, ref] if case["kind"] == "same-io" else ref)
    return None if ok else (ref, got)


def explore_components(rep, seq_depth, pair_ios):
    FT = factory_table()
    names = sorted(FT)
    workers = common.ncpu()
    refs = {}
    for (f, io), r in zip([(f, io) for f in names for io in FT[f][1]],
                          par.pmap(lambda x: component_ref(*x), [(f, io) for f in names for io in FT[f][1]])):
        refs[(f, io)] = r
    # determinism probe of the references themselves
    for f in names:
        if component_ref(f, FT[f][1][0]) != refs[(f, FT[f][1][0])]:
            raise RuntimeError("engine error: fresh render of %s is not deterministic" % f)
    cases = []
    for f in names:
        ios = FT[f][1]
        for k in range(2, seq_depth + 1):
            for s in itertools.product(ios, repeat=k):
                cases.append({"kind": "seq", "factory": f, "ios": list(s)})
        for io in ios:
            cases.append({"kind": "same-io", "factory": f, "io": io})
    n_seq = len(cases)
    for f1 in names:
        for f2 in names:
            g1, g2 = FT[f1][0], FT[f2][0]
            both_trace = g1 == "ExceptionTrace" and g2 == "ExceptionTrace"
            for io1 in FT[f1][1]:
                for io2 in FT[f2][1]:
                    if both_trace or (io1 in pair_ios and io2 in pair_ios):
                        cases.append({"kind": "pair", "first": f1, "first_io": io1, "factory": f2, "io": io2})
    cases.sort(key=lambda c: (len(c.get("ios", [0, 0])), 0))  # stable: shorter sequences first
    bad = []
    jobs = [(refs, share) for share in par.chunks(cases, workers * 4)]
    n = 0
    for vs, cnt in par.pmap(component_share, jobs):
        bad.extend(vs)
        n += cnt
    # minimal sequences per factory; one signature per (group, minimal io sequence)
    seq_viol = {}
    for c, ref, got in bad:
        if c["kind"] == "seq":
            seq_viol.setdefault(c["factory"], {})[tuple(c["ios"])] = "differs"
    keep = []
    seq_min = {f: set(minimal(vm)) for f, vm in seq_viol.items()}
    for c, ref, got in bad:
        g = FT[c["factory"]][0]
        if c["kind"] == "seq":
            if tuple(c["ios"]) not in seq_min[c["factory"]]:
                continue
            sig = "component:%s:%s" % (g.split("/")[0], ">".join(c["ios"]))
            what = "%s rendered on %s differs from a fresh object's render on %s" % (c["factory"], " then ".join(c["ios"]), c["ios"][-1])
        elif c["kind"] == "same-io":
            sig = "component-twice:%s:%s" % (g.split("/")[0], c["io"])
            what = "%s rendered twice on one %s IO: outputs differ from the fresh render" % (c["factory"], c["io"])
        else:
            sig = "other-object:%s:after:%s" % (g, FT[c["first"]][0])
            if g == "ExceptionTrace":
                sig += ":%s>%s" % (c["first_io"], c["io"])
            what = "%s on %s, after %s had been rendered on %s in the same process, differs from its render in a fresh process" % (
                c["factory"], c["io"], c["first"], c["first_io"])
        keep.append((len(json.dumps(c)), sig, what, c, ref, got))
    for _, sig, what, c, ref, got in sorted(keep, key=lambda x: (x[0], x[1], json.dumps(x[3], sort_keys=True))):
        rep.violation(report.viol(sig, what, dict(c, part="component"), _clip(ref), _clip(got)))
    rep.part("components", factories=len(names), sequence_depth=seq_depth, sequence_and_twice_cases=n_seq,
             pair_cases=len(cases) - n_seq, violating=len(bad))
    nontriv = sum(1 for c in cases if c["kind"] != "seq" or len(set(c["ios"])) > 1)
    return n, nontriv, cases


def _clip(x):
    if isinstance(x, list):
        return [_clip(y) for y in x]
    if isinstance(x, str) and len(x) > 400:
        return x[:400] + "..."
    return x


# ---- BlockLayout reuse ---------------------------------------------------------------------------
BATCHES = {  # name -> [(block depth, kind, label, text)]
    "para": [(0, "p", None, "Heading")],
    "deep-label": [(1, "l", "a-long-label", "text one")],
    "mixed": [(0, "p", None, "USAGE"), (1, "l", "b", "text two"), (2, "l", "cc", "text three")],
    "label-first": [(0, "l", "dd", "text four"), (2, "p", None, "deep paragraph")],
}


def run_layout(seq):
    _taint()
    from clikit.ui.components import LabeledParagraph, Paragraph
    from clikit.ui.layout import BlockLayout

    layout = BlockLayout()
    out = None
    for name in seq:
        for depth, kind, label, text in BATCHES[name]:
            el = Paragraph(text) if kind == "p" else LabeledParagraph(label, text)
            if depth == 0:
                layout.add(el)
            elif depth == 1:
                with layout.block():
                    layout.add(el)
            else:
                with layout.block():
                    with layout.block():
                        layout.add(el)
        io = make_io("plain")
        layout.render(io)
        out = io.fetch_output()
    return out


def layout_share(seqs):
    out = []
    for s in seqs:
        got = forked(run_layout, s)
        ref = forked(run_layout, s[-1:])
        if got != ref:
            out.append((s, ref, got))
    return out, len(seqs)


def layout_diffclass(ref, got):
    import re
    a, b = ref.split("\n"), got.split("\n")
    if [x.lstrip() for x in a] == [x.lstrip() for x in b]:
        return "indentation"
    if [re.sub(" +", " ", x.strip()) for x in a] == [re.sub(" +", " ", x.strip()) for x in b]:
        return "alignment"
    return "content"


def explore_layout(rep, depth):
    names = sorted(BATCHES)
    seqs = [s for k in range(2, depth + 1) for s in itertools.product(names, repeat=k)]
    bad = []
    n = 0
    for vs, cnt in par.pmap(layout_share, par.chunks(seqs, common.ncpu() * 2)):
        bad.extend(vs)
        n += cnt
    vm = {tuple(s): layout_diffclass(ref, got) for s, ref, got in bad}
    mins = set(minimal(vm))
    for s, ref, got in sorted(bad, key=lambda x: (len(x[0]), x[0])):
        if tuple(s) in mins:
            rep.violation(report.viol("layout-reuse:BlockLayout:" + vm[tuple(s)],
                                      "a BlockLayout used again after render() lays out the batch %r differently from a fresh layout (earlier batches: %r)" % (s[-1], list(s[:-1])),
                                      {"part": "layout", "batches": list(s)}, ref, got))
    rep.part("layout", batches=names, depth=depth, sequences=len(seqs), violating=len(bad))
    return n


# ------------------------------------------------------------------------------------------------
# part 3: table styles in fresh sub-processes
# ------------------------------------------------------------------------------------------------
CHILD = r'''
import json, os, sys
os.environ["COLUMNS"] = "80"
sys.path.insert(0, sys.argv[1])
steps = json.loads(sys.argv[2])
import clikit
assert os.path.realpath(os.path.dirname(clikit.__file__)) == os.path.realpath(os.path.join(sys.argv[1], "clikit")), clikit.__file__
from clikit.api.formatter import Style
from clikit.io import BufferedIO
from clikit.ui.components.table import Table
from clikit.ui.style.alignment import Alignment
from clikit.ui.style.table_style import TableStyle
styles, out = [], []
for step in steps:
    op, x = step[0], step[1]
    if op == "build":
        styles.append((x, getattr(TableStyle, x)()))
    elif op == "custom-own":       # attributes of the TableStyle object itself
        st = styles[x][1]
        st.padding_char = "."
        st.cell_format = "[{}]"
        st.header_cell_format = "({})"
        st.set_column_alignment(1, Alignment.RIGHT)
        st.default_column_alignment = Alignment.CENTER
        st.cell_style = Style().bold()
    elif op == "custom-border":    # the border of that style object
        b = styles[x][1].border_style
        b.line_vc_char = "!"
        b.line_vl_char = "!"
        b.line_hc_char = "~"
        b.line_ht_char = "~"
        b.crossing_c_char = "#"
        b.corner_tl_char = "*"
    elif op == "render":
        t = Table(styles[x][1])
        t.set_header_row(["ISBN", "Title", "Author"])
        t.add_rows([["99921-58-10-7", "Divine Comedy", "Dante Alighieri"], ["9971-5-0210-0", "A Tale of Two Cities", "Charles Dickens"]])
        io = BufferedIO()
        t.render(io)
        out.append([x, styles[x][0], io.fetch_output()])
    elif op == "render-default":   # Table() without an explicit style
        t = Table()
        t.set_header_row(["ISBN", "Title"])
        t.add_rows([["99921-58-10-7", "Divine Comedy"]])
        io = BufferedIO()
        t.render(io)
        out.append([-1, "default", io.fetch_output()])
sys.stdout.write(json.dumps(out))
'''


def run_style_child(steps):
    env = dict(os.environ, PYTHONHASHSEED="0", PYTHONDONTWRITEBYTECODE="1", COLUMNS="80")
    r = subprocess.run([sys.executable, "-B", "-c", CHILD, common.SRC, json.dumps(steps)], capture_output=True, text=True, env=env)
    if r.returncode != 0:
        return ["crash", r.stderr.strip().split("\n")[-1][:300]]
    return json.loads(r.stdout)


def style_scenarios():
    sc = []  # (kind, steps, label)
    for k in range(2, 5):
        for order in itertools.permutations(STYLES, k):
            builds = [["build", n] for n in order]
            sc.append(("create", builds + [["render", i] for i in range(k)], list(order)))
            inter = []
            for i, n in enumerate(order):
                inter += [["build", n], ["render", i]]
            sc.append(("create", inter + [["render", i] for i in range(k)], list(order)))
    for cust in ("custom-own", "custom-border"):
        for c in STYLES:
            for order in itertools.permutations(STYLES, 4):  # customise first, then build the others (and a new one of the same kind)
                steps = [["build", c], [cust, 0]] + [["build", n] for n in order] + [["render", i + 1] for i in range(4)] + [["render-default", 0]]
                sc.append((cust + ":" + c, steps, [c + "*"] + list(order)))
        for order in itertools.permutations(STYLES, 4):      # build all, then customise one of them
            for j in range(4):
                steps = [["build", n] for n in order] + [[cust, j]] + [["render", i] for i in range(4) if i != j] + [["render-default", 0]]
                sc.append((cust + ":" + order[j], steps, list(order) + ["customise " + order[j]]))
    return sc


def style_refs():
    refs = {}
    for n in STYLES:
        a = run_style_child([["build", n], ["render", 0], ["render", 0]])
        if a[0] == "crash" or a[0][2] != a[1][2]:
            raise RuntimeError("engine error / solo style %s unstable: %r" % (n, a))
        refs[n] = a[0][2]
    d = run_style_child([["render-default", 0]])
    refs["default"] = d[0][2]
    return refs


def style_share(job):
    refs, scs = job
    out = []
    for kind, steps, label in scs:
        got = run_style_child(steps)
        if got and got[0] == "crash":
            out.append((kind, steps, label, "crash", None, got[1]))
            continue
        for idx, name, text in got:
            if text != refs[name]:
                out.append((kind, steps, label, name, refs[name], text))
                break
    return out, len(scs)


def explore_styles(rep):
    refs = style_refs()
    scs = style_scenarios()
    bad = []
    n = 0
    for vs, cnt in par.pmap(style_share, [(refs, s) for s in par.chunks(scs, common.ncpu() * 2)]):
        bad.extend(vs)
        n += cnt
    for kind, steps, label, victim, ref, got in sorted(bad, key=lambda x: (len(x[1]), json.dumps(x[1]))):
        if victim == "crash":
            sig = "style-crash:" + str(got)[:60]
        elif kind == "create":
            sig = "style-creation:%s" % victim
        else:
            sig = "style-%s->%s" % (kind, victim)
        rep.violation(report.viol(sig, "a table with the %s style renders differently from a process in which only that style was built (scenario: %s)" % (victim, label),
                                  {"part": "style", "steps": steps}, ref, got))
    rep.part("styles", scenarios=len(scs), sub_processes=n + 9, violating=len(bad))
    return n


def check_style_case(case):
    refs = style_refs()
    got = run_style_child(case["steps"])
    if got and got[0] == "crash":
        return None, got
    for idx, name, text in got:
        if text != refs[name]:
            return refs[name], text
    return None


# ------------------------------------------------------------------------------------------------
def replay(case):
    part = case.get("part")
    if part == "history":
        r = check_history_case(case)
        if r:
            return {"what": "history still differs: " + r[2], "expected": _brief(r[0]), "observed": _brief(r[1])}
    elif part == "component":
        r = check_component_case(case)
        if r:
            return {"what": "component render still differs", "expected": _clip(r[0]), "observed": _clip(r[1])}
    elif part == "layout":
        got, ref = forked(run_layout, case["batches"]), forked(run_layout, case["batches"][-1:])
        if got != ref:
            return {"what": "layout still differs", "expected": ref, "observed": got}
    elif part == "style":
        r = check_style_case(case)
        if r:
            return {"what": "style scenario still differs", "expected": r[0], "observed": r[1]}
    else:
        raise ValueError("unknown case %r" % (case,))
    return None


def main():
    rep = report.Report(PID, "model_checking")
    thorough = rep.tier == "thorough"
    spare = SPARES[rep.seed % len(SPARES)]
    full = CORE + [spare]
    tot_h = tot_r = nontriv = 0
    h, r, nt = explore_histories(rep, "full", full, 4 if thorough else 3, MODES)
    tot_h, tot_r, nontriv = tot_h + h, tot_r + r, nontriv + nt
    if thorough:
        red = CORE_REDUCED + [REDUCED_ROT[rep.seed % len(REDUCED_ROT)]]
        h, r, nt = explore_histories(rep, "reduced", red, 5, MODES)
        tot_h, tot_r, nontriv = tot_h + h, tot_r + r, nontriv + nt
        rep.set("rotated_reduced_line", red[-1])
    n_comp, nt_comp, _ = explore_components(rep, 4 if thorough else 3, IO_BASIC if thorough else ["plain", "narrow"])
    n_lay = explore_layout(rep, 4 if thorough else 3)
    n_sty = explore_styles(rep)
    rep.set("rotated_line", spare)
    rep.set("states", tot_h)
    rep.set("transitions", tot_r)
    rep.set("traces_validated_against_impl", tot_h + n_comp + n_lay + n_sty)
    rep.set("evaluations", tot_h + n_comp + n_lay + n_sty)
    rep.set("distinct_nontrivial", nontriv + nt_comp)
    rep.set("exhaustive", True)
    rep.set("rule", "histories: every sequence of lines up to the depth given per part (no dedup), judged on the last run, each on a fresh "
                    "application in a forked child; non-trivial = a help request or a failed run precedes the judged line. components: every "
                    "sequence of IO kinds per component up to the depth, one IO twice, and every ordered pair of components; non-trivial = "
                    "not the same IO kind repeated. styles: every ordered subset of the four predefined styles in two schedules plus "
                    "customising one style before/after the others, each in a fresh python sub-process")
    rep.sample({"mode": "default", "history": ["help-len", "len-surplus"]})
    rep.sample({"mode": "reused-args", "history": ["help-foo", "help-foo"]})
    rep.sample({"kind": "seq", "factory": "trace/full", "ios": ["debug", "ascii-debug"]})
    rep.sample({"style_steps": [["build", "borderless"], ["build", "compact"], ["render", 0], ["render", 1]]})
    rep.assume("a fresh application / fresh object in a freshly forked process that never ran clikit code is the reference")
    rep.assume("customising a style = assigning its public attributes, including those of its border_style")
    rep.assume("BlockLayout.render consumes its elements by design; only reuse after render is judged")
    return rep.finish()
