"""C17 - what is rendered does not depend on what was processed before.

E2 without dedup (no sound full fingerprint of an application exists, so the depth IS the bound).
Every case is executed on the real clikit code.

1. histories   one ConsoleApplication (DefaultApplicationConfig, exceptions caught, no exit) over EVERY sequence of
               command lines up to the depth bound; the observation of the last run
               (status, stdout, stderr, handler invocation record, raw tokens after the run) must equal what a
               freshly built application gives for that line.  Three modes: default parsers / all commands share one
               args parser (Config.set_args_parser) / the caller passes the same RawArgs object again.
2. components  every UI component rendered on every sequence of IO kinds (plain, ANSI, no UTF-8, narrow, verbose,
               debug, debug without UTF-8) on the SAME object, on one IO object twice, and as a second object after
               another component was rendered; each render must equal the render of a fresh object in a fresh process.
               BlockLayout: a layout used again after a render must lay out new content like a fresh layout.
3. styles      all construction orders of the four predefined table styles in two schedules, each in a FRESH
               `python -c` sub-process, plus all ordered subsets and "customise one style before / after the others are
               built" in forked children of a process that never built a style; a style's table must equal the table of
               the sub-process in which only that style was ever built.

Engine: a tree walk by fork().  The checking process and its pool workers only import clikit, they never execute
application or rendering code (guard: _TAINTED).  A job forks a pristine child that builds the object under test; every
tree edge is one more fork that executes ONE more step on the inherited live state.  So each explored state is the real
process state (instance state, class-level caches and singletons alike) after exactly the recorded history starting from
a pristine process, every step is executed once, and the recorded case is sufficient to reproduce a failure.

Signatures: of all violating sequences only the *minimal* ones (every aspect of the difference already shows on a
proper subsequence ending in the same element => not minimal) are reported; sig = the aspects that differ.

Not demanded (statement silent / by design):
 * rendering a BlockLayout twice (render() deliberately consumes its elements); only reuse-after-render is judged;
 * ProgressBar / ProgressIndicator / Question (stateful by purpose, owned by C16/C18/C19);
 * what the output of a line IS (C01..C13 own that) - only that it is the same as on a fresh application;
 * the customised style itself may of course render differently.
"""
import itertools
import json
import os
import pickle
import re
import subprocess
import sys
import time
import traceback

from mc import common, par, report

PID = "C17"
_TAINTED = False  # set in any process that executed clikit application / rendering code
_SINKS = [0]


def pre_import():
    os.environ["COLUMNS"] = "80"
    os.environ["LINES"] = "25"


def _preimport():
    """import (never execute) everything the children need, so that they do not pay for it after every fork"""
    import clikit.config, clikit.args, clikit.io, clikit.formatter, clikit.ui.components, clikit.ui.help  # noqa
    import clikit.ui.layout, clikit.ui.style, clikit.ui.alignment, clikit.handler.callback_handler  # noqa
    import clikit.args.default_args_parser, clikit.io.input_stream, clikit.io.output_stream, clikit.ui.rectangle  # noqa
    import crashtest.inspector, crashtest.frame_collection, textwrap, tokenize  # noqa
    import crashtest.solution_providers.solution_provider_repository  # noqa
    from props import _c17_fixtures  # noqa
    # warm the interpreter-level caches of the standard library (inspect's module-by-file map, linecache): no clikit state
    import inspect, linecache
    try:
        raise ValueError("warm-up")
    except ValueError as e:
        inspect.getframeinfo(e.__traceback__)
    for m in list(sys.modules.values()):
        f = getattr(m, "__file__", None) or ""
        if f.endswith(".py") and ("clikit" in f or "crashtest" in f or "_c17_fixtures" in f):
            linecache.getlines(f)


# ------------------------------------------------------------------------------------------------
# engine: process isolation and the fork tree walk
# ------------------------------------------------------------------------------------------------
def forked(fn, *a):
    """Run fn(*a) in a forked child of a process that never ran clikit code itself; return its result."""
    if _TAINTED:
        raise RuntimeError("engine error: forking a reference from a process that already executed clikit code")
    r, w = os.pipe()
    pid = os.fork()
    if pid == 0:
        code = 0
        try:
            os.close(r)
            try:
                res = (True, fn(*a))
            except BaseException:
                res = (False, traceback.format_exc())
            with os.fdopen(w, "wb") as f:
                pickle.dump(res, f, 2)
        except BaseException:
            code = 3
        finally:
            os._exit(code)
    os.close(w)
    with os.fdopen(r, "rb") as f:
        data = f.read()
    os.waitpid(pid, 0)
    if not data:
        raise RuntimeError("engine error: forked child died without a result")
    ok, res = pickle.loads(data)
    if not ok:
        raise RuntimeError("engine error in forked child:\n" + res)
    return res


def _taint():
    global _TAINTED
    _TAINTED = True


def _emit(fd, rec):
    os.write(fd, (json.dumps(rec) + "\n").encode())


def _walk(state, hist, alphabet, depth, step, fd):
    """every edge = fork + one step on the inherited live state; the child recurses, the parent stays untouched"""
    for a in alphabet:
        h = hist + (a,)
        pid = os.fork()
        if pid == 0:
            code = 0
            try:
                rec = step(state, h)
                if rec is not None:
                    _emit(fd, rec)
                if len(h) < depth:
                    _walk(state, h, alphabet, depth, step, fd)
            except BaseException:
                code = 3
                try:
                    _emit(fd, {"engine_error": "at %r\n%s" % (h, traceback.format_exc())})
                except BaseException:
                    pass
            finally:
                os._exit(code)
        _, st = os.waitpid(pid, 0)
        if st != 0:
            raise RuntimeError("engine error below %r (child status %r)" % (h, st))


def _tree_job(setup, prefix, alphabet, depth, step, extra=None):
    """runs in a pristine forked child: build the state, replay `prefix` (judging only its last step), walk below it"""
    _SINKS[0] += 1
    path = "/tmp/c17-sink-%d-%d" % (os.getpid(), _SINKS[0])
    fd = os.open(path, os.O_WRONLY | os.O_CREAT | os.O_APPEND | os.O_TRUNC, 0o600)
    try:
        state = setup()
        for i in range(len(prefix)):
            rec = step(state, tuple(prefix[:i + 1]))
            if rec is not None and i == len(prefix) - 1:
                _emit(fd, rec)
        if extra is not None:
            extra(state, fd)
        if len(prefix) < depth:
            _walk(state, tuple(prefix), alphabet, depth, step, fd)
        os.close(fd)
        with open(path) as f:
            recs = [json.loads(line) for line in f if line.strip()]
    finally:
        try:
            os.unlink(path)
        except OSError:
            pass
    for r in recs:
        if "engine_error" in r:
            raise RuntimeError("engine error in tree walk:\n" + r["engine_error"])
    return recs


def tree_job(setup, prefix, alphabet, depth, step, extra=None):
    return forked(_tree_job, setup, prefix, alphabet, depth, step, extra)


def nodes_below(n, levels):
    return sum(n ** k for k in range(1, levels + 1))


def subsequences_same_last(h):
    """all proper subsequences of h that keep the last element"""
    body, last = h[:-1], h[-1]
    for k in range(0, len(body)):
        for idx in itertools.combinations(range(len(body)), k):
            yield tuple(body[i] for i in idx) + (last,)


def minimal(viol_map):
    """viol_map: sequence(tuple) -> tuple of difference aspects.  A violating sequence is *explained* when every aspect
    of its difference already shows on some violating proper subsequence with the same last element; the others are
    minimal.  Well defined because every shorter sequence over the alphabet was enumerated too."""
    out = []
    for h in sorted(viol_map, key=lambda x: (len(x), x)):
        seen = set()
        for g in subsequences_same_last(h):
            seen.update(viol_map.get(g, ()))
        if not set(viol_map[h]) <= seen:
            out.append(h)
    return out


def report_minimal(rep, viol_map, sig_of, confirm):
    """Report the minimal sequences of viol_map (first per signature).  confirm(h, sig) re-executes the recorded case in
    fresh processes and returns the violation, or None when the observation of the walk does not reproduce: such an
    observation is environmental, it is dropped, counted in the evidence, and minimality is recomputed without it (so it
    can never mask a real violation that it seemed to explain)."""
    viol_map = dict(viol_map)
    while True:
        dropped = False
        for h in minimal(viol_map):
            sig = sig_of(h, viol_map[h])
            if sig in rep.violations:
                continue
            v = confirm(h, sig)
            if v is None:
                rep.add("unreproducible_observations")
                del viol_map[h]
                dropped = True
                break
            rep.violation(v)
        if not dropped:
            return viol_map


_SYMBOLS = {u"→": ">", u"│": "|", u"•": "*"}


def textclass(exp, obs):
    """short stable description of how obs differs from exp: 'utf8-symbols' if only the UTF-8/ASCII symbol choice differs,
    else the first differing line of obs without SGR codes and digits"""
    def norm(s):
        for k, v in _SYMBOLS.items():
            s = s.replace(k, v)
        return s
    if norm(exp) == norm(obs):
        return "utf8-symbols"
    a, b = exp.split("\n"), obs.split("\n")
    i = 0
    while i < len(a) and i < len(b) and a[i] == b[i]:
        i += 1
    line = b[i] if i < len(b) else ""
    line = re.sub("\x1b\\[[0-9;]*m", "", line).strip()
    if not line:
        return "<empty>" if not obs.strip() else "<line missing>"
    return re.sub("[0-9]+", "#", line)[:28]


# ------------------------------------------------------------------------------------------------
# part 1: histories on one application
# ------------------------------------------------------------------------------------------------
# name -> (command line, streams support UTF-8)
LINES = {
    "valid": ("foo a -o", True),
    "bad-option": ("foo --nope", True),
    "too-many": ("foo a b", True),
    "help": ("help", True),
    "help-foo": ("help foo", True),
    "help-len": ("help len", True),
    "foo-h": ("foo -h", True),
    "version": ("-V", True),
    "unknown": ("nope", True),
    "len-surplus": ("len a b c", True),
    "raise-vvv": ("bad -vvv", True),
    "sub": ("top sub y", True),
    "raise-vvv-ascii": ("bad -vvv", False),
    "dflt-too-many": ("dflt a b", True),            # strict default sub-command: one argument too many
    "help-dflt-too-many": ("help dflt a b", True),  # help request whose arguments do not parse strictly
    "help-top-sub": ("help top sub", True),         # two sub-commands with the same short name in different places
    "help-other-sub": ("help other sub", True),
    "fac": ("fac", True),                            # handler configured through a factory
    "paint": ("paint", True),                        # registers a style on the formatters of its own run's IO
    "show": ("show", True),                          # writes that tag without registering it
    "alias": ("ff a -o", True),                      # the command named by its second alias
    "valid-noopt": ("foo a", True),                  # same command and argument as "valid", without the option
    "len-multi": ("len a -t x -t y", True),          # a multi-valued option given twice
    # spares: VERIF_SEED rotates exactly one of them into the full alphabet
    "valid-ansi": ("foo a --ansi", True),
    "help-top": ("help top", True),
    "top-h": ("top sub -h", True),
    "len-h": ("len -h", True),
    "valid-quiet": ("foo a -q", True),
    "top": ("top", True),
}
CORE = ["valid", "bad-option", "too-many", "help", "help-foo", "help-len", "foo-h", "version", "unknown",
        "len-surplus", "raise-vvv", "sub", "raise-vvv-ascii", "dflt-too-many", "help-dflt-too-many",
        "help-top-sub", "help-other-sub", "fac", "paint", "show", "alias", "valid-noopt", "len-multi"]
CORE_REDUCED = ["valid", "help-len", "len-surplus", "help-dflt-too-many", "dflt-too-many", "version", "raise-vvv"]
REDUCED_ROT = ["too-many", "foo-h", "bad-option", "help-foo", "unknown", "sub", "raise-vvv-ascii", "help"]
SPARES = ["valid-ansi", "help-top", "top-h", "len-h", "valid-quiet", "top"]
MODES = ["default", "reused-args", "shared-parser"]


def build_app(mode):
    _taint()
    from clikit import ConsoleApplication
    from clikit.api.args.format import Argument, Option
    from clikit.args.default_args_parser import DefaultArgsParser
    from clikit.config import DefaultApplicationConfig
    from props._c17_fixtures import PerRunHandler, handler, styled_handler

    c = DefaultApplicationConfig("app", "1.2.3")
    c.set_catch_exceptions(True)
    c.set_terminate_after_run(False)
    with c.command("foo") as f:  # strict: one argument + one option
        f.set_description("The foo command")
        f.add_alias("fo")
        f.add_alias("ff")
        f.add_argument("arg", Argument.OPTIONAL, "An argument")
        f.add_option("opt", "o", Option.NO_VALUE, "An option")
        f.set_handler(handler("foo"))
    with c.command("len") as f:  # lenient: surplus arguments are accepted
        f.set_description("A lenient command")
        f.add_argument("arg", Argument.OPTIONAL, "An argument")
        f.add_option("opt", "o", Option.NO_VALUE, "An option")
        f.add_option("tag", "t", Option.REQUIRED_VALUE | Option.MULTI_VALUED, "A multi-valued option")
        f.enable_lenient_args_parsing()
        f.set_handler(handler("len"))
    with c.command("top") as f:  # has a sub-command
        f.set_description("A command with a sub-command")
        f.set_handler(handler("top", 2))
        with f.sub_command("sub") as s:
            s.set_description("The sub-command")
            s.add_argument("x", Argument.OPTIONAL, "An argument")
            s.set_handler(handler("top sub", 3))
    with c.command("fac") as f:  # the handler is given as a factory: every run asks the factory
        f.set_description("A command whose handler comes from a factory")
        f.set_handler(PerRunHandler)
    with c.command("paint") as f:
        f.set_description("Registers a style on its IO and uses it")
        f.set_handler(styled_handler("paint", True))
    with c.command("show") as f:
        f.set_description("Uses a tag nobody registered for this run")
        f.set_handler(styled_handler("show", False))
    with c.command("other") as f:  # a second sub-command called "sub", with other parameters
        f.set_description("Another command with a sub-command of the same name")
        f.set_handler(handler("other", 2))
        with f.sub_command("sub") as s:
            s.set_description("The other sub-command")
            s.add_option("flag", "f", Option.NO_VALUE, "A flag")
            s.set_handler(handler("other sub", 3))
    with c.command("dflt") as f:  # has a default sub-command (strict, one argument)
        f.set_description("A command with a default sub-command")
        with f.sub_command("list") as s:
            s.default()
            s.set_description("The default sub-command")
            s.add_argument("name", Argument.OPTIONAL, "A name")
            s.set_handler(handler("dflt list"))
    with c.command("bad") as f:  # handler raises at any verbosity
        f.set_description("A command whose handler raises")
        f.set_handler(handler("bad", raises=True))
    if mode == "shared-parser":
        p = DefaultArgsParser()
        for cc in c.command_configs:  # includes the built-in help command
            cc.set_args_parser(p)
            for sc in cc.sub_command_configs:
                sc.set_args_parser(p)
    return ConsoleApplication(c)


def run_line(app, name, argobjs=None):
    """one run -> [status, stdout, stderr, handler record, raw tokens after the run]"""
    from clikit.args import StringArgs
    from clikit.io.input_stream import StringInputStream
    from clikit.io.output_stream import BufferedOutputStream
    from props._c17_fixtures import REC

    line, utf8 = LINES[name]
    if argobjs is None:
        args = StringArgs(line)
    else:
        args = argobjs.get(name)
        if args is None:
            args = argobjs[name] = StringArgs(line)
    del REC[:]
    o, e = BufferedOutputStream(supports_utf8=utf8), BufferedOutputStream(supports_utf8=utf8)
    try:
        st = app.run(args, StringInputStream(""), o, e)
    except BaseException as ex:  # exceptions are caught by the application: anything arriving here is a crash
        st = "crash:" + report.exc_site(ex)
    rec = [list(r) for r in REC]
    del REC[:]
    return [st, o.fetch(), e.fetch(), rec, list(args.tokens)]


def app_state(mode):
    return {"app": build_app(mode), "args": {} if mode == "reused-args" else None}


def run_history(mode, hist):
    """fresh application, all lines of hist in order; returns the observation of the LAST run"""
    st = app_state(mode)
    obs = None
    for name in hist:
        obs = run_line(st["app"], name, st["args"])
    return obs


def diff_aspects(exp, obs, detail=False):
    parts = []
    es, eo, ee, er, et = exp
    os_, oo, oe, orr, ot = obs
    if isinstance(os_, str) and os_ != es:
        parts.append(os_)
    if er != orr:
        if len(er) != len(orr):
            parts.append("handler-calls %d->%d" % (len(er), len(orr)))
        else:
            for a, b in zip(er, orr):
                if a[0] != b[0]:
                    parts.append("handler %s->%s" % (a[0], b[0]))
                    continue
                for field, i in (("arguments", 1), ("options", 2)):
                    if a[i] != b[i]:
                        keys = sorted(k for k in set(a[i]) | set(b[i]) if a[i].get(k, "<unset>") != b[i].get(k, "<unset>"))
                        parts.append("%s[%s]" % (field, ",".join(keys)) if detail else "handler-" + field)
                if a[3] != b[3]:
                    parts.append("handler-raw-tokens")
                if a[4] != b[4]:
                    parts.append("io-seen-by-handler")
    if es != os_ and not isinstance(os_, str):
        parts.append("status %s->%s" % (es, os_))
    if eo != oo:
        parts.append("stdout~" + textclass(eo, oo))
    if ee != oe:
        parts.append("stderr~" + textclass(ee, oe))
    if et != ot and not parts:
        parts.append("tokens-after-run")
    return parts or ["differs"]


def expected_for(mode, names):
    """fresh application, fresh process, one line: the reference observation; computed twice (determinism probe =
    the length-1 histories)"""
    res = par.pmap(lambda n: (forked(run_history, mode, (n,)), forked(run_history, mode, (n,))), list(names))
    exp = {}
    for n, (a, b) in zip(names, res):
        if a != b:
            raise RuntimeError("engine error: line %r is not deterministic on a fresh application" % n)
        exp[n] = a
    return exp


def history_case(mode, h):
    return {"part": "history", "mode": mode, "history": list(h), "lines": [LINES[n][0] for n in h]}


def check_history_case(case):
    mode, h = case["mode"], tuple(case["history"])
    exp = forked(run_history, mode, (h[-1],))
    obs = forked(run_history, mode, h)
    if obs != exp:
        return exp, obs, diff_aspects(exp, obs, detail=True)
    return None


def explore_histories(rep, tag, alphabet, depth, modes):
    tot_hist = tot_runs = nontrivial = 0
    base_viol = {}
    P = min(2, depth)
    for mode in modes:
        t0 = time.time()
        exp = expected_for(mode, alphabet)
        touching = {n for n in alphabet if exp[n][0] != 0 or "help" in n or n.endswith("-h")}

        def step(state, h):
            obs = run_line(state["app"], h[-1], state["args"])
            if obs != exp[h[-1]]:
                return {"h": list(h), "d": diff_aspects(exp[h[-1]], obs)}
            return None

        def job(prefix):
            return tree_job(lambda: app_state(mode), prefix, alphabet, depth, step)

        prefixes = list(itertools.product(alphabet, repeat=P))
        viol_map = {}
        for recs in par.pmap(job, prefixes):
            for r in recs:
                viol_map[tuple(r["h"])] = tuple(r["d"])
        n = len(alphabet)
        n_hist = nodes_below(n, depth)
        tot_hist += n_hist
        tot_runs += 2 * n + len(prefixes) * (P + nodes_below(n, depth - P))
        for k in range(2, depth + 1):
            # histories of length k in which a help request or a failed run precedes the judged line
            nontrivial += (n ** (k - 1) - (n - len(touching)) ** (k - 1)) * n
        if mode == "default":
            base_viol = viol_map

        def sig_of(h, d):
            mtag = "" if mode == "default" or set(d) <= set(base_viol.get(h, ())) else mode + ":"
            return "history:%s%s" % (mtag, ",".join(d))

        def confirm(h, sig):
            case = history_case(mode, h)
            got = check_history_case(case)
            if got is None:
                return None
            e, o, det = got
            return report.viol(sig, "after %s the line %r differs from a fresh application in [%s]" % (
                " ; ".join(repr(LINES[x][0]) for x in h[:-1]) or "nothing", LINES[h[-1]][0], ", ".join(det)), case, _brief(e), _brief(o))

        viol_map = report_minimal(rep, viol_map, sig_of, confirm)
        mins = minimal(viol_map)
        rep.part("histories/%s/%s" % (tag, mode), alphabet=list(alphabet), depth=depth, histories=n_hist,
                 violating_histories=len(viol_map), minimal_violating=[list(h) for h in mins][:40],
                 wall_s=round(time.time() - t0, 1))
    return tot_hist, tot_runs, nontrivial


def _brief(obs):
    st, o, e, rec, toks = obs
    return {"status": st, "stdout": o[:300], "stderr": e[:120], "handler": rec, "tokens_after": toks}


# ------------------------------------------------------------------------------------------------
# part 2: components
# ------------------------------------------------------------------------------------------------
IOKINDS = {  # name -> (ansi, utf8, width, verbosity)
    "plain": (False, True, 80, 0),
    "ansi": (True, True, 80, 0),
    "ascii": (False, False, 80, 0),
    "narrow": (False, True, 34, 0),
    "verbose": (False, True, 80, 1),
    "debug": (False, True, 80, 4),
    "ascii-debug": (False, False, 80, 4),
}
IO_BASIC = ["plain", "ansi", "ascii", "narrow"]
IO_ALL = ["plain", "ansi", "ascii", "narrow", "verbose", "debug", "ascii-debug"]


def make_io(kind):
    from clikit.formatter import AnsiFormatter, PlainFormatter
    from clikit.io import BufferedIO
    from clikit.ui.rectangle import Rectangle

    ansi, utf8, width, verbosity = IOKINDS[kind]
    io = BufferedIO(formatter=AnsiFormatter(forced=True) if ansi else PlainFormatter(), supports_utf8=utf8)
    io.set_terminal_dimensions(Rectangle(width, 25))
    io.set_verbosity(verbosity)
    return io


TABLE_CONTENT = {
    "short": (["ISBN", "Title", "Author"], [["99921-58-10-7", "Divine Comedy", "Dante Alighieri"],
                                            ["9971-5-0210-0", "A Tale of Two Cities", "Charles Dickens"]]),
    "wrap": (["Id", "Text"], [["1", "a fairly long cell text that has to be wrapped over several lines when the terminal is narrow or even when it is not so narrow at all"],
                              ["22", "zz top"]]),
    "nohdr": (None, [["b", "2"], ["a", "1"], ["c", "3"]]),
    "tags": (["<b>Key</b>", "Value"], [["<c1>one</c1>", "two\nlines"], ["three", "<u>four</u>"]]),
}
STYLES = ["ascii", "solid", "borderless", "compact"]
LONG_TEXT = ("Lorem ipsum dolor sit amet, <b>consetetur</b> sadipscing elitr, sed diam nonumy eirmod tempor invidunt ut "
             "labore et dolore magna aliquyam erat")
# name -> (group used in signatures, io kinds it is rendered on); builders are in build_component()
FACTORIES = {}
for _st in STYLES + ["default"]:
    for _cn in sorted(TABLE_CONTENT):
        FACTORIES["table/%s/%s" % (_st, _cn)] = ("Table/" + _st, IO_BASIC)
FACTORIES.update({
    "table/styled/tags": ("Table/styled", IO_BASIC),  # own BorderStyle object with a Style, cell styles, alignments
    "paragraph/short": ("Paragraph", IO_BASIC),
    "paragraph/long": ("Paragraph", IO_BASIC),
    "labeled/plain": ("LabeledParagraph", IO_BASIC),
    "labeled/unaligned": ("LabeledParagraph", IO_BASIC),
    "labeled/aligned": ("LabeledParagraph", IO_BASIC),
    "labeled/aligned-indented": ("LabeledParagraph", IO_BASIC),
    "emptyline": ("EmptyLine", ["plain", "ansi"]),
    "nameversion/full": ("NameVersion", IO_BASIC),
    "nameversion/bare": ("NameVersion", ["plain", "ansi"]),
    "help/application": ("ApplicationHelp", IO_BASIC),
    "help/command/foo": ("CommandHelp", IO_BASIC),
    "help/command/len": ("CommandHelp", IO_BASIC),
    "help/command/top": ("CommandHelp", IO_BASIC),
    "help/command/help": ("CommandHelp", IO_BASIC),
    "help/command/top sub": ("CommandHelp", IO_BASIC),
    "help/command/dflt": ("CommandHelp", IO_BASIC),
    "trace/full": ("ExceptionTrace", IO_ALL),
    "trace/recursive": ("ExceptionTrace", IO_ALL),
    "trace/simple": ("ExceptionTrace", ["plain", "ansi", "ascii-debug"]),
    "trace/ignoring": ("ExceptionTrace", IO_ALL),
})


def build_component(name):
    """-> (object with .render(io, **kw), kw); a NEW object on every call"""
    _taint()
    from clikit.api.config.application_config import ApplicationConfig
    from clikit.ui.alignment import LabelAlignment
    from clikit.ui.components import EmptyLine, ExceptionTrace, LabeledParagraph, NameVersion, Paragraph, Table
    from clikit.ui.help import ApplicationHelp, CommandHelp
    from clikit.ui.style import TableStyle
    from props import _c17_fixtures as fx

    parts = name.split("/")
    if name == "table/styled/tags":
        from clikit.api.formatter import Style
        from clikit.ui.style.alignment import Alignment
        from clikit.ui.style.border_style import BorderStyle
        st = TableStyle()
        st.border_style = BorderStyle()  # an object of its own: the shared singletons are the subject of part 3
        st.border_style.style = Style().fg("blue")
        st.cell_style = Style().bold()
        st.header_cell_style = Style().underlined()
        st.header_cell_format = st.cell_format = " {} "
        st.set_column_alignment(1, Alignment.RIGHT)
        t = Table(st)
        hdr, rows = TABLE_CONTENT["tags"]
        t.set_header_row(list(hdr))
        t.add_rows([list(r) for r in rows])
        return t, {}
    if parts[0] == "table":
        t = Table(None if parts[1] == "default" else getattr(TableStyle, parts[1])())
        hdr, rows = TABLE_CONTENT[parts[2]]
        if hdr:
            t.set_header_row(list(hdr))
        t.add_rows([list(r) for r in rows])
        return t, {}
    if name == "paragraph/short":
        return Paragraph("A <b>short</b> text"), {}
    if name == "paragraph/long":
        return Paragraph(LONG_TEXT), {"indentation": 4}
    if name == "labeled/plain":
        return LabeledParagraph("<c1>--opt</c1> (-o)", LONG_TEXT), {}
    if name == "labeled/unaligned":
        return LabeledParagraph("label", "text", 1, False), {"indentation": 2}
    if name in ("labeled/aligned", "labeled/aligned-indented"):
        p = LabeledParagraph("x", LONG_TEXT)
        q = LabeledParagraph("a-longer-label", "other")
        al = LabelAlignment()
        al.add(p, 2)
        al.add(q, 2)
        p.set_alignment(al)

        class Aligned(object):  # aligning is part of rendering an aligned paragraph (as BlockLayout.render does)
            def render(self, io, indentation=0):
                al.align(io, indentation)
                p.render(io, 2 + indentation)
        return Aligned(), ({"indentation": 2} if name.endswith("indented") else {})
    if name == "emptyline":
        return EmptyLine(), {}
    if name == "nameversion/full":
        return NameVersion(ApplicationConfig("app", "1.2.3")), {}
    if name == "nameversion/bare":
        return NameVersion(ApplicationConfig()), {}
    if name == "help/application":
        return ApplicationHelp(build_app("default")), {}
    if name == "help/command/top sub":
        return CommandHelp(build_app("default").get_command("top").get_sub_command("sub")), {}
    if parts[:2] == ["help", "command"]:
        return CommandHelp(build_app("default").get_command(parts[2])), {}
    if name == "trace/full":
        return ExceptionTrace(fx.caught(0)), {}
    if name == "trace/recursive":
        return ExceptionTrace(fx.caught(5)), {}
    if name == "trace/simple":
        return ExceptionTrace(fx.caught(0)), {"simple": True}
    if name == "trace/ignoring":
        return ExceptionTrace(fx.caught_via_clikit()).ignore_files_in(".*callback_handler.*"), {}
    raise KeyError(name)


def _render(obj, kw, io):
    try:
        obj.render(io, **kw)
    except Exception as e:
        return ["crash:" + report.exc_site(e), repr(e)[:200]]
    out = [io.fetch_output(), io.fetch_error()]
    io.clear_output()
    io.clear_error()
    return out


def _cdiff(ref, got):
    """how a component render differs from its reference, coarse (for the signature): a crash site, only the UTF-8/ASCII
    symbol choice, nothing printed, or just 'differs'"""
    if isinstance(got[0], str) and got[0].startswith("crash:"):
        return got[0]
    which = 0 if ref[0] != got[0] else 1
    d = textclass(ref[which], got[which])
    if d not in ("utf8-symbols", "<empty>"):
        d = "differs"
    return d if which == 0 else "stderr-" + d


def component_ref(key):
    name, io = key
    def fresh():
        obj, kw = build_component(name)
        return _render(obj, kw, make_io(io))
    return forked(fresh)


def run_component_case(case):
    """replay of one component case in a pristine child -> (reference, observed) or None"""
    kind = case["kind"]
    if kind == "seq":
        def go():
            obj, kw = build_component(case["factory"])
            out = None
            for k in case["ios"]:
                out = _render(obj, kw, make_io(k))
            return out
        ref = component_ref((case["factory"], case["ios"][-1]))
    elif kind == "same-io":
        def go():
            obj, kw = build_component(case["factory"])
            io = make_io(case["io"])
            return [_render(obj, kw, io), _render(obj, kw, io)]
        r = component_ref((case["factory"], case["io"]))
        ref = [r, r]
    else:
        def go():
            o1, kw1 = build_component(case["first"])
            _render(o1, kw1, make_io(case["first_io"]))
            o2, kw2 = build_component(case["factory"])
            return _render(o2, kw2, make_io(case["io"]))
        ref = component_ref((case["factory"], case["io"]))
    got = forked(go)
    return None if got == ref else (ref, got)


def explore_components(rep, seq_depth, pair_ios):
    t0 = time.time()
    names = sorted(FACTORIES)
    keys = [(f, io) for f in names for io in FACTORIES[f][1]]
    refs = dict(zip(keys, par.pmap(component_ref, keys)))
    probe = [(f, FACTORIES[f][1][0]) for f in names]
    for k, r in zip(probe, par.pmap(component_ref, probe)):
        if r != refs[k]:
            raise RuntimeError("engine error: fresh render of %s is not deterministic" % (k,))

    # (a) one object over every sequence of IO kinds, and twice on ONE io object ---------------------
    def seq_job(key):
        f, first_io = key  # first_io None: the "one IO object twice" cases of that component

        def step(state, h):
            got = _render(state[0], state[1], make_io(h[-1]))
            if got != refs[(f, h[-1])]:
                return {"kind": "seq", "factory": f, "ios": list(h), "d": _cdiff(refs[(f, h[-1])], got)}
            return None

        def twice(state, fd):
            for io_kind in FACTORIES[f][1]:
                pid = os.fork()
                if pid == 0:
                    code = 0
                    try:
                        io = make_io(io_kind)
                        a, b = _render(state[0], state[1], io), _render(state[0], state[1], io)
                        r = refs[(f, io_kind)]
                        if not (a == b == r):
                            _emit(fd, {"kind": "same-io", "factory": f, "io": io_kind, "d": _cdiff(r, a if a != r else b)})
                    except BaseException:
                        code = 3
                    finally:
                        os._exit(code)
                if os.waitpid(pid, 0)[1] != 0:
                    raise RuntimeError("engine error in same-io case %s %s" % (f, io_kind))

        if first_io is None:
            return tree_job(lambda: build_component(f), (), [], 0, step, twice)
        return tree_job(lambda: build_component(f), (first_io,), FACTORIES[f][1], seq_depth, step)

    # (b) a second object after another component was rendered in the same process ----------------------
    def pair_allowed(f1, io1, f2, io2):
        both_trace = FACTORIES[f1][0] == "ExceptionTrace" and FACTORIES[f2][0] == "ExceptionTrace"
        return both_trace or (io1 in pair_ios and io2 in pair_ios)

    def pair_job(key1):
        f1, io1 = key1
        seconds = ["%s@%s" % k2 for k2 in keys if pair_allowed(f1, io1, k2[0], k2[1])]

        def setup():
            o1, kw1 = build_component(f1)
            _render(o1, kw1, make_io(io1))
            return None

        def step(state, h):
            f2, io2 = h[-1].split("@")
            o2, kw2 = build_component(f2)
            got = _render(o2, kw2, make_io(io2))
            if got != refs[(f2, io2)]:
                return {"kind": "pair", "first": f1, "first_io": io1, "factory": f2, "io": io2, "d": _cdiff(refs[(f2, io2)], got)}
            return None

        return (tree_job(setup, (), seconds, 1, step) if seconds else []), len(seconds)

    bad = []
    n_seq = 0
    for recs in par.pmap(seq_job, [(f, None) for f in names] + keys):  # one job per (component, first IO kind)
        bad.extend(recs)
    for f in names:
        n_seq += nodes_below(len(FACTORIES[f][1]), seq_depth) + len(FACTORIES[f][1])
    firsts = [k for k in keys if k[1] in pair_ios or FACTORIES[k[0]][0] == "ExceptionTrace"]
    n_pair = 0
    for recs, cnt in par.pmap(pair_job, firsts):
        bad.extend(recs)
        n_pair += cnt

    seq_viol = {}
    for c in bad:
        if c["kind"] == "seq":
            seq_viol.setdefault(c["factory"], {})[tuple(c["ios"])] = (c["d"],)
    for f in sorted(seq_viol):
        g = FACTORIES[f][0].split("/")[0]

        def confirm(h, sig, f=f):
            c = {"kind": "seq", "factory": f, "ios": list(h)}
            got = run_component_case(c)
            if got is None:
                return None
            return report.viol(sig, "%s rendered on %s differs from a fresh object's render on %s" % (f, " then ".join(h), h[-1]),
                               dict(c, part="component"), _clip(got[0]), _clip(got[1]))

        report_minimal(rep, seq_viol[f], lambda h, d, g=g: "component:%s:%s:on-%s" % (g, d[0], h[-1]), confirm)
    keep = []
    for c in bad:
        g = FACTORIES[c["factory"]][0].split("/")[0]
        if c["kind"] == "seq":
            continue
        elif c["kind"] == "same-io":
            sig = "component-twice:%s:%s:on-%s" % (g, c["d"], c["io"])
            what = "%s rendered twice on one %s IO: outputs differ from the fresh render" % (c["factory"], c["io"])
        else:
            sig = "other-object:%s:after:%s:%s:on-%s" % (g, FACTORIES[c["first"]][0].split("/")[0], c["d"], c["io"])
            what = "%s on %s, after %s had been rendered on %s in the same process, differs from its render in a fresh process" % (
                c["factory"], c["io"], c["first"], c["first_io"])
        c = {k: v for k, v in c.items() if k != "d"}
        keep.append((len(json.dumps(c)), sig, what, c))
    for _, sig, what, c in sorted(keep, key=lambda x: (x[0], x[1], json.dumps(x[3], sort_keys=True))):
        if sig in rep.violations:
            continue
        got = run_component_case(c)
        if got is None:
            rep.add("unreproducible_observations")
            continue
        rep.violation(report.viol(sig, what, dict(c, part="component"), _clip(got[0]), _clip(got[1])))
    rep.part("components", factories=len(names), sequence_depth=seq_depth, sequence_and_twice_cases=n_seq,
             pair_cases=n_pair, pair_io_kinds=list(pair_ios), violating=len(bad), wall_s=round(time.time() - t0, 1))
    nontriv = n_pair + sum(nodes_below(len(FACTORIES[f][1]), seq_depth) - len(FACTORIES[f][1]) * seq_depth for f in names)
    return n_seq + n_pair, nontriv


def _clip(x):
    if isinstance(x, list):
        return [_clip(y) for y in x]
    if isinstance(x, str) and len(x) > 400:
        return x[:400] + "..."
    return x


# ---- BlockLayout reuse ---------------------------------------------------------------------------
BATCHES = {  # name -> [(block depth, kind, label, text)]
    "para": [(0, "p", None, "Heading")],
    "deep-label": [(1, "l", "a-long-label", "text one")],
    "mixed": [(0, "p", None, "USAGE"), (1, "l", "b", "text two"), (2, "l", "cc", "text three")],
    "label-first": [(0, "l", "dd", "text four"), (2, "p", None, "deep paragraph")],
}


def new_layout():
    _taint()
    from clikit.ui.layout import BlockLayout
    return BlockLayout()


def layout_batch(layout, name):
    from clikit.ui.components import LabeledParagraph, Paragraph
    for depth, kind, label, text in BATCHES[name]:
        el = Paragraph(text) if kind == "p" else LabeledParagraph(label, text)
        if depth == 0:
            layout.add(el)
        elif depth == 1:
            with layout.block():
                layout.add(el)
        else:
            with layout.block():
                with layout.block():
                    layout.add(el)
    io = make_io("plain")
    try:
        layout.render(io)
    except Exception as e:
        return "crash:" + report.exc_site(e)
    return io.fetch_output()


def run_layout(seq):
    layout = new_layout()
    out = None
    for name in seq:
        out = layout_batch(layout, name)
    return out


def layout_diffclass(ref, got):
    if got.startswith("crash:"):
        return got
    a, b = ref.split("\n"), got.split("\n")
    if [x.lstrip() for x in a] == [x.lstrip() for x in b]:
        return "indentation"
    if [re.sub(" +", " ", x.strip()) for x in a] == [re.sub(" +", " ", x.strip()) for x in b]:
        return "alignment"
    return "content"


def explore_layout(rep, depth):
    t0 = time.time()
    names = sorted(BATCHES)
    refs = {n: forked(run_layout, (n,)) for n in names}

    def step(layout, h):
        got = layout_batch(layout, h[-1])
        if got != refs[h[-1]]:
            return {"s": list(h), "d": [layout_diffclass(refs[h[-1]], got)]}
        return None

    vm = {}
    for recs in par.pmap(lambda p: tree_job(new_layout, p, names, depth, step), [(n,) for n in names]):
        for r in recs:
            vm[tuple(r["s"])] = tuple(r["d"])
    def confirm(h, sig):
        again = forked(run_layout, h)
        if again == refs[h[-1]]:
            return None
        return report.viol(sig, "a BlockLayout used again after render() lays out the batch %r differently from a fresh layout (earlier batches: %r)" % (h[-1], list(h[:-1])),
                           {"part": "layout", "batches": list(h)}, refs[h[-1]], again)

    report_minimal(rep, vm, lambda h, d: "layout-reuse:BlockLayout:" + ",".join(d), confirm)
    n = nodes_below(len(names), depth)
    rep.part("layout", batches=names, depth=depth, sequences=n, violating=len(vm), wall_s=round(time.time() - t0, 1))
    return n


# ------------------------------------------------------------------------------------------------
# part 3: table styles
# ------------------------------------------------------------------------------------------------
CHILD = r'''
import json, os, sys
os.environ["COLUMNS"] = "80"
sys.path.insert(0, sys.argv[2])
sys.path.insert(0, sys.argv[1])
import clikit
assert os.path.realpath(os.path.dirname(clikit.__file__)) == os.path.realpath(os.path.join(sys.argv[1], "clikit")), clikit.__file__
from props._c17_fixtures import run_style_steps
sys.stdout.write(json.dumps(run_style_steps(json.loads(sys.argv[3]))))
'''


def run_style_subprocess(steps):
    """the scenario in a brand-new interpreter"""
    env = dict(os.environ, PYTHONHASHSEED="0", PYTHONDONTWRITEBYTECODE="1", COLUMNS="80")
    r = subprocess.run([sys.executable, "-B", "-c", CHILD, common.SRC, common.VERIF, json.dumps(steps)],
                       capture_output=True, text=True, env=env)
    if r.returncode != 0:
        return [[-2, "crash", r.stderr.strip().split("\n")[-1][:300]]]
    return json.loads(r.stdout)


def run_style_forked(steps):
    """the scenario in a forked child of a process that imported clikit but never built a style"""
    def go():
        _taint()
        from props._c17_fixtures import run_style_steps
        try:
            return run_style_steps(steps)
        except Exception as e:
            return [[-2, "crash", "%s %r" % (report.exc_site(e), e)]]
    return forked(go)


def style_scenarios():
    """-> (fresh sub-process scenarios, forked scenarios); each (kind, steps, twin steps or None, label)"""
    fresh, fk = [], []

    def two_schedules(order):
        k = len(order)
        a = [["build", n] for n in order] + [["render", i] for i in range(k)]
        b = []
        for i, n in enumerate(order):
            b += [["build", n], ["render", i]]
        return [a, b + [["render", i] for i in range(k)]]

    for n in STYLES:  # one style alone, its table rendered three times
        fresh.append(("create", [["build", n], ["render", 0], ["render", 0], ["render", 0]], None, [n]))
    for order in itertools.permutations(STYLES, 4):
        for steps in two_schedules(order):
            fresh.append(("create", steps, None, list(order)))
    for k in (2, 3):
        for order in itertools.permutations(STYLES, k):
            for steps in two_schedules(order):
                fk.append(("create", steps, None, list(order)))
    twins = set()
    for cust in ("custom-own", "custom-border"):
        for c in STYLES:
            for order in itertools.permutations(STYLES, 4):  # customise first, then build the others (and a new one of the same kind)
                tail = [["build", n] for n in order] + [["render", i + 1] for i in range(4)] + [["render-default", 0]]
                twin = [["build", c]] + tail
                fk.append((cust + ":" + c, [["build", c], [cust, 0]] + tail, twin, [c + " customised"] + list(order)))
                twins.add(json.dumps(twin))
        for order in itertools.permutations(STYLES, 4):      # build all four, then customise one of them
            for j in range(4):
                head = [["build", n] for n in order]
                tail = [["render", i] for i in range(4) if i != j] + [["render-default", 0]]
                fk.append((cust + ":" + order[j], head + [[cust, j]] + tail, head + tail, list(order) + ["customise " + order[j]]))
                twins.add(json.dumps(head + tail))
    for t in sorted(twins):  # the un-customised twins are creation scenarios in their own right
        fk.append(("create", json.loads(t), None, "twin"))
    return fresh, fk


def style_refs():
    """the table of each style in a brand-new interpreter in which only that style was ever built"""
    refs = {}
    for n in STYLES:
        a = run_style_subprocess([["build", n], ["render", 0]])
        if a[0][1] == "crash":
            raise RuntimeError("engine error: solo style %s cannot be rendered: %r" % (n, a))
        if run_style_forked([["build", n], ["render", 0]])[0][2] != a[0][2]:
            raise RuntimeError("engine error: forked child and fresh sub-process disagree on the solo %s table" % n)
        refs[n] = a[0][2]
    refs["default"] = run_style_subprocess([["render-default", 0]])[0][2]
    return refs


def judge_style(refs, sc, runner):
    """-> (victim, expected, observed) or None"""
    kind, steps, twin, label = sc
    got = runner(steps)
    if got and got[0][1] == "crash":
        return ("crash", None, got[0][2])
    if twin is None:
        for idx, name, text in got:
            if text != refs[name]:
                return (name, refs[name], text)
        return None
    base = runner(twin)  # same scenario without the customising step: isolates the effect of customising
    for (idx, name, text), (_, _, btext) in zip(got, base):
        if text != btext:
            return (name, btext, text)
    return None


def explore_styles(rep):
    t0 = time.time()
    refs = style_refs()
    fresh, fk = style_scenarios()
    jobs = [(sc, True) for sc in fresh] + [(sc, False) for sc in fk]

    def work(j):
        sc, is_fresh = j
        return judge_style(refs, sc, run_style_subprocess if is_fresh else run_style_forked)

    bad = [(sc, is_fresh, r) for (sc, is_fresh), r in zip(jobs, par.pmap(work, jobs)) if r is not None]
    for sc, is_fresh, (victim, ref, got) in sorted(bad, key=lambda x: (len(x[0][1]), json.dumps(x[0][1]))):
        kind, steps, twin, label = sc
        if victim == "crash":
            sig = "style-crash:" + str(got)[:60]
        elif kind == "create" and sum(1 for st in steps if st[0] == "build") == 1:
            sig = "style-rerender:%s" % victim
        elif kind == "create":
            sig = "style-creation:%s" % victim
        else:
            sig = "style-%s->%s" % (kind, victim)
        if sig in rep.violations:
            continue
        if judge_style(refs, sc, run_style_subprocess if is_fresh else run_style_forked) is None:
            rep.add("unreproducible_observations")
            continue
        what = ("a table with the %s style renders differently from a process in which only that style was built" % victim if twin is None else
                "a table with the %s style renders differently once another style object has been customised" % victim)
        rep.violation(report.viol(sig, what + " (scenario: %s)" % (label,),
                                  {"part": "style", "steps": steps, "twin": twin, "fresh_subprocess": is_fresh}, ref, got))
    rep.part("styles", fresh_subprocess_scenarios=len(fresh), forked_scenarios=len(fk), violating=len(bad),
             orders_of_four=24, schedules=2, wall_s=round(time.time() - t0, 1))
    return len(jobs)


# ------------------------------------------------------------------------------------------------
def replay(case):
    _preimport()
    part = case.get("part")
    if part == "history":
        r = check_history_case(case)
        if r:
            return {"what": "history still differs in [%s]" % ", ".join(r[2]), "expected": _brief(r[0]), "observed": _brief(r[1])}
    elif part == "component":
        r = run_component_case(case)
        if r:
            return {"what": "component render still differs", "expected": _clip(r[0]), "observed": _clip(r[1])}
    elif part == "layout":
        got, ref = forked(run_layout, case["batches"]), forked(run_layout, case["batches"][-1:])
        if got != ref:
            return {"what": "layout still differs", "expected": ref, "observed": got}
    elif part == "style":
        sc = ("replay", case["steps"], case.get("twin"), "replay")
        r = judge_style(style_refs(), sc, run_style_subprocess)  # a brand-new interpreter is always a valid place to replay
        if r:
            return {"what": "style scenario still differs (%s)" % r[0], "expected": r[1], "observed": r[2]}
    else:
        raise ValueError("unknown case %r" % (case,))
    return None


def main():
    rep = report.Report(PID, "model_checking")
    _preimport()
    thorough = rep.tier == "thorough"
    spare = SPARES[rep.seed % len(SPARES)]
    full = CORE + [spare]
    tot_h, tot_r, nontriv = explore_histories(rep, "full", full, 4 if thorough else 3, MODES)
    if thorough:
        red = CORE_REDUCED + [REDUCED_ROT[rep.seed % len(REDUCED_ROT)]]
        h, r, nt = explore_histories(rep, "reduced", red, 5, MODES)
        tot_h, tot_r, nontriv = tot_h + h, tot_r + r, nontriv + nt
        rep.set("rotated_reduced_line", red[-1])
    n_comp, nt_comp = explore_components(rep, 4 if thorough else 3, IO_BASIC if thorough else ["plain"])
    n_lay = explore_layout(rep, 5 if thorough else 4)
    n_sty = explore_styles(rep)
    rep.set("rotated_line", spare)
    rep.set("states", tot_h + n_comp + n_lay)
    rep.set("transitions", tot_r + n_comp + n_lay)
    rep.set("traces_validated_against_impl", tot_h + n_comp + n_lay + n_sty)
    rep.set("evaluations", tot_h + n_comp + n_lay + n_sty)
    rep.set("distinct_nontrivial", nontriv + nt_comp)
    rep.set("exhaustive", True)
    rep.set("rule", "histories: every sequence of lines up to the depth given per part (no dedup), each judged on its last run against a fresh "
                    "application; non-trivial = a help request or a failed run precedes the judged line. components: every sequence of IO kinds "
                    "per component up to the depth, one IO object twice, every ordered pair of components; non-trivial = pairs and sequences "
                    "that do not repeat a single IO kind. styles: all 24 orders x 2 schedules in fresh python sub-processes; ordered subsets and "
                    "customising one style before/after the others in forked children of a process that never built a style")
    rep.sample({"mode": "default", "history": ["help-len", "len-surplus"]})
    rep.sample({"mode": "reused-args", "history": ["help-foo", "help-foo"]})
    rep.sample({"mode": "shared-parser", "history": ["version", "valid", "len-surplus"]})
    rep.sample({"kind": "seq", "factory": "trace/full", "ios": ["debug", "ascii-debug"]})
    rep.sample({"kind": "pair", "first": "table/compact/short", "first_io": "plain", "factory": "table/borderless/wrap", "io": "narrow"})
    rep.sample({"style_steps": [["build", "borderless"], ["build", "compact"], ["render", 0], ["render", 1]]})
    rep.assume("a fresh application / fresh object in a freshly forked process that never ran clikit code is the reference")
    rep.assume("customising a style = assigning its public attributes, including those of its border_style")
    rep.assume("BlockLayout.render consumes its elements by design; only reuse after render is judged")
    rep.assume("fork() copies the complete process state, so a forked child continues exactly the recorded history")
    return rep.finish()
