"""C20 - error traces always render and show the real message and failing line.

E1: ExceptionTrace(exc).ignore_files_in(p).render(io, simple) directly on a BufferedIO.  The exceptions come
from generated modules written to a scratch directory under /tmp (one `app/` and one `lib/` sub-directory, so
that an ignore pattern can match part of a stack), removed at the end.

Sub-spaces (each a complete product, simplest first; K = 2 quick / 3 thorough):
  src   file length {1,3,9,40} x failing line {1,2,5,middle,last-1,last} x statement shape (SHAPES)
        x verbosity (4) x UTF-8 on/off x ignore {none, lib/, matches nothing} x ANSI/plain, full mode
  msg   ALL messages of <= K fragments x {Exception, KeyError (message = repr), library error simple, library error full}
        x verbosity (4) x UTF-8 x ANSI/plain
  chain explicit/implicit causes of depth 1..3 x verbosity x UTF-8 x ignore x ANSI/plain
  rec   recursion {direct, 2-cycle, 3-cycle} in {app/, lib/} x depth {1,2,3,10,30,60} x verbosity x UTF-8 x ignore x ANSI/plain
  nosrc exec'd code / module whose file was deleted x verbosity x UTF-8 x ignore x ANSI/plain
  hl    Highlighter alone on every .py under $VERIF_REPO/src and the first 300 stdlib modules by sorted name
"""
import itertools
import os
import re
import sysconfig
import tokenize
import types

from mc import common, par, report
from props import _trace
from props._trace import nstar, strip_sgr

PID = "C20"
HERE = os.path.abspath(__file__)

VERB = ["normal", "-v", "-vv", "-vvv"]
IGNORE = ["none", "lib", "nothing"]

HELPER_SRC = '''\
def boom(make, *a):
    raise make()


def call(f, *a):
    return f(*a)


def fire(es, explicit):
    if len(es) == 1:
        raise es[0]
    try:
        fire(es[:-1], explicit)
    except BaseException as c:
        if explicit:
            raise es[-1] from c
        raise es[-1]


def direct(n, make):
    if n <= 1:
        raise make()
    direct(n - 1, make)


def ping(n, make):
    if n <= 1:
        raise make()
    pong(n - 1, make)


def pong(n, make):
    if n <= 1:
        raise make()
    ping(n - 1, make)


def tri_a(n, make):
    if n <= 1:
        raise make()
    tri_b(n - 1, make)


def tri_b(n, make):
    if n <= 1:
        raise make()
    tri_c(n - 1, make)


def tri_c(n, make):
    if n <= 1:
        raise make()
    tri_a(n - 1, make)


def via_exec(make):
    code = compile("def g(make):\\n    raise make()\\n\\ng(make)\\n", "<string>", "exec")
    exec(code, {"make": make})
'''

GONE_SRC = '''\
def inner(make):
    raise make()


def outer(make):
    inner(make)
'''

# shape -> (statement lines with {i} = indentation, index of the line that is put on the target line)
SHAPES = [
    ("plain", ["{i}raise make()"], 0),
    ("comment", ["{i}raise make()  # trailing comment with 'quotes' and a > b"], 0),
    ("semicolon", ["{i}v = 1; raise make()"], 0),
    ("multiline_call", ["{i}raise make(", "{i}    1,", "{i}    'two',", "{i})"], 0),
    ("nested_call", ["{i}value = [", "{i}    1,", "{i}    helper.boom(make),", "{i}]"], 2),
    ("open_paren_line", ["{i}helper.call(", "{i}    helper.boom, make", "{i})"], 0),
    ("after_triple", ['{i}doc = """first', "second line", '{i}third"""', "{i}raise make()"], 3),
    ("triple_same_line", ['{i}doc = """first', 'second"""; raise make()'], 1),
    ("docstring_then_blank", ['{i}"""doc', "", '{i}"""', "", "{i}raise make()"], 4),
    ("tabs", ["{i}raise make()\t# tab\tseparated"], 0),
    ("nonascii", ['{i}café = "naïve ✓ 日本"  # cømment', "{i}raise make(café)"], 1),
    ("lambda", ["{i}(lambda: helper.boom(make))()"], 0),
    ("long_line", ["{i}raise make(" + ", ".join(str(k) for k in range(70)) + ")"], 0),
    ("continuation", ["{i}raise \\", "{i}    make()"], 0),
    # a continuation line that holds nothing but the backslash, before the failing statement
    ("continuation_blank", ["{i}v = 1 + \\", "{i}    \\", "{i}    2", "{i}raise make()"], 3),
    # the file begins with a lone continuation backslash (legal: joins an empty line with the next one)
    ("continuation_leading", ["\\", "raise make()"], 1),
    ("fstring", ["{i}raise make(f\"{1 + 1} {'q'!r:>4} z\")"], 0),
    ("fstring_braces", ['{i}raise make(f"{{literal}} {1 + 1}")'], 0),
    ("fstring_multiline", ['{i}raise make(f"""a {', "{i}    1 + 1", '{i}} b""")'], 0),
    ("noeol", ["{i}raise make()"], 0),
    ("crlf", ["{i}raise make()  # crlf"], 0),
    ("unknown_tag", ['{i}raise make("<foo> <x>")  # <not-a-style>'], 0),
    ("markup_pair", ['{i}raise make("<info>i</info> <b>bold</b>")'], 0),
    ("markup_open", ['{i}tag = "<b>"', "{i}raise make(tag)"], 1),
    ("markup_close", ['{i}tag = "</b>"', "{i}raise make(tag)"], 1),
    ("markup_inline", ['{i}tag = "<fg=red>red</>"', "{i}raise make(tag)"], 1),
    ("markup_cross", ['{i}tag = "<b>" + "</info>"', "{i}raise make(tag)"], 1),
    ("markup_escaped", ["{i}raise make()  # \\</info>"], 0),
    ("markup_badcolor", ['{i}tag = "<fg=nope>"', "{i}raise make(tag)"], 1),
    ("latin1", ["{i}raise make('é')"], 0),
    # the file is saved with a UTF-8 byte order mark (Windows editors): columns of line 1 are easy to get wrong
    ("bom", ["{i}raise make(1, 'two')  # three"], 0),
    # a non-final frame whose line is the first line of a multi-line call (does not tokenize on its own) and carries markup
    ("open_paren_markup", ["{i}helper.call(  # <b></info>", "{i}    helper.boom, make", "{i})"], 0),
    ("open_paren_close_tag", ["{i}helper.call(  # x </info> y", "{i}    helper.boom, make", "{i})"], 0),
]
SHAPE = {s[0]: s for s in SHAPES}


def positions():
    """(file length, target line) pairs: {1,2,5,middle,last-1,last} that exist in the file"""
    out = []
    for L in (1, 3, 9, 40):
        ts = []
        for t in (1, 2, 5, (L + 1) // 2, L - 1, L):
            if 1 <= t <= L and t not in ts:
                ts.append(t)
        out += [(L, t) for t in sorted(ts)]
    return out


def filler(n, ind):
    k = n % 4
    if k == 0:
        return "%sv%d = %d" % (ind, n, n)
    if k == 1:
        return "%s# note %d" % (ind, n)
    if k == 2:
        return ""
    return "%ss%d = 'text %d'" % (ind, n, n)


def gen_source(L, T, shape):
    """-> (bytes, module_level) or None when the shape does not fit.  Line T carries the anchor line of the
    statement.  Statement starting on line 1 = module level; otherwise line 1 is `def entry(make):`."""
    _, stmt, anchor = SHAPE[shape]
    start = T - anchor
    end = start + len(stmt) - 1
    if start < 1 or end > L:
        return None
    if shape == "noeol" and end != L:
        return None
    if shape == "continuation_leading" and start != 1:
        return None  # the lone backslash must be the first line of the file
    module_level = start == 1
    ind = "" if module_level else ("\t" if shape == "tabs" else "    ")
    lines = []
    if shape == "latin1":
        if start < 3:
            return None
        lines.append("# -*- coding: latin-1 -*-")
    if not module_level:
        lines.append("def entry(make):")
    while len(lines) < start - 1:
        lines.append(filler(len(lines) + 1, ind))
    lines += [s.replace("{i}", ind) for s in stmt]
    while len(lines) < L:
        lines.append(filler(len(lines) + 1, ind))
    nl = "\r\n" if shape == "crlf" else "\n"
    text = nl.join(lines) + ("" if shape == "noeol" else nl)
    data = text.encode("latin-1" if shape == "latin1" else "utf-8")
    if shape == "bom":
        data = b"\xef\xbb\xbf" + data
    return data, module_level


# ------------------------------------------------------------------------------------------------
class Env(object):
    def __init__(self):
        self.scratch = _trace.Scratch("c04-c20")
        self.app = os.path.join(self.scratch.dir, "app")
        self.lib = os.path.join(self.scratch.dir, "lib")
        os.mkdir(self.app)
        os.mkdir(self.lib)
        self.files = {}  # path -> bytes
        self.helper = self.load(os.path.join(self.lib, "helper.py"), HELPER_SRC.encode())
        self.apphelper = self.load(os.path.join(self.app, "helper.py"), HELPER_SRC.encode())
        gone = os.path.join(self.app, "gone.py")
        self.gone = self.load(gone, GONE_SRC.encode())
        os.unlink(gone)
        del self.files[gone]
        self.sources = {}
        for (L, T), (shape, _, _) in itertools.product(positions(), SHAPES):
            g = gen_source(L, T, shape)
            if g:
                p = os.path.join(self.app, "m_%s_%d_%d.py" % (shape, L, T))
                with open(p, "wb") as f:
                    f.write(g[0])
                self.files[p] = g[0]
                self.sources[(L, T, shape)] = (p, g[0], g[1])

    def load(self, path, data):
        with open(path, "wb") as f:
            f.write(data)
        self.files[path] = data
        g = {"__name__": "_verif_" + os.path.basename(path)[:-3], "__file__": path}
        exec(compile(data, path, "exec"), g)
        return g

    def close(self):
        self.scratch.close()


def own_frames_removed(e):
    tb = e.__traceback__
    while tb is not None and os.path.abspath(tb.tb_frame.f_code.co_filename) == HERE:
        tb = tb.tb_next
    return e.with_traceback(tb)


def real_frames(e):
    out = []
    tb = e.__traceback__
    while tb is not None:
        out.append((tb.tb_frame.f_code.co_filename, tb.tb_lineno, tb.tb_frame.f_code.co_name))
        tb = tb.tb_next
    return out


def classes():
    from clikit.api.exceptions import CliKitException

    class AppError(CliKitException):
        pass

    return {"Exception": Exception, "KeyError": KeyError, "ValueError": ValueError, "OSError": OSError,
            "RuntimeError": RuntimeError, "AppError": AppError}


def raise_case(env, case):
    """Produces the exception of a case (raised for real, frames of this file removed)."""
    cl = classes()
    kind = case[0]
    try:
        if kind == "src":
            _, L, T, shape = case[:4]
            path, data, module_level = env.sources[(L, T, shape)]
            make = lambda *a: ValueError("x")  # noqa
            g = {"__name__": "_verif_m", "__file__": path, "make": make, "helper": types.SimpleNamespace(**env.helper)}
            code = compile(data, path, "exec")
            exec(code, g)
            g["entry"](make)
        elif kind == "msg":
            _, cname, msg = case[:3]
            path, data, _ = env.sources[(9, 5, "plain")]
            make = lambda *a: cl[cname](msg)  # noqa
            g = {"__name__": "_verif_m", "__file__": path}
            exec(compile(data, path, "exec"), g)
            g["entry"](make)
        elif kind == "chain":
            _, explicit, depth = case[:3]
            names = ["OSError", "KeyError", "RuntimeError"][:depth]
            env.helper["call"](env.apphelper["fire"], [cl[n]("x") for n in names], explicit)
        elif kind == "rec":
            _, where, pattern, depth = case[:4]
            h = env.apphelper if where == "app" else env.helper
            fn = {"direct": "direct", "cycle2": "ping", "cycle3": "tri_a"}[pattern]
            env.apphelper["call"](h[fn], depth, lambda: ValueError("x"))
        elif kind == "nosrc":
            which = case[1]
            if which == "exec":
                env.apphelper["via_exec"](lambda: ValueError("x"))
            else:
                env.helper["call"](env.gone["outer"], lambda: ValueError("x"))
    except Exception as e:
        e = own_frames_removed(e)
        fr = real_frames(e)
        if not fr or not all(f[0].startswith(env.scratch.dir) or f[0] == "<string>" for f in fr):
            raise RuntimeError("engine error: case %r produced %r with frames %r" % (case, e, fr))
        return e
    raise RuntimeError("engine error: case %r raised nothing" % (case,))


def make_io(verb, utf8, ansi):
    from clikit.api.io.flags import DEBUG, VERBOSE, VERY_VERBOSE
    from clikit.formatter import AnsiFormatter, PlainFormatter
    from clikit.io.buffered_io import BufferedIO

    io = BufferedIO(formatter=AnsiFormatter(forced=True) if ansi else PlainFormatter(), supports_utf8=utf8)
    lvl = {"normal": 0, "-v": VERBOSE, "-vv": VERY_VERBOSE, "-vvv": DEBUG}[verb]
    if lvl:
        io.set_verbosity(lvl)
    return io


# ---- reading the rendered text -----------------------------------------------------------------
HDR_AT = re.compile(r"^ *at (.+):(\d+) in (\S+)$")
HDR_FR = re.compile(r"^ *(\d+)  (.+):(\d+) in (\S+)$")
SNIP = re.compile(r"^ *(?:(→|>) )? *(\d+)(│|\|) ?(.*)$", re.S)

REGISTERED = {"info", "comment", "question", "error", "b", "u", "c1", "c2"}
_TAGR = re.compile(r"(?is)<(/?)([a-z][a-z0-9,_=;-]*)?>")


def _tag_sub(m):
    name = (m.group(2) or "").lower()
    if name == "" and m.group(1) != "/":
        return m.group(0)  # "<>"
    if name == "" or name in REGISTERED or "=" in name:
        return ""
    return m.group(0)


def nreg(s):
    """'markup of registered styles aside': removes tags of registered styles, inline styles (fg=..), '</>' and a
    backslash run before '<', to a fixpoint; every other character has to be shown."""
    while True:
        t = _TAGR.sub(_tag_sub, re.sub(r"\\+(?=<)", "", s))
        if t == s:
            return s
        s = t


def source_info(data):
    """-> (lines, set of 1-based rows that belong to a token spanning several lines).  None if undecodable."""
    import io as _io
    try:
        enc, _ = tokenize.detect_encoding(_io.BytesIO(data).readline)
        text = data.decode(enc)
    except Exception:
        return None
    text = text.replace("\r\n", "\n").replace("\r", "\n")
    lines = text.split("\n")
    if lines and lines[-1] == "":
        lines.pop()
    multi = set()
    try:
        for tok in tokenize.tokenize(_io.BytesIO(text.encode("utf-8")).readline):
            if tok.start[0] != tok.end[0] and tok.type not in (tokenize.NEWLINE, tokenize.NL):
                multi.update(range(tok.start[0], tok.end[0] + 1))
    except (tokenize.TokenError, SyntaxError):
        return lines, None
    return lines, multi


def differing_line_kind(lines, n, shown):
    """How source line n differs from what is shown, most specific first.  The two kinds that are listed as known findings are
    recognised narrowly, so that any other difference keeps a signature of its own:
      continuation                   the line ends in a continuation backslash and is shown exactly without it
      shifted-by-blank-continuation  a line holding nothing but a backslash stands above, and the text shown is the
                                     neighbouring source line (everything below such a line is moved by one)"""
    src = lines[n - 1]
    if src.rstrip().endswith("\\") and nreg(shown).rstrip() == nreg(src.rstrip()[:-1]).rstrip():
        return "continuation"
    if any(l.strip() == "\\" for l in lines[:n]):
        near = [lines[k] for k in (n - 2, n) if 0 <= k < len(lines)]
        if any(nreg(shown).strip() == nreg(x.rstrip().rstrip("\\")).strip() for x in near) or nreg(shown).strip() == "":
            return "shifted-by-blank-continuation"
    f = line_feature(src)
    return "continuation-other" if f == "continuation" else f


_KNOWN_KINDS = ("continuation", "shifted-by-blank-continuation")


def worst_difference(diffs):
    """diffs = [(n, source, shown, kind)] -> the one to report: a kind that is not a known finding first"""
    for d in diffs:
        if d[3] not in _KNOWN_KINDS:
            return d
    for d in diffs:
        if d[3] == "shifted-by-blank-continuation":
            return d
    return diffs[0]


def line_feature(src):
    s = src.rstrip()
    if s.endswith("\\"):
        return "continuation"
    if "{{" in s or "}}" in s:
        return "fstring-braces"
    if "\t" in s:
        return "tab"
    if "<" in s:
        return "angle"
    if any(ord(c) > 127 for c in s):
        return "nonascii"
    return "other"


def parse(plain):
    """-> (listing entries [(header(path, lineno, func), index, [snippet rows] or None, code line or None)],
           current (header, rows) or None)"""
    lines = plain.split("\n")
    listing = []
    current = None
    i = 0
    while i < len(lines):
        ln = lines[i]
        m_at = HDR_AT.match(ln)
        m_fr = HDR_FR.match(ln) if not m_at else None
        if not (m_at or m_fr):
            i += 1
            continue
        hdr = (m_at.group(1), int(m_at.group(2)), m_at.group(3)) if m_at else (m_fr.group(2), int(m_fr.group(3)), m_fr.group(4))
        rows = []
        j = i + 1
        while j < len(lines):
            m = SNIP.match(lines[j])
            if not m or lines[j].strip() == "":
                break
            rows.append((m.group(1) is not None, int(m.group(2)), m.group(4)))
            j += 1
        if m_at:
            current = (hdr, rows)
        else:
            code = None
            if not rows and i + 1 < len(lines):
                code = lines[i + 1]
            listing.append((hdr, int(m_fr.group(1)), rows or None, code))
        i = max(j, i + 1)
    return listing, current


# ---- the oracle ---------------------------------------------------------------------------------
_INFO = {}


def check_render(env, case, exc, verb, utf8, ignore, ansi, simple, keep_caches=False, minimal=False, trace=None):
    from clikit.ui.components.exception_trace import ExceptionTrace

    if not keep_caches:
        _trace.clear_trace_caches()
    io = make_io(verb, utf8, ansi)
    pattern = {"none": None, "lib": "^" + re.escape(env.lib + os.sep), "nothing": "^/nonexistent-dir/", "pseudo": r"^<string>$", "empty": ""}[ignore]
    if trace is None:
        trace = ExceptionTrace(exc)
        if pattern is not None:
            trace.ignore_files_in(pattern)
    if pattern == "":
        pattern = None  # an empty "ignored path" setting names no path: nothing is ignored
    frames = real_frames(exc)

    def bad(sig, what, expected=None, observed=None):
        return report.viol(sig, what, case, expected, observed)

    try:
        trace.render(io, simple)
    except Exception as e:
        return bad("crash:" + _trace.crash_site(e), "render raised %s: %s" % (type(e).__name__, e),
                   "render returns", {"exception": repr(e), "output_so_far": strip_sgr(io.fetch_output())[-300:]})
    text = io.fetch_output() + io.fetch_error()
    plain = strip_sgr(text)
    msg = str(exc)
    if not _trace.message_shown(plain, msg):
        return bad("msg-missing:%s:%s" % ("simple" if simple else "full", _trace.classify_message(msg)),
                   "the message %r is not in the rendered text (style markup aside)" % msg,
                   [nstar(l) for l in msg.split("\n")], plain[:400])
    if simple:
        return None
    if type(exc).__name__ not in plain:
        return bad("name-missing", "class name %s not in the rendered text" % type(exc).__name__, type(exc).__name__, plain[:400])
    if minimal:
        return None
    listing, current = parse(plain)
    debug = verb == "-vvv"

    def source_of(path):
        if path not in _INFO:
            d = env.files.get(path)
            _INFO[path] = source_info(d) if d is not None else None
        return _INFO[path]

    def check_rows(hdr, rows, where):
        nums = [r[1] for r in rows]
        if nums != list(range(nums[0], nums[0] + len(nums))):
            return bad("snippet:numbers-not-consecutive", "%s snippet of %s:%d numbers its lines %r" % (where, hdr[0], hdr[1], nums), "consecutive", nums)
        marked = [r[1] for r in rows if r[0]]
        if len(marked) != 1:
            return bad("snippet:marker-count", "%s snippet of %s:%d marks %r" % (where, hdr[0], hdr[1], marked), [hdr[1]], marked)
        if marked[0] != hdr[1]:
            return bad("snippet:marker-on-wrong-line", "%s snippet of %s:%d marks line %d" % (where, hdr[0], hdr[1], marked[0]), hdr[1], marked[0])
        info = source_of(hdr[0])
        if info:
            lines, multi = info
            diffs = []
            for _, n, shown in rows:
                if n == len(lines) + 1 and shown.strip() == "":
                    # An empty extra line after the final newline of a file that ends inside an indented block is
                    # accepted: two repo tests (test_render_can_ignore_given_files, ..._shows_ignored_files_if_in_debug_mode)
                    # pin exactly that output ("6| " for the 5-line helpers.py), so it is treated as intended.
                    continue
                if n > len(lines):
                    return bad("snippet:line-beyond-file", "line %d shown, file has %d" % (n, len(lines)), len(lines), n)
                if multi is None or n in multi:
                    continue
                if nreg(shown).rstrip() != nreg(lines[n - 1]).rstrip():
                    diffs.append((n, lines[n - 1], shown, differing_line_kind(lines, n, shown)))
            if diffs:
                n, src, shown, kind = worst_difference(diffs)
                return bad("snippet:line-differs:" + kind, "%s snippet of %s shows line %d differently" % (where, hdr[0], n), src, shown)
        return None

    last = frames[-1]
    has_source = last[0] in env.files and len(env.files[last[0]]) > 0
    if has_source and source_of(last[0]) is not None:
        if current is None or not current[1]:
            return bad("snippet:missing", "no code snippet for the failing frame %s:%d" % (last[0], last[1]), "a snippet", plain[-400:])
        if current[0] != last:
            return bad("snippet:wrong-frame", "snippet header %r is not the failing frame" % (current[0],), last, current[0])
        v = check_rows(current[0], current[1], "current")
        if v:
            return v
    # frame listing
    shown = [e[0] for e in listing]
    if verb == "normal":
        return None  # the statement does not say whether frames are listed without -v: nothing demanded
    ignored = lambda f: pattern is not None and re.match(pattern, f[0]) is not None  # noqa
    for h in shown:
        if h not in frames:
            return bad("trace:invented-frame", "listed frame %r is not a frame of the exception" % (h,), frames, h)
        if not debug and ignored(h):
            return bad("trace:ignored-frame-listed", "frame %r lies under the ignored path and is listed at %s" % (h, verb), "left out", h)
    for f in frames[:-1]:
        if f not in shown and (debug or not ignored(f)):
            # the last listed non-ignored frame takes the role of 'frame before the failing one'; when every frame but
            # ignored ones are gone the renderer drops one more (its count is len-1): not demanded here
            visible = [x for x in frames if debug or not ignored(x)]
            if f == visible[-1]:
                continue
            return bad("trace:frame-missing" + (":ignored-in-debug" if ignored(f) else ""), "frame %r is not listed at %s" % (f, verb), f, shown)
    for hdr, idx, rows, code in listing:
        if rows:
            v = check_rows(hdr, rows, "listing")
            if v:
                return v
        elif code is not None and not debug:
            info = source_of(hdr[0])
            if info and info[1] is not None and hdr[1] <= len(info[0]) and hdr[1] not in info[1]:
                src = info[0][hdr[1] - 1]
                if nreg(code).strip() != nreg(src).strip():
                    return bad("trace:stack-line-differs:" + differing_line_kind(info[0], hdr[1], code), "listing shows line %d of %s differently" % (hdr[1], hdr[0]), src.strip(), code.strip())
    return None


def check_highlighter(path):
    """Highlighter alone on one file -> violation or None"""
    from clikit.io.buffered_io import BufferedIO
    from clikit.ui.components.exception_trace import Highlighter

    case = ["hl", path]
    try:
        with open(path, "rb") as f:
            data = f.read()
        compile(data, path, "exec", dont_inherit=True)
    except Exception:
        return "skipped"
    info = source_info(data)
    if info is None:
        return "skipped"
    lines, multi = info
    import io as _io
    enc, _ = tokenize.detect_encoding(_io.BytesIO(data).readline)
    text = data.decode(enc)
    try:
        out = Highlighter(supports_utf8=True).highlighted_lines(text)
    except Exception as e:
        return report.viol("crash:" + _trace.crash_site(e) + ":highlighter", "Highlighter raised %s: %s on %s" % (type(e).__name__, e, os.path.basename(path)),
                           case, "a list of lines", repr(e))
    want = len(lines)
    extra_empty = len(out) == want + 1 and nstar(out[-1]).strip() == ""  # see check_rows: pinned by repo tests
    if len(out) != want and not extra_empty and not (want == 0 and len(out) <= 1):
        return report.viol("highlighter:line-count", "%s: %d lines highlighted, source has %d" % (os.path.basename(path), len(out), want), case, want, len(out))
    if multi is None:
        return None
    io = BufferedIO()
    hdiffs = []
    for n, hl in enumerate(out, 1):
        if n in multi or n > want:
            continue
        if "<" in lines[n - 1] or "<" in (lines[n - 2] if n > 1 else ""):
            io = BufferedIO()  # a line with '<' may leave styles open; every other line is balanced
        io.clear_output()
        try:
            io.write_line(hl)
        except Exception as e:
            return report.viol("crash:" + _trace.crash_site(e) + ":highlighted-line", "writing highlighted line %d of %s raised %s: %s" % (n, os.path.basename(path), type(e).__name__, e),
                               case + [n], "line is written", {"source": lines[n - 1], "highlighted": hl})
        shown = io.fetch_output()
        if nreg(shown).rstrip() != nreg(lines[n - 1]).rstrip():
            hdiffs.append((n, lines[n - 1], shown, differing_line_kind(lines, n, shown.rstrip("\n"))))
    if hdiffs:
        n, src, shown, kind = worst_difference(hdiffs)
        return report.viol("highlighter:line-differs:" + kind, "%s line %d is shown differently" % (os.path.basename(path), n), case + [n], src, shown)
    return None


def corpus():
    src = os.path.join(common.REPO, "src")
    own = []
    for d, _, fs in sorted(os.walk(src)):
        own += [os.path.join(d, f) for f in sorted(fs) if f.endswith(".py")]
    std = sysconfig.get_paths()["stdlib"]
    mods = []
    for d, ds, fs in os.walk(std):
        ds[:] = [x for x in ds if x not in ("site-packages", "test", "tests", "__pycache__", "idle_test")]
        mods += [os.path.relpath(os.path.join(d, f), std) for f in fs if f.endswith(".py")]
    mods = sorted(mods)[:300]
    return sorted(own) + [os.path.join(std, m) for m in mods]


# ---- enumeration ---------------------------------------------------------------------------------
def bound(tier):
    return 3 if tier == "thorough" else 2


def cases(env, tier):
    k = bound(tier)
    for (L, T), (shape, _, _) in itertools.product(positions(), SHAPES):
        if (L, T, shape) in env.sources:
            for verb, utf8, ignore, ansi in itertools.product(VERB, (True, False), IGNORE, (False, True)):
                yield ["src", L, T, shape, verb, utf8, ignore, ansi]
    for which in ("exec", "gone"):
        # exec'd code has the pseudo file name "<string>": a pattern naming it must hide its frames like any other
        for verb, utf8, ignore, ansi in itertools.product(VERB, (True, False), tuple(IGNORE) + (("pseudo",) if which == "exec" else ("empty",)), (False, True)):
            yield ["nosrc", which, verb, utf8, ignore, ansi]
    for verb1, verb2, utf8, ansi, recreate in itertools.product(VERB, VERB, (True, False), (False, True), (False, True, "short", "short-fresh")):
        yield ["vanish", verb1, verb2, utf8, ansi, recreate]
    for which, verb, utf8, ansi in itertools.product(sorted(FOREIGN_TEXTS), VERB, (True, False), (False, True)):
        yield ["foreign", which, verb, utf8, ansi]
    for name, verb, ansi, as_home in itertools.product(CWD_NAMES, VERB, (False, True), (False, True)):
        yield ["cwd", name, verb, ansi, as_home]
    for where, verb1, verb2, utf8a, utf8b, ansi in itertools.product(("app", "lib"), VERB, VERB, (True, False), (True, False), (False, True)):
        yield ["rerender", where, verb1, verb2, utf8a, utf8b, ansi]
    for depth, explicit in itertools.product((1, 2, 3), (True, False)):
        for verb, utf8, ignore, ansi in itertools.product(VERB, (True, False), IGNORE, (False, True)):
            yield ["chain", explicit, depth, verb, utf8, ignore, ansi]
    for depth, pattern, where in itertools.product((1, 2, 3, 10, 30, 60), ("direct", "cycle2", "cycle3"), ("app", "lib")):
        for verb, utf8, ignore, ansi in itertools.product(VERB, (True, False), IGNORE, (False, True)):
            yield ["rec", where, pattern, depth, verb, utf8, ignore, ansi]
    for msg in _trace.messages(k):
        for cname, simple in (("Exception", False), ("KeyError", False), ("AppError", True), ("AppError", False)):
            for verb, utf8, ansi in itertools.product(VERB, (True, False), (False, True)):
                yield ["msg", cname, msg, simple, verb, utf8, ansi]


VANISH_SRC = """def outer(make):
    return inner(make)


def inner(make):
    raise make()
"""


def run_vanish(env, case):
    """A source file that disappears between two renders: the module is loaded, an error from it is
    rendered (which fills whatever caches the renderer keeps), the file is removed, and a second error
    from the still-loaded code is rendered WITHOUT clearing any cache in between.  Both renders are
    judged by the ordinary oracle; the file's text stays known to the oracle (env.files)."""
    _, verb1, verb2, utf8, ansi, recreate = case
    path = os.path.join(env.app, "vanish_%d.py" % os.getpid())
    g = env.load(path, VANISH_SRC.encode())
    try:
        def fail():
            try:
                env.helper["call"](g["outer"], lambda: ValueError("x"))
            except Exception as e:
                return own_frames_removed(e)
        v = check_render(env, case, fail(), verb1, True, "none", ansi, False)
        if v:
            return v
        os.unlink(path)
        short = isinstance(recreate, str)
        if short:
            with open(path, "wb") as f:  # the file was cut down: the failing lines lie beyond its end now
                f.write(VANISH_SRC.encode().split(b"\n")[0] + b"\n")
        elif recreate:
            with open(path, "wb") as f:  # an edited file: same code object is still running
                f.write(VANISH_SRC.encode())
        if short or not recreate:
            # the source is unavailable now: only "renders, names the class, shows the message" is demanded
            env.files.pop(path, None)
            _INFO.pop(path, None)
        v = check_render(env, case, fail(), verb2, utf8, "none", ansi, False, keep_caches=(recreate != "short-fresh"),
                         minimal=short or not recreate)
        if v:
            v["sig"] = "vanish:" + v["sig"]
        return v
    finally:
        if os.path.exists(path):
            os.unlink(path)
        env.files.pop(path, None)
        _INFO.pop(path, None)


def run_rerender(env, case):
    """One ExceptionTrace object (with an ignore pattern that matches part of the stack) rendered twice, on two IOs of
    different verbosity / UTF-8 support: each rendering is judged by the ordinary oracle for ITS io."""
    from clikit.ui.components.exception_trace import ExceptionTrace
    _, where, verb1, verb2, utf8a, utf8b, ansi = case
    exc = raise_case(env, ["rec", where, "cycle2", 3])
    _trace.clear_trace_caches()
    trace = ExceptionTrace(exc)
    trace.ignore_files_in("^" + re.escape(env.lib + os.sep))
    v = check_render(env, case, exc, verb1, utf8a, "lib", ansi, False, keep_caches=True, trace=trace)
    if v:
        return v
    v = check_render(env, case, exc, verb2, utf8b, "lib", ansi, False, keep_caches=True, trace=trace)
    if v:
        v["sig"] = "rerender:" + v["sig"]
    return v


FOREIGN_TEXTS = {
    "html-apostrophe": "<html>\n  <p>It's {{ value }</p>\n  {% for x in items %}\n</html>\n",
    "open-bracket": "rules:\n  - match: [a, b\n  - then: (x\n\n\n",
    "bad-indent": "section\n      deep\n   back\n  again\n",
    "markup": "<b>bold</info> <fg=nope> \\</b>\nline two\nline three\n",
    "empty": "",
}


def run_foreign(env, case):
    """Code compiled under the file name of a text file that is not Python (what template engines do): the frame
    points into that file.  Demanded: renders, names the class, shows the message."""
    _, which, verb, utf8, ansi = case
    path = os.path.join(env.app, "foreign_%s_%d.txt" % (which, os.getpid()))
    with open(path, "wb") as f:
        f.write(FOREIGN_TEXTS[which].encode())
    try:
        code = compile("\n\ndef tmpl(make):\n    raise make()\n", path, "exec")
        g = {}
        exec(code, g)
        try:
            env.helper["call"](g["tmpl"], lambda: ValueError("x"))
        except Exception as e:
            exc = own_frames_removed(e)
        v = check_render(env, case, exc, verb, utf8, "none", ansi, False, minimal=True)
    finally:
        os.unlink(path)
    if v:
        v["sig"] = "foreign-file:" + v["sig"]
    return v


CWD_NAMES = ["reports [old-2019]", "a(b", "x*y?", "c++", "back\\slash", "dots.and$", "(removed)"]


def run_cwd(env, case):
    """The process runs in (and HOME points to) a directory whose name is full of characters that are special in
    regular expressions / markup: the renderer shortens paths relative to them and must treat them as plain text."""
    _, name, verb, ansi, as_home = case
    d = os.path.join(env.scratch.dir, "cwd", name)
    os.makedirs(d, exist_ok=True)
    old, old_home = os.getcwd(), os.environ.get("HOME")
    exc = raise_case(env, ["src", 9, 5, "plain"])
    try:
        os.chdir(d)
        if as_home:
            os.environ["HOME"] = d
        if name == "(removed)":
            os.rmdir(d)  # the process's working directory no longer exists (a command that cleaned up after itself)
        v = check_render(env, case, exc, verb, True, "none", ansi, False)
    finally:
        os.chdir(old)
        if old_home is None:
            os.environ.pop("HOME", None)
        else:
            os.environ["HOME"] = old_home
    if v:
        v["sig"] = "cwd:" + v["sig"]
    return v


def run_case(env, case):
    kind = case[0]
    if kind == "cwd":
        return run_cwd(env, case)
    if kind == "foreign":
        return run_foreign(env, case)
    if kind == "vanish":
        return run_vanish(env, case)
    if kind == "rerender":
        return run_rerender(env, case)
    if kind == "hl":
        v = check_highlighter(case[1])
        return None if v == "skipped" else v
    exc = raise_case(env, case)
    if kind == "msg":
        _, cname, msg, simple, verb, utf8, ansi = case
        return check_render(env, case, exc, verb, utf8, "none", ansi, simple)
    verb, utf8, ignore, ansi = case[-4:]
    return check_render(env, case, exc, verb, utf8, ignore, ansi, False)


def nontrivial(case):
    """not the test-suite situation (plain raise, message without markup, normal verbosity, no ignore pattern)"""
    if case[0] == "src":
        return case[3] != "plain" or case[4] != "normal" or case[6] != "none"
    if case[0] == "msg":
        return "<" in case[2] or "\\" in case[2] or "\n" in case[2] or case[3]
    return True


def replay(case):
    env = Env()
    try:
        return run_case(env, case)
    finally:
        env.close()


def main():
    rep = report.Report(PID, "exploration")
    env = Env()
    tier = rep.tier
    allc = list(cases(env, tier)) + [["hl", p] for p in corpus()]
    n = max(1, len(allc) // 400)
    shares = [list(range(i, min(i + n, len(allc)))) for i in range(0, len(allc), n)]

    def work(idx):
        found = {}
        nt = skipped = 0
        for i in idx:
            case = allc[i]
            if case[0] == "hl":
                v = check_highlighter(case[1])
                if v == "skipped":
                    skipped += 1
                    continue
            else:
                v = run_case(env, case)
            if nontrivial(case):
                nt += 1
            if v and v["sig"] not in found and len(found) < 20:
                found[v["sig"]] = (i, v)
        return nt, skipped, list(found.values())

    try:
        res = par.pmap(work, shares)
    finally:
        env.close()
    rep.merge([v for _, v in sorted((iv for r in res for iv in r[2]), key=lambda iv: iv[0])])
    parts = {}
    for c in allc:
        parts[c[0]] = parts.get(c[0], 0) + 1
    rep.set("evaluations", len(allc) - sum(r[1] for r in res))
    rep.set("distinct_nontrivial", sum(r[0] for r in res))
    rep.set("by_part", parts)
    rep.set("generated_sources", len(env.sources))
    rep.set("shapes", [s[0] for s in SHAPES])
    rep.set("corpus_files", parts.get("hl", 0))
    rep.set("corpus_files_skipped_not_compilable", sum(r[1] for r in res))
    rep.set("max_fragments", bound(tier))
    rep.set("exhaustive", True)
    rep.set("rule", "each case is a distinct tuple of one of the products in the module docstring (generated, never sampled); non-trivial = "
                    "differs from what the 11 repo tests render: a statement shape other than a plain raise, or a verbosity/ignore pattern, "
                    "or a message with markup/backslash/newline or simple mode, or chains/recursion/source-less code/corpus file")
    for c in allc[:: max(1, len(allc) // 7)][:8]:
        rep.sample(c)
    rep.assume("style markup aside: nstar()/nreg() in props/_trace.py and this file; SGR sequences removed by an own regex")
    rep.assume("frames of this checker's own file are removed from the traceback before rendering (with_traceback)")
    rep.assume("ExceptionTrace._FRAME_SNIPPET_CACHE, crashtest's Frame._content_cache and linecache are cleared before every case (order independence; the cache itself is C17's subject)")
    rep.assume("an empty extra line numbered <last line + 1> after the final newline of a file is accepted (pinned by two repo tests)")
    rep.assume("frame listing at -v/-vv/-vvv: every listed frame is a frame of the exception; frames under the ignored path are absent "
               "unless debug; every other frame before the failing one is listed at least once (folding of repeats aside) - read off the "
               "statement's 'frames under an ignored path are left out unless the verbosity is debug'")
    rep.assume("a listed frame is recognised by the renderer's own header format '<n>  <path>:<line> in <function>'; generated sources and messages contain no such text")
    return rep.finish()
