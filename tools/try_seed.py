#!/venv/bin/python
"""try_seed.py <seeded-id or patch path> <ID> [<ID> ...] : run the named checks (quick) against a scratch copy with the change."""
import os, shutil, subprocess, sys, tempfile
V = os.path.dirname(os.path.dirname(os.path.abspath(__file__)))
name, ids = sys.argv[1], sys.argv[2:]
patch = name if os.path.exists(name) else os.path.join(V, "seeded", name, "patch.diff")
tmp = tempfile.mkdtemp(prefix="clikit-try-", dir="/tmp")
try:
    shutil.copytree("/repo/src", os.path.join(tmp, "src"))
    r = subprocess.run(["patch", "-p1", "-s", "-d", tmp, "-i", patch], capture_output=True, text=True)
    if r.returncode:
        print("PATCH FAILED", r.stdout, r.stderr); sys.exit(2)
    for pid in ids:
        env = dict(os.environ, VERIF_REPO=tmp, VERIF_OUT=os.path.join(tmp, "out"))
        r = subprocess.run([os.path.join(V, "check"), pid], capture_output=True, text=True, env=env, cwd=V)
        sigs = [l.strip() for l in r.stdout.splitlines() if l.startswith("  ") and not l.startswith("    ")]
        print(name, pid, "rc=%d" % r.returncode, "; ".join(sigs)[:300], r.stderr[-400:] if r.returncode not in (0, 1) or not sigs and r.returncode else "")
finally:
    shutil.rmtree(tmp, ignore_errors=True)
