#!/usr/bin/env python3
"""apply_finding.py <finding.md> [--nth k] : extract the k-th ```diff block, apply it to /repo (patch -p1, fuzz allowed), run the tests, show git diff.
Does not commit."""
import re
import subprocess
import sys

md = open(sys.argv[1]).read()
nth = int(sys.argv[sys.argv.index("--nth") + 1]) if "--nth" in sys.argv else 0
blocks = re.findall(r"```diff\n(.*?)```", md, re.S)
if not blocks:
    sys.exit("no diff block")
d = blocks[nth]
r = subprocess.run(["patch", "-p1", "-d", "/repo", "--no-backup-if-mismatch"], input=d, text=True, capture_output=True)
print(r.stdout, r.stderr)
if r.returncode:
    sys.exit("patch failed")
print(subprocess.run("cd /repo && git diff && /venv/bin/python -m pytest -q -p no:cacheprovider 2>&1 | tail -1", shell=True, capture_output=True, text=True).stdout)
