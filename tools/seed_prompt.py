#!/usr/bin/env python3
"""seed_prompt.py <ID> <worktree> : prints the prompt handed to a fresh seeding sub-agent (property text only)."""
import json
import sys

import glob
import os

pid, wt = sys.argv[1], sys.argv[2]
prev = []
for m in sorted(glob.glob("/verif/seeded/%s-*/meta.json" % pid.lower())):
    try:
        prev.append(json.load(open(m)).get("summary", ""))
    except Exception:
        pass
prev_txt = ""
if prev:
    prev_txt = ("\n\nChanges of the following kinds were already produced in an earlier round; yours must be of a DIFFERENT kind "
                "(different mechanism and different place in the code, ideally a different source file):\n" + "\n".join("  - " + x for x in prev) + "\n")
p = [json.loads(l) for l in open("/verif/properties.jsonl") if json.loads(l)["id"] == pid][0]
print(f"""You are given a scratch git worktree of the Python library clikit (a toolkit for command-line apps) at {wt}. Work ONLY inside {wt} (and /tmp for temporary files); do not read or touch /repo, /verif or any other directory outside it. Python is /venv/bin/python; ALWAYS run with PYTHONPATH={wt}/src so that the worktree's sources are imported (e.g. `cd {wt} && PYTHONPATH={wt}/src /venv/bin/python -m pytest -q -p no:cacheprovider tests`). One test, test_supports_utf8_with_encoding, fails on the pristine tree too; ignore it.

Here is a semantic property that users of the library rely on:

Title: {p['title']}
Statement: {p['statement']}
Scope: {p['quantifier']['text']}

{prev_txt}
Your job: produce TWO independent, realistic changes (call them A and B) to the library source under {wt}/src/clikit, each of which BREAKS this property while the code still imports and the existing test suite still passes exactly as before (396 passed). Think of the kind of regression a maintainer could introduce by accident during a refactoring or an "optimisation": state that is not reset, a cursor/offset/ordering slip, a cache that is not invalidated, a check moved to the wrong place, two sites that each look fine alone. Each change must need something specific to manifest - a particular interleaving, a multi-step sequence of operations, an unusual input, a particular configuration - NOT something that ordinary use or the simplest call would expose at once. Keep each change small (a few lines) and plausible; do not add obviously malicious code, randomness, environment checks or special-casing of magic values.

For each change deliver, in {wt}/seed_out/A/ and {wt}/seed_out/B/:
  - patch.diff : `git diff` of that change alone against the worktree's HEAD (apply each change separately from a clean tree: use `git diff > file`, `git checkout -- .` and `git apply file` inside the worktree between A and B - never `git stash`, the stash is shared with other worktrees);
  - demo.py : a small standalone program (uses only clikit and the standard library, deterministic, no sleeping on the real clock longer than a second; if the failure needs a particular thread interleaving, force it deterministically, e.g. by wrapping the output stream or monkeypatching time/threading in the demo) that exits 0 and prints OK on the pristine tree and exits non-zero (assertion failure with a clear message) with the change applied;
  - meta.json : {{"property": "{pid}", "summary": "<one sentence: what was changed>", "needs": "<what specific input / sequence / interleaving / configuration is needed for the breakage to show>", "files": ["..."]}}.
Verify yourself, for each change: (1) the full test suite result is identical with and without the change; (2) demo.py passes without and fails with the change (run both and show the outputs). Leave the worktree clean (`git checkout -- .`) at the end with only the untracked seed_out/ directory in it. In your final message summarise the two changes and paste the verification output.""")
