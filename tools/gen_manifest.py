#!/usr/bin/env python3
"""Writes /verif/MANIFEST.json from the table below (single source of truth)."""
import json
import os

V = os.path.dirname(os.path.dirname(os.path.abspath(__file__)))

CHECKS = {
    "C01": dict(
        engine="E1-enumerator",
        category="exploration",
        text="Every (format, line) is parsed by a fresh real DefaultArgsParser, strict and lenient, and every view of the result is compared type-strictly with the "
             "assignment the line was generated from. Formats: each of 59 option kinds (value mode x type x nullable x short name x default) alone, all ordered "
             "pairs of the 8 structural kinds (thorough: all triples), every legal argument shape with <= 2 (thorough 3) single-valued arguments (+ multi) x "
             "{0,1,2 command names with aliases and omitted suffixes} x option companions, base/derived format splits, odd legal names. Per assignment ALL "
             "spellings: --n=v / --n v / -nv / -n v, bare optional values, every short-group merge, every order of option occurrences, every gap placement among "
             "positionals and command names, every '--' split, name or alias for each command name; all 7 positional word shapes (plain, -N, --foo, -f, '', a "
             "second '--', '-') at every position behind the separator.",
        design_ref="2/C01",
        note="Trusted: the spelling generator in props/_parsegen.py encodes when a line IS a spelling of the assignment (separate values not starting with '-', "
             "dash-leading positionals only behind '--', omitted names only when no leading value collides). Not demanded: is_*_set by short name/position, the "
             "value of a bare optional-value option whose default is None. Formats bounded to <= 3 options / 3(+multi) arguments.",
        technique="bounded-exhaustive enumeration of formats x assignments x spellings on the implementation with a by-construction oracle",
    ),
    "C02": dict(
        engine="E1-enumerator",
        category="fault_enumeration",
        text="(a) Token soup: all sequences of length <= 3 over a 25-token adversarial alphabet ('', '-', '--', '---', '--=', '-=', known/unknown long and short "
             "options with and without '=value', grouped shorts with an unknown letter, '-1', 'null', words) and lengths 4-5 over 8 of them (thorough <= 4 / 5-6 / "
             "7) against 20 small formats, strict and lenient, on the real parser. (b) Every single fault (drop a required argument, surplus positional - 'zz', '', '-', behind the separator also a command name or '--' -, unknown "
             "option at every group boundary, unknown letter in a group, '=x' on a flag, stripped required value, 'abc'/'null' for a typed value) applied to every "
             "spelling of a core family of C01 formats, each with its exactly predicted exception class. Oracle: strict outcome in {return, CannotParseArgs, "
             "NoSuchOption, ValueError}; lenient never a parse error; strict returns => lenient returns the identical result.",
        design_ref="2/C02",
        note="Trusted: the fault-class predictions in props/c02.py. Which documented class a soup line gets is not demanded; a fresh parser is used per parse (re-use "
             "is C05's subject).",
        technique="bounded-exhaustive enumeration of token sequences and single-fault mutations on the implementation",
    ),
    "C05": dict(
        engine="E2-explicit-state",
        category="model_checking",
        text="Explicit-state BFS over sequences of parse requests issued to ONE real DefaultArgsParser: 26 requests (incl. formats that live only for one request) (success with flags / values / multi-values, each "
             "failure kind, lenient partial parses, two formats, the very same RawArgs and format objects parsed leniently and strictly, two commands sharing the "
             "parser through Config.set_args_parser); fingerprint = full vars() of the parser over its MRO + retained results. The graph closes (84 states; a state cap ends the run if a parser's state never converges), so the "
             "result holds for request sequences of any length; plus every sequence of length <= 4 (thorough 5) without dedup. Oracle: each outcome equals what a "
             "fresh parser in a fresh process gives; results handed out earlier stay unchanged; argv list, RawArgs and every format listing/state unchanged. Probes: "
             "ArgvArgs() over the process's own sys.argv, an argv list with a bytes item, a bare optional-value option whose default is a list.",
        design_ref="2/C05",
        note="Trusted: the per-request reference table computed in pristine processes; mc.fingerprint.canon as full-state fingerprint.",
        technique="explicit-state model checking of the implementation (closed state graph over request histories, differential oracle against fresh instances)",
    ),
    "C08": dict(
        engine="E1-enumerator",
        category="exploration",
        text="(a) every string of length <= 6 (thorough 7) over {a, space, tab, single quote, double quote, backslash, '-'} through the real StringArgs/TokenParser: "
             "returns a list of str, terminates (watchdog per chunk => verdict, not a hang), unquoted text splits like str.split(); (b) every list of <= 2 tokens of "
             "length <= 3 (thorough 3 tokens of length <= 2) over {a, e-acute, space, quotes, backslash, '-', '='} that the quoting scheme can express x quote style x "
             "separator x leading/trailing whitespace: tokens == original list; (c) generated command lines as StringArgs vs ArgvArgs: identical parse and "
             "resolution (also by a parser object that parsed another line before), option_tokens == tokens before the first '--', has_option_token agrees; (d) E3: "
             "two threads tokenising two strings at once under the deterministic scheduler, every interleaving at source-line granularity of token_parser.py "
             "with <= 1 (thorough 2) preemptions: each thread gets the tokens of its own string.",
        design_ref="2/C08",
        note="Trusted: the expressibility rule for backslash runs documented in props/c08.py (the scheme has no escape for a backslash before a quote).",
        technique="bounded-exhaustive enumeration of strings and token lists on the implementation with a round-trip oracle, plus preemption-bounded exhaustive "
                  "schedule exploration of two concurrent scans",
    ),
    "C16": dict(
        engine="E2-explicit-state",
        category="model_checking",
        text="Explicit-state BFS over the real ProgressBar under a virtual clock (exact binary ticks): operations start / start(max') / advance(1|3) / set_progress "
             "{0, mid, max, max+2, -1} / display / clear / finish / set_message, each preceded by a clock advance from 5 values; configurations max {0,1,3,10} "
             "(thorough to 200) x bar widths x 6 formats x min interval {0, 0.1} x {ANSI, plain, section at 20 columns, quiet}, plus a pair of sections (the bar above a neighbour bar whose wrapped frame is redrawn as one more operation), a section of a plain output, and bars constructed from an IO whose two outputs differ in ANSI support (judged by the error output they draw on). Broad part: all ops x all clocks to "
             "depth 2 over 204 (thorough 890) configurations; reduced alphabets to depth 4-5 (thorough 6-7); complete ramps of set_progress for max up to 200. "
             "Every write is parsed against the format and interpreted on the terminal emulator: bar segment width, 0 <= step <= max, percent == 100*step//max, "
             "throttle respected below max, max/finish always draw, last frame final; ANSI screen == latest frame, plain: one frame per line and no control "
             "codes, quiet: nothing.",
        design_ref="2/C16",
        note="Trusted: mc/clock.py (installed before clikit is imported, self-probed), mc/term.py, the reference model of step/max in props/c16.py; clock fields enter "
             "the fingerprint as now - field capped at 1 s (formats with %elapsed% run uncapped at smaller depth; dedup vs no-dedup cross-check per run). The state "
             "graph is infinite (max grows, writes are counted), so depth is the bound.",
        technique="explicit-state model checking of the implementation under a virtual clock with a frame parser and terminal emulator oracle",
    ),
    "C13": dict(
        engine="E1-enumerator",
        category="exploration",
        text="Real ApplicationHelp / CommandHelp / ConsoleApplication.run on generated configurations: one command x every valid sequence of 0-2 arguments x every "
             "multiset of 0-2 options from catalogues of 13 argument and 14 option kinds (every flag kind, description None/short/long, defaults of every type, an "
             "argument named like a style tag) (thorough: 3 of either); global options/arguments; parent/child inheritance; all command trees of <= 3 nodes "
             "(thorough 4) x 7 marks per node (plain, aliased, default, anonymous, hidden, disabled, hidden+default); widths {minimum, +1, 40, 41, 50, 60, 79, 80, 81, "
             "100, 120, 200, 1 rotated} (thorough: every width 40..200) x ANSI/plain. Oracle known by construction: no failure; every enabled non-hidden named "
             "(sub-)command, every own/inherited/global argument <name> and option --long and -s present; hidden/disabled names absent; every line <= width for "
             "width >= longest label + 10; 'help <path>' == '<path> --help' == '<path> -h'.",
        design_ref="2/C13",
        note="Trusted: the generator's own model of the configuration, whole-token search after SGR stripping. Not demanded: a hidden default sub-command in the USAGE "
             "synopsis, grandchildren, position on the page, anything below the minimum width.",
        technique="bounded-exhaustive enumeration of help configurations x widths on the implementation with a by-construction oracle",
    ),
    "C14": dict(
        engine="E1-enumerator",
        category="exploration",
        text="Real Table.render on complete products: every column-kind vector over 8 cell kinds (empty, 1 char, words, 40/300-char sentences, 30-char word, tagged) "
             "for 1-3 columns (thorough 4) x 1-3 rows with a deviating row x header on/off x 4 styles x indentation x alignment vectors x ANSI/plain x widths at "
             "every branch point of that table's width distribution (minimum, +1, +2, both sides of every short/long split change and of the fit width, 40, 80, "
             "200, 1 rotated; thorough: every width from the minimum to the fit width). Oracle from the rendered text only: no exception; every line <= terminal; "
             "bordered styles: equal line widths, separators in identical columns; every style: cells' visible characters recovered per column top to bottom; "
             "rows deep-equal before/after; second render identical. Part P3: tables reached by set_row / add_row / set_rows / set_header_row AFTER a first rendering, "
             "judged by the same clauses. Part P4 (E3 scheduler): two tables rendered by two threads, every interleaving at source-line granularity of "
             "cell_wrapper.py with <= 1 preemption; each rendering equals the rendering of that table alone.",
        design_ref="2/C14",
        note="Trusted: the text-recovery oracle in props/c14.py. Minimum width = indentation + 4n+1 (bordered) / 2n-1 (borderless). One known finding "
             "(markup-shown:tagged-cell: tag cut by wrapping) is listed narrowly; other markup signatures still fail the check.",
        technique="bounded-exhaustive enumeration of tables x styles x widths on the implementation with an output-only rectangle/text-recovery oracle",
    ),
    "C17": dict(
        engine="E2-explicit-state",
        category="model_checking",
        text="History exploration by process forking: every sequence of <= 3 (thorough 4; 5 on a reduced alphabet) of 20(+1 rotated) command lines (valid, invalid "
             "option, surplus arguments, help, help <cmd>, <cmd> -h, -V, unknown command, lenient command, raising handler at -vvv, ...) on ONE application object in "
             "3 modes (default parsers, one shared parser, the caller re-passing the same RawArgs object); each tree edge is a fork() that executes one more run on "
             "the inherited live process state; per run (status, stdout, stderr, handler record incl. parsed args and IO settings, raw tokens afterwards) must equal a "
             "fresh application in a fresh process. Components: 41 factories rendered over all sequences of IO kinds (<= 3/4) on one object, twice on one IO, all "
             "ordered pairs in one process; BlockLayout reuse; all 24 construction orders x 2 schedules of the 4 table styles in fresh sub-processes plus 648 "
             "customise/creation scenarios against their un-customised twins.",
        design_ref="2/C17",
        note="Trusted: fork() as exact state copy; references computed in pristine children; minimal violating sequences are re-executed before being reported. No "
             "dedup (no sound fingerprint of an application), so depth is the bound.",
        technique="explicit exploration of run histories on the implementation (fork-based state tree, differential oracle against fresh instances)",
    ),
    "C03": dict(
        engine="E1-enumerator",
        category="exploration",
        text="All command trees (ordered forests, depth <= 3, fan-out <= 3, node kinds {plain, aliased, default, anonymous, hidden, disabled, default+hidden} x two "
             "argument profiles) with <= 3 nodes, and 4-node trees with <= 2 special nodes (thorough: <= 4 nodes full, 5 restricted), each built as a real "
             "ConsoleApplication; per tree every spelling of every command path (names/aliases, one unknown word) up to length 4 x {nothing, declared option, "
             "unknown option, option + word} x {no tail, '--', '--' + word}. Oracle: a 25-line reference resolver written from the statement (longest named "
             "prefix, first parsable default else first, application default, undefined first token -> CannotResolveCommandException and no handler run), "
             "compared on selected command, parsed args or exception; metamorphic relations alias-for-name, appended option, appended '--' tail. Plus: one "
             "CommandConfig object attached as sub-command to 2-3 parents (selection and arguments known by construction); E3: two resolve_command() calls on one "
             "application at the same time (source lines of default_args_parser.py, <= 1 preemption).",
        design_ref="2/C03",
        note="Trusted: the reference resolver and capacity-based parsability in props/c03.py. Unasserted where the statement is silent: lines no candidate can "
             "parse, options the selected command does not declare, '<path> --opt <word>' where the word spells the implicit default.",
        technique="bounded-exhaustive enumeration of command trees x command lines on the implementation with a reference resolver and metamorphic relations",
    ),
    "C09": dict(
        engine="E1-enumerator",
        category="exploration",
        text="Default application config, 3 command trees, 7(+1 rotated) base lines, handler variants {ok, raises, raises library error}; every subset of <= 2 "
             "(thorough 3) of the 13 switch spellings in every order at every non-decreasing placement over all token boundaries incl. behind '--', plus exactly "
             "3 (thorough 4) of the 9 short spellings; ArgvArgs and StringArgs; pipe-like and terminal-like streams. Reference computed from the set of switches "
             "before '--': quiet => both streams empty (also for error reports/help/version); verbosity seen by the handler and marker lines; --no-ansi => no ESC; "
             "--ansi => markers SGR-wrapped; -n => question returns default, nothing read; help/version pages with status 0 and no handler; tokens behind '--' "
             "have no effect and arrive as argument values. Plus a handler that redraws a section of each output (asks the outputs about ANSI support) x ANSI "
             "switch placements x pipe-like / terminal-like streams: no escape sequence at all under the no-ANSI switch.",
        design_ref="2/C09",
        note="Trusted: the reference in props/c09.py. Switches before/inside the command path are judged for quiet and --no-ansi only; '-v' directly before a "
             "positional is skipped (counted); --ansi together with --no-ansi: ESC presence not asserted.",
        technique="bounded-exhaustive enumeration of switch subsets, orders and placements on the implementation against a set-based reference",
    ),
    "C06": dict(
        engine="E2-explicit-state",
        category="model_checking",
        text="Explicit-state BFS over the real ArgsFormatBuilder (deepcopy fork, full-vars() fingerprint + reference element lists) on 11 base formats of "
             "0-2 levels: alphabets of up to 116 operations (add_option / add_command_option with aliases / add_argument / add_command_name / set_* with every "
             "0-2 tuple) drawn from a colliding name pool. The option, argument and no-command-name graphs close (histories of any length); the full alphabet "
             "is explored to depth 3 (thorough 4), command names to depth 5 (7). Every transition: acceptance == reference conflict predicate, documented "
             "exception class, rejected addition leaves the fingerprint unchanged and is refused by ArgsFormat(elements+[e], base) and CommandConfig too. Every "
             "distinct state: ~190 queries agree between builder, built format, element-list constructor, CommandConfig.build_args_format and the reference.",
        design_ref="2/C06",
        note="Trusted: the reference model (element lists + conflict predicate) in props/c06.py. set_* need not be atomic; options have no required order between "
             "levels; name pools are small (2 long names, 3 argument names).",
        technique="explicit-state model checking of the implementation (BFS over builder operation histories, full-state fingerprints, reference-model oracle)",
    ),
    "C07": dict(
        engine="E1-enumerator",
        category="exploration",
        text="Complete enumeration on the real classes: all 2^13 option flag words x short name x default kind, all 2^11 argument flag words x default kind, all "
             "2^13 CommandOption words x alias lists; every name of length <= 4 (thorough 5) over {a,Z,1,-,_,e-acute,space}(+1 rotated) bare / '-' / '--' in 5 "
             "roles; parse() of 20 typed objects over None, 68 boundary texts, every int in +-1100 (thorough +-20000) and 32/64-bit boundaries, a 200-point float "
             "grid and booleans. Oracle: independent predicate of the documented contradictions; accepted objects report one value type and a consistent value "
             "mode; names accepted iff well-formed after removing the dash prefix; parse returns the declared type / None when nullable / ValueError and round-trips.",
        design_ref="2/C07",
        note="Trusted: the acceptance predicate written from the documented contradictions. REQUIRED_VALUE|OPTIONAL_VALUE is not a documented contradiction; floats "
             "are a grid.",
        technique="complete enumeration of the finite flag/name/value spaces on the implementation",
    ),
    "C04": dict(
        engine="E1-enumerator",
        category="fault_enumeration",
        text="Fault enumeration through the real ConsoleApplication.run (catching on, no terminate, default config): 24 handler return values and 23 exception "
             "kinds (plain, library, `code` attributes, explicit/implicit chains to depth 3, exec'd code, module whose file was deleted, KeyboardInterrupt) x raise "
             "point {before output, after stdout write, after stderr write} x every message of <= 2 (thorough 3) fragments over a 12-fragment markup/unicode "
             "alphabet x verbosity x pre-handle listener {none, passes, handles, raises} x ANSI/plain, plus unknown command/option names carrying the same "
             "messages, plus real StreamOutputStreams with unknown / missing / ASCII encoding names. Oracle: nothing escapes run; status int in 0..255, 0 iff falsy result, clamp(int(v),1,255) where defined; every Exception -> non-zero status "
             "and a non-empty report; the selected handler ran exactly once with freshly parsed args (zero times if a listener handled or raised); no other handler ran.",
        design_ref="2/C04",
        note="Trusted: props/_trace.py (fragment alphabet, scratch modules), pastel/crashtest as dependencies. Not demanded: which stream carries the report, its wording, "
             "the exact non-zero status, SystemExit, a report for KeyboardInterrupt.",
        technique="bounded-exhaustive fault enumeration on the implementation (all handler outcomes x raise points x messages x listeners within stated bounds)",
    ),
    "C11": dict(
        engine="E1-enumerator",
        category="model_checking",
        text="(a) every balanced message forest of <= 3 nodes over the full alphabet and 4 nodes over a reduced one (thorough: 4 and 5) - named, inline and unknown "
             "tags, literal '<'/'>', newlines, non-ASCII: strip_sgr(ansi.format) == plain.format == remove_format == text known by construction, no ESC and no "
             "registered markup in plain output, exactly the SGR codes of the styles used; (b) every style 11 fg x 11 bg x 2^7 attributes (thorough 18x18x2^7) "
             "through style set, add_style and format(style=): exact ECMA-48 code set, text unchanged; (c) every line-writing method found by reflection x receiver "
             "kind x ANSI/plain: text + exactly one newline; (d) explicit-state BFS over indentation scopes (io/output/error x set/increment x n) left normally or "
             "by exception, nesting <= 3 (thorough 4), graph closes, plus every pure nesting as real with-statements; (e) escaped '<' in and outside styled spans.",
        design_ref="2/C11",
        note="Trusted: own SGR interpreter and ECMA-48 table in props/c11.py, mc/term.strip_sgr, reference indentation stack. Unknown tags may be kept or dropped "
             "(renderings must agree). Invalid inline colours, upper-case tags and unbalanced messages are outside the alphabet.",
        technique="bounded-exhaustive enumeration of messages/styles/methods on the implementation plus explicit-state BFS of indentation scopes with a reference stack",
    ),
    "C20": dict(
        engine="E1-enumerator",
        category="exploration",
        text="ExceptionTrace.render on the real renderer for exceptions raised from 322 generated source files (file length x failing line position x 28 statement "
             "shapes incl. multi-line calls, triple-quoted strings, tabs, non-ASCII, markup-like literals) x verbosity x UTF-8 on/off x ignore pattern x ANSI/plain; "
             "all messages of <= 2 (thorough 3) fragments x exception kinds x simple/full; cause chains to depth 3; recursion (direct, 2-/3-cycles) to depth 60; "
             "exec'd and source-less code; a source file that vanishes or is rewritten between two renders; one trace object rendered at two verbosities; frames "
             "pointing into non-Python files; working directory / HOME with regex-special names or removed; BOM, latin-1, CRLF, continuation-line shapes; the "
             "Highlighter alone over 126 clikit files + 300 stdlib modules. Oracle: render never raises; class name and message "
             "(markup aside) present; snippet numbers consecutive, exactly one marker on the failing line, single-line-token lines verbatim; ignored frames absent "
             "unless debug (also for a pattern naming the pseudo file of exec'd code). Source files removed, rewritten or cut down between two renders.",
        design_ref="2/C20",
        note="Trusted: the two 'markup aside' normal forms in props/_trace.py (deliberately lenient), Python's tokenizer for the verbatim rule. Three known findings "
             "(continuation backslash dropped; non-UTF-8 source via crashtest) are listed in known_findings.json.",
        technique="bounded-exhaustive enumeration of generated sources, messages, chains and recursion depths on the implementation",
    ),
    "C15": dict(
        engine="E2-explicit-state",
        category="model_checking",
        text="Explicit-state BFS over the real SectionOutput objects of one decorated Output at terminal width 8: every history of create / "
             "write_line / overwrite / clear() / clear(n) over 1-3 sections with texts below, at and above the width (and two-line texts) up to "
             "depth 6 (thorough: depth 8 with 2 sections, depth 7 with 3). After every operation the emitted bytes are interpreted on a terminal "
             "emulator and the screen must equal sentinel + the sections' logical lines in creation order wrapped at 8 (reference: list of lists). "
             "The same histories on undecorated outputs (Plain/Null formatter, also a PlainFormatter on an ANSI-capable stream): text + one newline per "
             "line, nothing for clear, no control byte. Further operations/configurations: an output that is indented when its sections are created, a "
             "line hidden by its verbosity flag, a second Output with sections of its own in the same process, lines tagged with a style that was added to "
             "the formatter after its construction.",
        design_ref="2/C15",
        note="Trusted: mc/term.py (xterm deferred wrap, unbounded height), the list-of-lists reference, props/_c15_bfs.py (level-synchronous BFS with one "
             "global fingerprint set; states rebuilt by replay), fingerprint = canon over the whole Output + model + cursor. clear(n>lines), clear(0), "
             "tabs, wide characters, scrolling are outside the alphabet.",
        technique="explicit-state model checking of the implementation against a screen model (BFS over operation histories, full-state fingerprints, terminal emulator oracle)",
    ),
    "C18": dict(
        engine="E2-explicit-state",
        category="model_checking",
        text="The dialogue of the real ChoiceQuestion is explored as a tree of typed-line histories (no dedup): 184 configurations (7 choice lists incl. "
             "duplicated, numeric-looking, case-differing and spaced entries x single/multi x defaults x attempts {unlimited,1,2,3}) x every script over a "
             "14(+1 rotated)-answer alphabet up to depth 3 (thorough 4), each run on prefix + end of input. Oracle: reference validator from the statement "
             "(members only, index/value interchangeable, one error line per rejected entry, failure after exactly N attempts), termination decided by a read "
             "budget on the input stream (never wall-clock); confirmation patterns x answers x defaults; every question kind non-interactive: default, zero reads, "
             "nothing written; a re-asked question object equals a fresh one; an I/O re-fed after end of input equals a fresh I/O; sections taken "
             "before/after interaction is switched off; two I/O objects in a row over one seekable input stream equal one I/O object serving both dialogues.",
        design_ref="2/C18",
        note="Trusted: the reference validator in props/c18.py; `subprocess` inside question.py is stubbed from outside so no stty is reachable (self-probed). "
             "Corners the statement leaves open (ambiguous values, case, blank list parts, result order, exception class) are accepted either way.",
        technique="explicit-state exploration of the dialogue tree on the implementation with a reference validator and a read-budget termination oracle",
    ),
    "C19": dict(
        engine="E3-scheduler",
        category="model_checking",
        text="Stateless model checking of the real ProgressIndicator under a deterministic scheduler: for 12 (thorough 15) caller bodies "
             "(set_message while spinning - also to the end message itself -, sleeps, Exception / KeyboardInterrupt / SystemExit, work on the other stream) x ANSI/plain x intervals (+ a quiet output), "
             "every schedule of main x spinner thread with at most 3 (thorough 4) preemptions at the granularity of stream writes, sleeps, "
             "Event.set/is_set, Thread.start/join, Lock acquire/release, and with at most 2 preemptions at the granularity of every source line of "
             "progress_indicator.py, under a virtual clock in which timers may fire late (a join with a time-out is a timer too: the joiner may go on while its target lives). After every write the emitted bytes are interpreted on a "
             "terminal emulator: each line is empty or exactly one frame; spinner stopped and joined on every exit path; end message last on normal "
             "exit; no deadlock/livelock; the body's exception propagates unchanged. Manual mode: explicit-state BFS over start/advance/set_message/"
             "finish x clock advances (depth 5/6) against the interval throttle and frame oracle.",
        design_ref="2/C19, 1.3",
        note="Trusted: mc/sched.py (baton scheduler; fakes of threading.Thread/Event/Lock/RLock and time planted into the module from outside), "
             "mc/term.py emulator. Threads interleave only at the listed scheduling points; the GIL's bytecode-level interleavings inside one "
             "source line are not modelled. One schedule is replayed twice per run and must give identical observations.",
        technique="stateless model checking of the implementation: exhaustive schedule enumeration with iterative preemption bounding under a controlled scheduler and virtual clock; explicit-state BFS for manual mode",
    ),
    "C10": dict(
        engine="E1-enumerator",
        category="exploration",
        text="Complete table, executed on the real classes: every public writing entry point found by reflection (write*/error*/overwrite/clear) "
             "on Output, SectionOutput and every IO kind and their sections x verbosity {0,1,2,4} x flag word {None,0..7} x quiet x ANSI/plain; "
             "text must reach the buffered stream iff not quiet and verbosity >= lowest level named by the flags. The space is finite and is "
             "enumerated completely in both tiers; a write method added later is picked up by reflection. Also: the two outputs of an IO given "
             "different settings, empty text on line methods, and an explicit-state BFS over histories of set_quiet / set_verbosity / write on one output "
             "and on two sections of one decorated output (depth 5, thorough 7/6; unique text per write: gated-out text must never reach the stream, "
             "also not when another section redraws); further history operations: formatter / stream replaced on the live output (settings must survive), "
             "quiet / verbosity set on the PARENT of the sections (whatever the section then reports gates its writes), a write that fails at stream level; "
             "NullIO with real streams and 20 800-character messages in the table; E3: two threads writing through one output (<= 1 preemption).",
        design_ref="2/C10",
        note="Trusted: the 8-line gate reference (lowest_level) and 'reaches the stream' = buffered stream contents changed. Sections get their "
             "verbosity/quiet set on themselves (inheritance from the parent output is not demanded).",
        technique="bounded-exhaustive enumeration of the complete configuration table on the implementation",
    ),
    "C12": dict(
        engine="E2-explicit-state",
        category="model_checking",
        text="Explicit-state BFS over the real EventDispatcher: every sequence of register / dispatch (with a caller-supplied event and without) / query "
             "operations up to depth 4 on the full alphabet, 5 on the core and 6 on the reduced one (thorough 5/6/8) is executed on the implementation; after every transition the call order is compared "
             "with a reference stable sort cut at the first stopping listener and every query with the reference list. Exhaustive within the "
             "stated alphabet and depth, which covers registration-after-dispatch, equal-priority stability and a stop at every position; one more run adds: the same "
             "listener object registered again under another priority, a listener that registers another one while it is called, an Event subclass with its own stopped state.",
        design_ref="2/C12",
        note="Trusted: the 20-line reference model in props/c12.py, copy.deepcopy as state fork, fingerprint = full vars() of the dispatcher. "
             "Listener equality is by tag. Bounds: 2 events + 1 foreign, 3 priorities, depth as stated.",
        technique="explicit-state model checking of the implementation (BFS over operation histories, full-state fingerprint dedup, reference-model oracle)",
    ),
}

PENDING_REASON = "check not built yet in this session (planned, see DESIGN.md section 2); not a limit of the technique"


def main():
    ids = [json.loads(l)["id"] for l in open(os.path.join(V, "properties.jsonl"))]
    checks = []
    na = []
    for pid in ids:
        c = CHECKS.get(pid)
        if not c:
            na.append({"property_id": pid, "reason": PENDING_REASON})
            continue
        checks.append({
            "property_id": pid,
            "quick_cmd": "./check %s --tier quick" % pid,
            "thorough_cmd": "./check %s --tier thorough" % pid,
            "evidence_file": "evidence/%s.json" % pid,
            "replay_cmd_template": "./check %s --replay {path}" % pid,
            "engine": c["engine"],
            "level_claimed": {"category": c["category"], "text": c["text"], "design_ref": c["design_ref"]},
            "level_note": c["note"],
            "technique": c["technique"],
        })
    m = {
        "version": 1,
        "setup_cmd": "/venv/bin/python -B tools/selftest.py",
        "hooks": {
            "guard": "CLIKIT_VERIF",
            "enable": "no source hooks are needed: all seams (clock, terminal, scheduler, stty) are installed from outside by the checks; "
                      "checks import clikit from /repo/src (VERIF_REPO overrides)",
            "baseline_off_cmd": "cd /repo && /venv/bin/python -m pytest -q -p no:cacheprovider",
            "source_commits": [],
            "add_only": True,
        },
        "engines": [
            {"name": "E1-enumerator", "path": "mc/par.py", "kind_free_text": "bounded-exhaustive input/configuration enumeration on the real code, 16 forked workers"},
            {"name": "E2-explicit-state", "path": "mc/explore.py", "kind_free_text": "explicit-state BFS over operation histories on real objects, full-state fingerprints"},
            {"name": "E3-scheduler", "path": "mc/sched.py", "kind_free_text": "deterministic thread scheduler, iterative preemption bounding"},
        ],
        "checks": checks,
        "not_applicable": na,
        "notes": "All checks: ./check <ID> --tier quick|thorough ; evidence in evidence/<ID>.json ; known findings in known_findings.json ; "
                 "mutants/run_mutants.py demonstrates detection.",
    }
    for e in m["engines"]:
        e["serves_properties"] = [c["property_id"] for c in checks if c["engine"] == e["name"]]
    with open(os.path.join(V, "MANIFEST.json"), "w") as f:
        json.dump(m, f, indent=1)
    print("MANIFEST: %d checks, %d pending" % (len(checks), len(na)))


if __name__ == "__main__":
    main()
