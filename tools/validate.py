#!/usr/bin/env python3
"""python3-vt tools/validate.py : validate MANIFEST.json and evidence/*.json against the schemas."""
import glob
import json
import os
import sys

import jsonschema

V = os.path.dirname(os.path.dirname(os.path.abspath(__file__)))
ms = json.load(open("/root/.vp/MANIFEST.schema.json"))
es = json.load(open("/root/.vp/EVIDENCE.schema.json"))
jsonschema.validate(json.load(open(os.path.join(V, "MANIFEST.json"))), ms)
bad = 0
for p in sorted(glob.glob(os.path.join(V, "evidence", "*.json"))):
    try:
        jsonschema.validate(json.load(open(p)), es)
    except jsonschema.ValidationError as e:
        bad += 1
        print("INVALID", p, e.message[:300])
m = json.load(open(os.path.join(V, "MANIFEST.json")))
for c in m["checks"]:
    ep = os.path.join(V, c["evidence_file"])
    if os.path.exists(ep):
        lv = json.load(open(ep)).get("level")
        if lv != c["level_claimed"]["category"]:
            bad += 1
            print("LEVEL MISMATCH", c["property_id"], c["level_claimed"]["category"], lv)
    else:
        print("note: no evidence yet for", c["property_id"])
print("manifest ok; evidence files checked:", len(glob.glob(os.path.join(V, "evidence", "*.json"))), "invalid:", bad)
sys.exit(1 if bad else 0)
