"""setup_cmd: nothing to build (pure Python); verify that the tree under test imports and the engines load."""
import os
import sys

sys.path.insert(0, os.path.dirname(os.path.dirname(os.path.abspath(__file__))))
from mc import common  # noqa

common.bind_repo()
from mc import explore, fingerprint, par, report  # noqa

os.makedirs(os.path.join(common.VERIF, "evidence"), exist_ok=True)
print("setup ok: clikit from", common.SRC)
