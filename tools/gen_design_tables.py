#!/usr/bin/env python3
"""Rewrite the generated tables of DESIGN.md (between <!-- BEGIN x --> / <!-- END x --> markers) from
known_findings.json (fixes, known findings) and mutants/results.json (which check catches which change)."""
import json
import os
import re
import subprocess

V = os.path.dirname(os.path.dirname(os.path.abspath(__file__)))
k = json.load(open(os.path.join(V, "known_findings.json")))


def subject(c):
    return subprocess.run(["git", "-C", "/repo", "log", "--format=%s", "-1", c], capture_output=True, text=True).stdout.strip()


fx = ["| property | commit | repair (commit subject) | failing case found by the check |", "|---|---|---|---|"]
for f in k["fixed"]:
    what = f["line"].split(f["commit"], 1)[1].strip().replace("|", "\\|")
    fx.append("| %s | %s | %s | %s |" % (f["property"], f["commit"], subject(f["commit"]).replace("fix: ", "").replace("|", "\\|"), what))
kn = ["| property | signature | what fails | why not repaired |", "|---|---|---|---|"]
for f in k["known"]:
    kn.append("| %s | `%s` | %s | %s |" % (f["property"], f["sig"], f["what"].replace("|", "\\|"), f.get("why", "see " + f.get("finding", ""))))
mt = ["| change | expected by | result | first signature |", "|---|---|---|---|"]
rp = os.path.join(V, "mutants", "results.json")
if os.path.exists(rp):
    for name, pid, res in json.load(open(rp)):
        st, _, sig = res.partition(" ")
        mt.append("| %s | %s | %s | %s |" % (name, pid, st, sig.split(";")[0][:110].replace("|", "\\|")))
p = os.path.join(V, "DESIGN.md")
s = open(p).read()
for tag, rows in (("FIXES", fx), ("KNOWN", kn), ("MUTANTS", mt)):
    s = re.sub(r"(<!-- BEGIN %s -->\n).*?(<!-- END %s -->)" % (tag, tag), lambda m: m.group(1) + "\n".join(rows) + "\n" + m.group(2), s, flags=re.S)
open(p, "w").write(s)
print("tables: %d fixes, %d known, %d mutant rows" % (len(fx) - 2, len(kn) - 2, len(mt) - 2))
