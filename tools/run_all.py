#!/usr/bin/env python3
"""run_all.py [--tier quick] [--seed N] [ids...] : run the registered checks one after another, print rc and wall time."""
import json
import os
import subprocess
import sys
import time

V = os.path.dirname(os.path.dirname(os.path.abspath(__file__)))
args = sys.argv[1:]
tier, seed = "quick", "0"
if "--tier" in args:
    i = args.index("--tier"); tier = args[i + 1]; del args[i:i + 2]
if "--seed" in args:
    i = args.index("--seed"); seed = args[i + 1]; del args[i:i + 2]
m = json.load(open(os.path.join(V, "MANIFEST.json")))
ids = args or [c["property_id"] for c in m["checks"]]
bad = 0
for pid in ids:
    t = time.time()
    r = subprocess.run([os.path.join(V, "check"), pid, "--tier", tier], cwd=V, capture_output=True, text=True,
                       env=dict(os.environ, VERIF_SEED=seed, VERIF_TIER=tier))
    last = [l for l in r.stdout.splitlines() if l.startswith(pid)]
    flag = "ok " if r.returncode == 0 and "VIOLATION" not in r.stdout else "BAD"
    bad += flag == "BAD"
    print("%s %s rc=%d %.1fs %s" % (flag, pid, r.returncode, time.time() - t, (last[-1] if last else r.stderr[-300:])[:260]))
    for l in r.stdout.splitlines():
        if l.startswith(("KNOWN-FINDING", "VIOLATION")):
            print("     " + l[:200])
    sys.stdout.flush()
sys.exit(1 if bad else 0)
