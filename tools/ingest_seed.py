#!/venv/bin/python
"""ingest_seed.py <seed_out/X dir> <seed-id>
Independently confirm a seeded change (patch.diff + demo.py + meta.json) and file it under /verif/seeded/<seed-id>/:
  1. patch applies to a scratch copy of /repo's HEAD (git worktree under /tmp, removed afterwards);
  2. the repository test suite gives the same result with and without it (passed/failed counts and failing ids);
  3. demo.py exits 0 on the pristine tree and non-zero with the change.
Nothing is written to /repo."""
import json
import os
import re
import shutil
import subprocess
import sys
import tempfile

src, sid = sys.argv[1], sys.argv[2]
dst = os.path.join("/verif/seeded", sid)
wt = tempfile.mkdtemp(prefix="seedchk-", dir="/tmp")
os.rmdir(wt)


def sh(cmd, **kw):
    return subprocess.run(cmd, shell=True, capture_output=True, text=True, **kw)


def tests(tree):
    r = sh("cd %s && PYTHONPATH=%s/src /venv/bin/python -m pytest -q -p no:cacheprovider -x --co -q >/dev/null 2>&1; "
           "cd %s && PYTHONPATH=%s/src /venv/bin/python -m pytest -q -p no:cacheprovider -rfE tests 2>&1 | tail -8" % (tree, tree, tree, tree))
    tail = r.stdout
    summary = [l for l in tail.splitlines() if re.search(r"\d+ passed", l)]
    failed = sorted(l for l in tail.splitlines() if l.startswith(("FAILED", "ERROR")))
    return (summary[-1] if summary else tail[-200:]), failed


def demo(tree):
    r = sh("cd /tmp && PYTHONPATH=%s/src PYTHONHASHSEED=0 timeout 120 /venv/bin/python %s" % (tree, os.path.join(os.path.abspath(src), "demo.py")))
    return r.returncode, (r.stdout + r.stderr)[-400:]


ok = True
log = {}
try:
    base = sh("git -C %s rev-parse HEAD" % os.path.abspath(os.path.join(src, "..", ".."))).stdout.strip() or "HEAD"
    r = sh("git -C /repo worktree add -q --detach %s %s" % (wt, base))
    assert r.returncode == 0, r.stderr
    base_sum, base_failed = tests(wt)
    rc0, out0 = demo(wt)
    r = sh("git -C %s apply %s" % (wt, os.path.join(os.path.abspath(src), "patch.diff")))
    if r.returncode != 0:
        print("PATCH DOES NOT APPLY:", r.stderr)
        sys.exit(2)
    mut_sum, mut_failed = tests(wt)
    rc1, out1 = demo(wt)
    strip = lambda s: re.sub(r" in [0-9.]+s.*", "", s)
    log = {"tests_pristine": strip(base_sum), "tests_with_change": strip(mut_sum), "failing_ids_same": base_failed == mut_failed,
           "demo_pristine_rc": rc0, "demo_with_change_rc": rc1, "demo_with_change_tail": out1[-300:], "base_commit": base[:7],
           "applies_to_repo_head": sh("git -C /repo apply --check %s" % os.path.join(os.path.abspath(src), "patch.diff")).returncode == 0}
    ok = strip(base_sum) == strip(mut_sum) and base_failed == mut_failed and rc0 == 0 and rc1 != 0
finally:
    sh("git -C /repo worktree remove --force %s" % wt)
    shutil.rmtree(wt, ignore_errors=True)
print(json.dumps(log, indent=1))
if not ok:
    print("NOT CONFIRMED")
    sys.exit(1)
os.makedirs(dst, exist_ok=True)
for f in ("patch.diff", "demo.py"):
    shutil.copy(os.path.join(src, f), os.path.join(dst, f))
meta = json.load(open(os.path.join(src, "meta.json")))
meta["confirmed"] = log
meta["what_i_ran"] = "tools/ingest_seed.py: fresh git worktree of /repo HEAD under /tmp; pytest tests with and without the patch (identical summary and failing ids); demo.py rc 0 pristine / non-zero with change; worktree removed"
json.dump(meta, open(os.path.join(dst, "meta.json"), "w"), indent=1)
print("CONFIRMED ->", dst)
