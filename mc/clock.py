"""Virtual clock (DESIGN.md 1.4): replaces time.time / time.sleep in the checking process.
install() must run before clikit is imported (props.<id>.pre_import does that) so that
`from time import time` style imports bind the virtual functions as well."""
import time as _time

_real_time = _time.time
_real_sleep = _time.sleep


class Clock(object):
    def __init__(self, start=1000000.0):
        self.now = start
        self.sleeps = []

    def time(self):
        return self.now

    def sleep(self, s):
        self.sleeps.append(s)
        self.now += max(0.0, s)

    def advance(self, s):
        self.now += s


CLOCK = Clock()


def install():
    _time.time = lambda: CLOCK.time()
    _time.sleep = lambda s: CLOCK.sleep(s)
    return CLOCK


def uninstall():
    _time.time = _real_time
    _time.sleep = _real_sleep
