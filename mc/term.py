"""A small terminal emulator: the oracle for 'what the user sees' (DESIGN.md 1.4).

Models: printable characters with xterm-style deferred auto-wrap at `width`, \\n (line feed +
carriage return, as a tty in cooked mode does), \\r, ESC[nA (cursor up, clamped at row 0),
ESC[nB, ESC[0J / ESC[J (erase from cursor to end of screen), ESC[2K (erase line), ESC[K / ESC[0K
(erase to end of line), ESC[1G-style column set, SGR (ESC[...m) ignored.  Anything else raises
Unsupported so a check never silently mis-models.  Tabs are not modelled (alphabets exclude them).
"""
import re

_CSI = re.compile(r"\x1b\[([0-9;]*)([A-Za-z])")


class Unsupported(Exception):
    pass


class Term(object):
    def __init__(self, width=80):
        self.width = width
        self.rows = [[]]
        self.r = 0
        self.c = 0
        self.pending_wrap = False

    def _row(self):
        while self.r >= len(self.rows):
            self.rows.append([])
        return self.rows[self.r]

    def _put(self, ch):
        if self.pending_wrap:
            self.r += 1
            self.c = 0
            self.pending_wrap = False
        row = self._row()
        while len(row) < self.c:
            row.append(" ")
        if self.c < len(row):
            row[self.c] = ch
        else:
            row.append(ch)
        if self.c == self.width - 1:
            self.pending_wrap = True
        else:
            self.c += 1

    def feed(self, s):
        i = 0
        n = len(s)
        while i < n:
            ch = s[i]
            if ch == "\x1b":
                m = _CSI.match(s, i)
                if not m:
                    raise Unsupported("escape at %d: %r" % (i, s[i:i + 8]))
                self._csi(m.group(1), m.group(2))
                i = m.end()
                continue
            if ch == "\n":
                self.pending_wrap = False
                self.r += 1
                self.c = 0
                self._row()
            elif ch == "\r":
                self.pending_wrap = False
                self.c = 0
            elif ch == "\t" or ord(ch) < 32:
                raise Unsupported("control character %r" % ch)
            else:
                self._put(ch)
            i += 1
        return self

    def _csi(self, params, final):
        if final == "m":
            return
        n = int(params) if params.isdigit() else None
        self.pending_wrap = False
        if final == "A":
            self.r = max(0, self.r - (n if n is not None else 1))
        elif final == "B":
            self.r += n if n is not None else 1
            self._row()
        elif final == "G":
            self.c = max(0, (n or 1) - 1)
        elif final == "J":
            if n in (None, 0):
                row = self._row()
                del row[self.c:]
                del self.rows[self.r + 1:]
            elif n == 2:
                self.rows = [[]]
                self.r = self.c = 0
            else:
                raise Unsupported("ESC[%sJ" % params)
        elif final == "K":
            row = self._row()
            if n in (None, 0):
                del row[self.c:]
            elif n == 2:
                del row[:]
            elif n == 1:
                for k in range(min(self.c + 1, len(row))):
                    row[k] = " "
            else:
                raise Unsupported("ESC[%sK" % params)
        else:
            raise Unsupported("ESC[%s%s" % (params, final))

    def lines(self, strip=True):
        out = ["".join(r) for r in self.rows]
        if strip:
            out = [l.rstrip(" ") for l in out]
        return out

    def screen(self):
        """Rows with trailing blanks removed and trailing empty rows dropped."""
        out = self.lines()
        while out and out[-1] == "":
            out.pop()
        return out

    def current_line(self):
        return "".join(self._row()).rstrip(" ")


_SGR = re.compile(r"\x1b\[[0-9;]*m")


def strip_sgr(s):
    return _SGR.sub("", s)


def wrap_rows(line, width):
    """Rows a logical line occupies on a terminal of that width (empty line = one empty row)."""
    if line == "":
        return [""]
    return [line[i:i + width] for i in range(0, len(line), width)]
