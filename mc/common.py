"""Shared setup: locate the clikit tree under test and put it first on sys.path."""
import os
import sys

VERIF = os.path.dirname(os.path.dirname(os.path.abspath(__file__)))
REPO = os.path.abspath(os.environ.get("VERIF_REPO", "/repo"))
SRC = os.path.join(REPO, "src")
# evidence/ and replays/ go here; the mutant runner points it at a scratch directory
OUT = os.path.abspath(os.environ.get("VERIF_OUT", VERIF))


def bind_repo():
    """Make `import clikit` resolve to <REPO>/src (the working tree, no install step)."""
    for k in [k for k in sys.modules if k == "clikit" or k.startswith("clikit.")]:
        del sys.modules[k]
    if SRC in sys.path:
        sys.path.remove(SRC)
    sys.path.insert(0, SRC)
    import clikit  # noqa

    got = os.path.dirname(os.path.abspath(clikit.__file__))
    want = os.path.join(SRC, "clikit")
    if os.path.realpath(got) != os.path.realpath(want):
        raise RuntimeError("engine error: clikit imported from %s, wanted %s" % (got, want))


def tier():
    return os.environ.get("VERIF_TIER", "quick")


def seed():
    try:
        return int(os.environ.get("VERIF_SEED", "0"))
    except ValueError:
        return 0


def ncpu():
    try:
        n = int(os.environ.get("VERIF_WORKERS", "0"))
    except ValueError:
        n = 0
    return n or min(16, os.cpu_count() or 1)
