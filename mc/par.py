"""Deterministic fan-out over forked long-lived workers.

`pmap(fn, items)` applies fn(item) -> result in up to ncpu() processes; items are
dealt round-robin by index so the split never depends on timing; results come back
in item order.  fn must be a module-level or closure function (fork start method).
"""
import multiprocessing as mp
import os
import traceback

from . import common

_FN = None


def _work(args):
    idx, item = args
    try:
        return idx, _FN(item), None
    except BaseException:
        return idx, None, traceback.format_exc()


def pmap(fn, items, workers=None):
    global _FN
    items = list(items)
    workers = workers or common.ncpu()
    if workers <= 1 or len(items) <= 1 or os.environ.get("VERIF_SERIAL"):
        return [fn(it) for it in items]
    _FN = fn
    ctx = mp.get_context("fork")
    with ctx.Pool(min(workers, len(items))) as pool:
        out = pool.map(_work, list(enumerate(items)), chunksize=1)
    _FN = None
    res = [None] * len(items)
    for idx, r, err in out:
        if err:
            raise RuntimeError("engine error in worker:\n" + err)
        res[idx] = r
    return res


def chunks(seq, n):
    """Deal seq into n round-robin slices (deterministic)."""
    seq = list(seq)
    return [seq[i::n] for i in range(n) if seq[i::n]]
