"""Violations, known findings, replay files and evidence files.

A *violation* is a dict {sig, what, case, expected, observed}.  `sig` identifies
that failure and no other (see DESIGN.md 1.5).  known_findings.json is read only.
"""
import hashlib
import json
import os
import sys
import time

from . import common

KNOWN_PATH = os.path.join(common.VERIF, "known_findings.json")


def _jsonable(x, depth=0):
    if depth > 12:
        return repr(x)
    if isinstance(x, (str, int, bool)) or x is None:
        return x
    if isinstance(x, float):
        return x if x == x and x not in (float("inf"), float("-inf")) else repr(x)
    if isinstance(x, bytes):
        return x.decode("latin-1")
    if isinstance(x, dict):
        return {str(k): _jsonable(v, depth + 1) for k, v in x.items()}
    if isinstance(x, (list, tuple)):
        return [_jsonable(v, depth + 1) for v in x]
    if isinstance(x, (set, frozenset)):
        return sorted((_jsonable(v, depth + 1) for v in x), key=repr)
    return repr(x)


def viol(sig, what, case, expected=None, observed=None):
    return {
        "sig": sig,
        "what": what,
        "case": _jsonable(case),
        "expected": _jsonable(expected),
        "observed": _jsonable(observed),
    }


def exc_site(exc):
    """Signature fragment for a crash: exception class + innermost clikit frame (function name,
    not line number, so that unrelated edits do not change it)."""
    tb = exc.__traceback__
    site = "?"
    while tb is not None:
        fn = tb.tb_frame.f_code.co_filename
        if os.sep + "clikit" + os.sep in fn:
            rel = fn.split(os.sep + "clikit" + os.sep, 1)[1]
            site = "%s:%s" % (rel, tb.tb_frame.f_code.co_name)
        tb = tb.tb_next
    return "%s@%s" % (type(exc).__name__, site)


class Report(object):
    def __init__(self, pid, level, tier=None, seed=None):
        self.pid = pid
        self.level = level
        self.tier = tier or common.tier()
        self.seed = common.seed() if seed is None else seed
        self.t0 = time.time()
        self.violations = {}  # sig -> violation (first = smallest, generators are simplest-first)
        self.cov = {"samples": []}
        self.assumptions = []
        self.parts = {}
        try:
            with open(KNOWN_PATH) as f:
                kf = json.load(f)
        except IOError:
            kf = {"known": [], "fixed": []}
        self.known = {k["sig"]: k for k in kf.get("known", []) if k.get("property") == pid}

    # ---- coverage bookkeeping -------------------------------------------------
    def add(self, key, n=1):
        self.cov[key] = self.cov.get(key, 0) + n

    def set(self, key, v):
        self.cov[key] = v

    def sample(self, s, cap=8):
        if len(self.cov["samples"]) < cap:
            self.cov["samples"].append(_jsonable(s))

    def part(self, name, **kw):
        """Per-sub-exploration numbers kept verbatim in the evidence."""
        self.parts[name] = _jsonable(kw)

    def assume(self, text):
        if text not in self.assumptions:
            self.assumptions.append(text)

    # ---- violations -----------------------------------------------------------
    def violation(self, v):
        if v["sig"] not in self.violations:
            self.violations[v["sig"]] = v

    def merge(self, vs):
        for v in vs:
            self.violation(v)

    # ---- finishing ------------------------------------------------------------
    def finish(self):
        unknown = 0
        used_known = 0
        for sig, v in sorted(self.violations.items()):
            if sig in self.known:
                used_known += 1
                print("KNOWN-FINDING: property=%s %s [%s]" % (self.pid, self.known[sig].get("what", v["what"]), sig))
                continue
            unknown += 1
            d = os.path.join(common.OUT, "replays", self.pid)
            os.makedirs(d, exist_ok=True)
            h = hashlib.sha1(sig.encode()).hexdigest()[:12]
            path = os.path.join(d, h + ".json")
            with open(path, "w") as f:
                json.dump(dict(v, property=self.pid), f, indent=1, sort_keys=True)
            print("  %s: %s" % (sig, v["what"]))
            print("    case=%s" % json.dumps(v["case"])[:600])
            print("    expected=%s" % json.dumps(v["expected"])[:400])
            print("    observed=%s" % json.dumps(v["observed"])[:400])
            print("VIOLATION property=%s replay=%s" % (self.pid, path))
        cov = dict(self.cov)
        if self.parts:
            cov["parts"] = self.parts
        cov["known_findings_matched"] = used_known
        ev = {
            "property_id": self.pid,
            "tier": self.tier if self.tier in ("quick", "thorough") else "quick",
            "seed": self.seed,
            "level": self.level,
            "coverage": cov,
            "assumptions": self.assumptions,
            "wall_s": round(time.time() - self.t0, 3),
            "violations": unknown,
        }
        d = os.path.join(common.OUT, "evidence")
        os.makedirs(d, exist_ok=True)
        tmp = os.path.join(d, ".%s.json.tmp" % self.pid)
        with open(tmp, "w") as f:
            json.dump(ev, f, indent=1, sort_keys=True)
        os.replace(tmp, os.path.join(d, "%s.json" % self.pid))
        brief = {k: v for k, v in cov.items() if isinstance(v, (int, float, bool))}
        print("%s tier=%s seed=%d %s wall=%.1fs violations=%d known=%d" % (
            self.pid, self.tier, self.seed, json.dumps(brief, sort_keys=True), ev["wall_s"], unknown, used_known))
        sys.stdout.flush()
        return 1 if unknown else 0
