"""E3: deterministic thread scheduler with iterative preemption bounding (DESIGN.md 1.3).

Logical threads run on real OS threads but exactly one holds the baton at any time.  The code under
test reaches the scheduler through fakes of `threading` (Thread, Event) and `time` (time, sleep)
that the harness plants in the module under test, and through a wrapped output stream; optionally
also through `sys.settrace` line events (fine granularity).  Every scheduling point records the
enabled threads in canonical order (index 0 = the free default: the running thread if it can go on,
else the lowest runnable thread, else the earliest timer); any other choice costs one preemption.
An execution is identified by its list of choices and can be replayed exactly.
"""
import sys
import threading as _threading

RUNNABLE, SLEEPING, JOINING, BLOCKED, DONE, NEW = "runnable", "sleeping", "joining", "blocked", "done", "new"


class Abort(BaseException):
    """Raised inside a logical thread to unwind it when the execution is torn down."""


class EngineError(Exception):
    pass


class LThread(object):
    def __init__(self, sched, tid, target=None, name=None):
        self.sched = sched
        self.tid = tid
        self.target = target
        self.name = name or ("T%d" % tid)
        self.sem = _threading.Semaphore(0)
        self.state = NEW
        self.wake = None
        self.join_target = None
        self.block_on = None
        self.os_thread = None
        self.exc = None


class Point(object):
    __slots__ = ("kind", "tid", "enabled", "chosen", "clock")

    def __init__(self, kind, tid, enabled, chosen, clock):
        self.kind, self.tid, self.enabled, self.chosen, self.clock = kind, tid, enabled, chosen, clock


class Sched(object):
    HORIZON = 2000

    def __init__(self, choices=(), clock_ms=1000000000, trace_lines_in=None):
        self.prefix = list(choices)
        self.points = []
        self.threads = []
        self.clock_ms = clock_ms
        self.current = None
        self.abort = False
        self.deadlock = False
        self.livelock = False
        self.trace_lines_in = trace_lines_in  # filename suffix for line-level scheduling points
        self.log = []  # (tid, event, payload) visible operations, in execution order
        main = LThread(self, 0, name="main")
        main.state = RUNNABLE
        main.os_thread = _threading.current_thread()
        self.threads.append(main)
        self.current = main

    # ---- time ---------------------------------------------------------------------------------
    def time(self):
        return self.clock_ms / 1000.0

    def sleep(self, seconds):
        cur = self._me()
        cur.state = SLEEPING
        cur.wake = self.clock_ms + int(round(seconds * 1000))
        self.point("sleep")

    # ---- scheduling ---------------------------------------------------------------------------
    def _me(self):
        me = _threading.current_thread()
        cur = self.current
        if cur.os_thread is not me:
            raise EngineError("a thread ran without holding the baton")
        return cur

    def _enabled(self, cur):
        """Canonical order: running thread first if it can continue, then runnable threads by id,
        then sleepers by (wake time, id).  A joiner whose target is done is runnable."""
        for t in self.threads:
            if t.state == JOINING and t.join_target.state == DONE:
                t.state = RUNNABLE
            elif t.state == SLEEPING and t.join_target is not None and t.join_target.state == DONE:
                t.state = RUNNABLE  # a timed join whose target ended before the time-out
                t.wake = None
            elif t.state == BLOCKED and t.block_on.owner is None:
                t.state = RUNNABLE
        run = [t for t in self.threads if t.state == RUNNABLE]
        slp = sorted([t for t in self.threads if t.state == SLEEPING], key=lambda t: (t.wake, t.tid))
        out = []
        if cur is not None and cur.state == RUNNABLE:
            out.append(cur)
        out += [t for t in run if t is not cur]
        out += slp
        return out

    def point(self, kind):
        """Called by the running thread before a visible operation (or after it changed its own
        state to sleeping/joining/done).  May hand the baton to another thread and block."""
        cur = self._me()
        if self.abort:
            raise Abort()
        if len(self.points) >= self.HORIZON:
            self.livelock = True
            self._teardown(cur)
        en = self._enabled(cur)
        if not en:
            if all(t.state == DONE for t in self.threads):
                return
            self.deadlock = True
            self._teardown(cur)
        i = len(self.points)
        if i < len(self.prefix):
            c = self.prefix[i]
            if c >= len(en):
                raise EngineError("replay diverged at point %d: choice %d of %d enabled" % (i, c, len(en)))
        else:
            c = 0
        self.points.append(Point(kind, cur.tid, [t.tid for t in en], c, self.clock_ms))
        nxt = en[c]
        if nxt.state == SLEEPING:
            if nxt.wake > self.clock_ms:
                self.clock_ms = nxt.wake
            nxt.state = RUNNABLE
            nxt.wake = None
        self._switch(cur, nxt)

    def _switch(self, cur, nxt):
        if nxt is cur:
            return
        self.current = nxt
        nxt.sem.release()
        if cur.state == DONE:
            return
        cur.sem.acquire()
        if self.abort:
            raise Abort()

    def _teardown(self, cur):
        """Unwind every logical thread (deadlock / livelock / leak clean-up)."""
        self.abort = True
        raise Abort()

    # ---- thread API used by the fakes ---------------------------------------------------------
    def spawn(self, target, name=None):
        t = LThread(self, len(self.threads), target, name)
        self.threads.append(t)
        return t

    def start(self, t):
        self._me()

        def run():
            t.sem.acquire()
            try:
                if self.abort:
                    raise Abort()
                if self.trace_lines_in:
                    sys.settrace(self._tracer)
                t.target()
            except Abort:
                pass
            except BaseException as e:  # the thread body failed: recorded, the thread ends
                t.exc = e
            finally:
                sys.settrace(None)
                t.state = DONE
                if not self.abort:
                    try:
                        self.point("exit")
                    except Abort:
                        pass
                if self.abort:
                    self._release_all(t)

        t.os_thread = _threading.Thread(target=run, daemon=True)
        t.state = RUNNABLE
        t.os_thread.start()
        self.point("thread.start")

    def join(self, t, timeout=None):
        """join(): blocked until t is done.  join(timeout): additionally enabled as a timer that fires `timeout` later
        (the joiner then goes on although t is still alive) - whether t finishes first is the schedule's choice."""
        cur = self._me()
        if t.state == NEW:
            raise RuntimeError("cannot join thread before it is started")  # what threading.Thread.join does
        if t.state != DONE:
            if timeout is None:
                cur.state = JOINING
            else:
                cur.state = SLEEPING
                cur.wake = self.clock_ms + int(round(max(0, timeout) * 1000))
            cur.join_target = t
        self.point("thread.join")
        cur.join_target = None

    def _release_all(self, me):
        """abort: wake the main thread first (it drives the clean-up)"""
        main = self.threads[0]
        if me is not main:
            self.current = main
            main.sem.release()

    def _tracer(self, frame, event, arg):
        if frame.f_code.co_filename.endswith(self.trace_lines_in):
            return self._line
        return None

    def _line(self, frame, event, arg):
        if event == "line":
            self.point("line:%d" % frame.f_lineno)
        return self._line

    # ---- driving one execution -----------------------------------------------------------------
    def run_main(self, body):
        """Run body() as logical thread 0 on the calling OS thread; afterwards tear down whatever is
        still alive.  Returns (exception raised by body or None, list of tids still alive)."""
        exc = None
        if self.trace_lines_in:
            sys.settrace(self._tracer)
        try:
            body()
        except Abort:
            pass
        except BaseException as e:
            exc = e
        finally:
            sys.settrace(None)
        main = self.threads[0]
        alive = [t.tid for t in self.threads[1:] if t.state not in (DONE, NEW)]
        # clean-up: abort everything that is still alive, one at a time
        self.abort = True
        for t in self.threads[1:]:
            if t.state in (DONE, NEW) or t.os_thread is None:
                continue
            self.current = t
            t.sem.release()
            t.os_thread.join(5)
            if t.os_thread.is_alive():
                raise EngineError("could not unwind logical thread %d" % t.tid)
        for t in self.threads[1:]:
            if t.state == RUNNABLE and t.os_thread is not None and t.os_thread.is_alive():
                t.sem.release()
                t.os_thread.join(5)
        return exc, alive

    def choices(self):
        return [p.chosen for p in self.points]


# ---- fakes planted into the module under test ---------------------------------------------------
class FakeEvent(object):
    def __init__(self, sched):
        self._s = sched
        self._flag = False

    def set(self):
        self._s.point("event.set")
        self._flag = True

    def clear(self):
        self._s.point("event.clear")
        self._flag = False

    def is_set(self):
        self._s.point("event.is_set")
        return self._flag

    isSet = is_set

    def wait(self, timeout=None):
        if self._flag:
            return True
        if timeout is None:
            raise EngineError("Event.wait() without timeout is not modelled")
        self._s.sleep(timeout)
        return self._flag


class FakeLock(object):
    """threading.Lock / RLock under the scheduler: acquire is a scheduling point; a thread that finds
    the lock taken is blocked (not enabled) until it is free."""

    def __init__(self, sched, reentrant=False):
        self._s = sched
        self._re = reentrant
        self.owner = None
        self._count = 0

    def acquire(self, blocking=True, timeout=-1):
        s = self._s
        s.point("lock.acquire")
        me = s._me()
        while self.owner is not None and not (self._re and self.owner is me):
            if not blocking:
                return False
            me.state = BLOCKED
            me.block_on = self
            s.point("lock.wait")
        self.owner = me
        self._count += 1
        return True

    def release(self):
        if self.owner is None:
            raise RuntimeError("release unlocked lock")
        self._count -= 1
        if self._count == 0:
            self.owner = None
        self._s.point("lock.release")

    def locked(self):
        return self.owner is not None

    __enter__ = acquire

    def __exit__(self, *a):
        self.release()


class FakeThread(object):
    def __init__(self, sched, group=None, target=None, name=None, args=(), kwargs=None, daemon=None):
        self._s = sched
        kwargs = kwargs or {}
        self._lt = sched.spawn((lambda: target(*args, **kwargs)) if target else (lambda: None), name)
        self.daemon = daemon
        self.name = name

    def start(self):
        self._s.start(self._lt)

    def join(self, timeout=None):
        self._s.join(self._lt, timeout)

    def is_alive(self):
        return self._lt.state not in (DONE, NEW)

    isAlive = is_alive

    def setDaemon(self, v):
        self.daemon = v


class FakeThreadingModule(object):
    def __init__(self, sched):
        self._s = sched
        self.Event = lambda: FakeEvent(sched)
        self.Thread = lambda *a, **k: FakeThread(sched, *a, **k)
        self.Lock = lambda: FakeLock(sched)
        self.RLock = lambda: FakeLock(sched, reentrant=True)
        for name in ("Condition", "Semaphore", "BoundedSemaphore", "Timer", "Barrier"):
            setattr(self, name, self._unmodelled(name))

    def _unmodelled(self, name):
        def f(*a, **k):
            raise EngineError("threading.%s is not modelled by the scheduler" % name)
        return f

    def current_thread(self):
        return self._s.current


class FakeTimeModule(object):
    def __init__(self, sched, real):
        self._s = sched
        self._real = real
        self.time = sched.time
        self.sleep = sched.sleep
        self.monotonic = sched.time
        self.perf_counter = sched.time

    def __getattr__(self, name):
        return getattr(self._real, name)


def plant(module, sched):
    """Replace, in `module`'s globals, every object identical to the real threading/time modules or
    their members by scheduler-owned fakes.  Returns a dict to restore with unplant()."""
    import time as _time
    saved = {}
    ft, fm = FakeTimeModule(sched, _time), FakeThreadingModule(sched)
    repl = [(_threading, fm), (_time, ft), (_threading.Thread, fm.Thread), (_threading.Event, fm.Event),
            (_threading.Lock, fm.Lock), (_threading.RLock, fm.RLock), (_time.time, ft.time), (_time.sleep, ft.sleep)]
    for k, v in list(vars(module).items()):
        for real, fake in repl:
            if v is real:
                saved[k] = v
                setattr(module, k, fake)
    if not saved:
        raise EngineError("nothing to plant in %s: the module no longer uses threading/time" % module.__name__)
    return saved


def unplant(module, saved):
    for k, v in saved.items():
        setattr(module, k, v)


# ---- two independent computations at once ---------------------------------------------------------
def run_pair(choices, thunks, trace_lines_in, horizon=None):
    """Run thunks[0] and thunks[1] as two logical threads (scheduling points: every source line of the file whose name ends
    with trace_lines_in), following `choices`.  -> (sched, [result or None, ...], exception of the main body, alive tids)"""
    s = Sched(choices, trace_lines_in=trace_lines_in)
    if horizon:
        s.HORIZON = horizon
    got = [None] * len(thunks)

    def mk(i):
        def f():
            got[i] = thunks[i]()
        return f

    def body():
        ts = [s.spawn(mk(i), "t%d" % i) for i in range(len(thunks))]
        for t in ts:
            s.start(t)
        for t in ts:
            s.join(t)

    exc, alive = s.run_main(body)
    return s, got, exc, alive


def root_alternatives(run_one):
    """the default schedule, and every prefix that deviates from it once (for dealing a schedule tree to workers)"""
    points, vs = run_one([])
    chosen = [p.chosen for p in points]
    alts = [chosen[:i] + [alt] for i in range(len(points)) for alt in range(1, len(points[i].enabled))]
    return {"execs": 1, "by_preemptions": {0: 1}, "max_points": len(points), "capped": False}, vs, alts


# ---- exploration --------------------------------------------------------------------------------
def explore(run_one, bound, max_execs=None, first_alts=None):
    """Depth-first enumeration of all schedules with at most `bound` preemptions.
    run_one(choices) -> (points, verdict) executes one schedule (replaying `choices`, then default 0)
    and returns the Point list and a list of violations.  Returns (n_exec, violations, hist) where
    hist maps number of preemptions -> executions."""
    stats = {"execs": 0, "by_preemptions": {}, "max_points": 0, "capped": False}
    violations = []
    stack = [[]] if first_alts is None else list(first_alts)
    while stack:
        prefix = stack.pop()
        if max_execs is not None and stats["execs"] >= max_execs:
            stats["capped"] = True
            break
        points, vs = run_one(prefix)
        stats["execs"] += 1
        chosen = [p.chosen for p in points]
        if chosen[:len(prefix)] != prefix:
            raise EngineError("replay of prefix diverged: %r vs %r" % (prefix, chosen[:len(prefix)]))
        npre = sum(1 for c in chosen if c != 0)
        stats["by_preemptions"][npre] = stats["by_preemptions"].get(npre, 0) + 1
        stats["max_points"] = max(stats["max_points"], len(points))
        for v in vs:
            v.setdefault("case", {})
            v["case"]["choices"] = chosen
            violations.append(v)
        used = sum(1 for c in prefix if c != 0)
        if used >= bound:
            continue
        for i in range(len(points) - 1, len(prefix) - 1, -1):
            for alt in range(len(points[i].enabled) - 1, 0, -1):
                stack.append(chosen[:i] + [alt])
    return stats, violations
