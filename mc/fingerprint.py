"""Generic deep structural fingerprint of live Python objects (DESIGN.md 1.2).

canon(obj) walks the *whole* instance dict of every object reachable from obj
(no attribute name is hard-coded), keeps dict insertion order and list order
(both are observable through iteration), replaces shared/cyclic references by
the index of their first visit, and names functions/classes by qualified name.
`leaf(obj)` may return a replacement for objects that should be opaque (streams
are replaced by their buffered contents, bound listener closures by their tag).
Two states with equal canon have equal futures as far as Python-level state goes.
"""
import types

_ATOM = (str, bytes, int, float, bool, type(None), complex)


def canon(obj, leaf=None):
    seen = {}

    def walk(o):
        if isinstance(o, _ATOM):
            return (type(o).__name__, o) if isinstance(o, (bool, float)) else o
        if leaf is not None:
            r = leaf(o)
            if r is not None:
                return ("leaf", r)
        oid = id(o)
        if oid in seen:
            return ("ref", seen[oid])
        if isinstance(o, (types.FunctionType, types.BuiltinFunctionType, type)):
            return ("named", getattr(o, "__module__", ""), getattr(o, "__qualname__", repr(o)))
        if isinstance(o, types.MethodType):
            return ("method", walk(o.__self__), o.__func__.__qualname__)
        seen[oid] = len(seen)
        if isinstance(o, dict):
            return (type(o).__name__, tuple((walk(k), walk(v)) for k, v in o.items()))
        if isinstance(o, (list, tuple)):
            return (type(o).__name__, tuple(walk(v) for v in o))
        if isinstance(o, (set, frozenset)):
            return (type(o).__name__, tuple(sorted((walk(v) for v in o), key=repr)))
        d = getattr(o, "__dict__", None)
        if d is not None:
            return ("obj", type(o).__module__, type(o).__qualname__, tuple((k, walk(v)) for k, v in sorted(d.items())))
        slots = getattr(type(o), "__slots__", None)
        if slots:
            return ("obj", type(o).__qualname__, tuple((k, walk(getattr(o, k, None))) for k in slots))
        return ("repr", type(o).__qualname__, repr(o))

    return walk(obj)
