"""E2: explicit-state breadth-first exploration over real objects (DESIGN.md 1.2).

A *spec* object provides
    init()                -> state (holds the real object(s) under test + the reference model)
    ops(state, depth)     -> list of operations (JSON-able tuples) enabled in that state
    apply(state, op)      -> list of violations (oracle evaluated on every transition), mutates state
    key(state)            -> hashable canonical fingerprint (full state, see mc.fingerprint)
    fork(state)           -> independent copy        (or)   spec.replay = True: states are rebuilt
                                                            from init() by re-applying the history
The search is breadth first, simplest-first; exploration is split over forked workers
by the states reached at `split_depth` (each worker deduplicates inside its share; the
union of fingerprints is taken afterwards for the reported state count).
"""
import collections

from . import par


class Result(object):
    def __init__(self):
        self.states = 0
        self.transitions = 0
        self.max_depth = 0
        self.cut = 0  # states at the depth bound that were not expanded
        self.violations = []
        self.samples = []
        self.keys = set()
        self.capped = False  # stopped at max_states (a state space that does not converge): nothing is claimed beyond

    @property
    def closed(self):
        return self.cut == 0

    def as_dict(self):
        return dict(states=self.states, transitions=self.transitions, max_depth=self.max_depth,
                    closed=self.closed and not self.capped, unexpanded_at_bound=self.cut, stopped_at_state_cap=self.capped)


def rebuild(spec, hist):
    st = spec.init()
    for op in hist:
        spec.apply(st, op)
    return st


def _bfs(spec, roots, max_depth, dedup, res, collect_frontier_at=None, vio_cap=40, max_states=None):
    """roots: list of (history, state|None).  Returns frontier at collect_frontier_at if given."""
    use_fork = not getattr(spec, "replay", False)
    frontier = collections.deque(roots)
    out = []
    while frontier:
        hist, st = frontier.popleft()
        depth = len(hist)
        if collect_frontier_at is not None and depth == collect_frontier_at:
            out.append((hist, st))
            continue
        if depth >= max_depth:
            res.cut += 1
            continue
        if max_states is not None and res.states > max_states:
            res.capped = True
            res.cut += 1 + len(frontier)
            return out
        base = st if use_fork else rebuild(spec, hist)
        for op in spec.ops(base, depth):
            nxt = spec.fork(base) if use_fork else rebuild(spec, hist)
            vs = spec.apply(nxt, op)
            res.transitions += 1
            nh = hist + (op,)
            if vs:
                for v in vs:
                    v["case"] = {"history": [list(o) if isinstance(o, tuple) else o for o in nh]}
                res.violations.extend(vs)
                if len(res.violations) >= vio_cap:
                    return out
                continue
            if dedup:
                k = hash(spec.key(nxt))
                if k in res.keys:
                    continue
                res.keys.add(k)
            res.states += 1
            if depth + 1 > res.max_depth:
                res.max_depth = depth + 1
            if len(res.samples) < 4 and depth + 1 == max_depth:
                res.samples.append([list(o) if isinstance(o, tuple) else o for o in nh])
            frontier.append((nh, nxt if use_fork else None))
    return out


def explore(spec, max_depth, split_depth=1, dedup=True, workers=None, max_states=None):
    res = Result()
    root = spec.init()
    if dedup:
        res.keys.add(hash(spec.key(root)))
    res.states = 1
    sd = min(split_depth, max_depth)
    frontier = _bfs(spec, [((), root)], max_depth, dedup, res, collect_frontier_at=sd)
    if res.violations or not frontier:
        return res
    if sd >= max_depth:
        res.cut += len(frontier)
        return res
    hists = [h for h, _ in frontier]  # states are rebuilt inside the workers (fork-safe, picklable)

    def work(share):
        r = Result()
        roots = []
        for h in share:
            roots.append((h, rebuild(spec, h)))
        _bfs(spec, roots, max_depth, dedup, r, max_states=max_states)
        keys = r.keys if len(r.keys) <= 3000000 else None
        return (r.states, r.transitions, r.max_depth, r.cut, r.violations, r.samples, keys, r.capped)

    import os
    n = workers or (os.cpu_count() or 1)
    shares = par.chunks(hists, max(1, min(len(hists), n * 4)))
    union_ok = dedup
    sub_states = 0
    for (s, t, md, cut, vs, smp, keys, capped) in par.pmap(work, shares, workers=workers):
        res.capped = res.capped or capped
        sub_states += s
        res.transitions += t
        res.max_depth = max(res.max_depth, md)
        res.cut += cut
        res.violations.extend(vs)
        res.samples.extend(smp[: max(0, 4 - len(res.samples))])
        if dedup and keys is not None:
            res.keys |= keys
        else:
            union_ok = False
    if union_ok:
        res.states = len(res.keys)
    else:
        res.states += sub_states
    res.keys = set()
    return res


def replay(spec, case):
    """Re-run one recorded history without the explorer; returns the first violation or None."""
    st = spec.init()
    for op in case["history"]:
        op = tuple(op) if isinstance(op, list) else op
        vs = spec.apply(st, op)
        if vs:
            return vs[0]
    return None
